// Native replay for the qsbr.state.* jobs: the REAL qsbr_state / qsbr_epoch functions (g++ NDEBUG build of /repo's headers, -fno-access-control)
// judged by the same field-wise specification as proofs/qsbr/state.c.  (Assertion obligations of the debug extraction have no native judge here:
// they replay as "cannot tell".)
#include "global.hpp"
#include "qsbr.hpp"
#include "replay_util.hpp"
using S = unodb::qsbr_state; using E = unodb::qsbr_epoch;
static std::uint32_t prev_(std::uint64_t w) { return (std::uint32_t)(w & 0x3FFFFFFFu); }
static std::uint32_t cnt_(std::uint64_t w) { return (std::uint32_t)((w >> 32) & 0x3FFFFFFFu); }
static unsigned ep_(std::uint64_t w) { return (unsigned)(w >> 62); }
static int confirmed = 0;
static void post(std::uint64_t r, unsigned e, std::uint32_t c, std::uint32_t p) {
  std::printf("result=%016lx epoch=%u count=%u prev=%u expected epoch=%u count=%u prev=%u\n", r, ep_(r), cnt_(r), prev_(r), e, c, p);
  CONFIRM(ep_(r) == e, "epoch field differs from the contract"); CONFIRM(cnt_(r) == c, "thread count field differs from the contract");
  CONFIRM(prev_(r) == p, "threads-in-previous-epoch field differs from the contract"); CONFIRM(prev_(r) <= cnt_(r), "invariant prev <= count broken"); }
int main(int argc, char** argv) {
  Inputs in(argc, argv); const std::string j = in.job;
  std::uint64_t w = in.has("IN_w") ? in.u64("IN_w") : 0; std::printf("word=%016lx epoch=%u count=%u prev=%u\n", w, ep_(w), cnt_(w), prev_(w));
  if (j == "qsbr.state.get") { CONFIRM(S::do_get_epoch(w).get_val() == ep_(w), "get_epoch"); CONFIRM(S::do_get_thread_count(w) == cnt_(w), "get_thread_count");
    CONFIRM(S::do_get_threads_in_previous_epoch(w) == prev_(w), "get_threads_in_previous_epoch"); CONFIRM(S::single_thread_mode(w) == (cnt_(w) < 2), "single_thread_mode"); }
  else if (j == "qsbr.state.make") { auto e = (std::uint8_t)in.u64("IN_e"); post(S::make_from_epoch(E{e}), e, 0, 0); }
  else if (j == "qsbr.state.inc") post(S::inc_thread_count(w), ep_(w), cnt_(w) + 1, prev_(w));
  else if (j == "qsbr.state.dec") post(S::dec_thread_count(w), ep_(w), cnt_(w) - 1, prev_(w));
  else if (j == "qsbr.state.inc2") post(S::inc_thread_count_and_threads_in_previous_epoch(w), ep_(w), cnt_(w) + 1, prev_(w) + 1);
  else if (j == "qsbr.state.dec2") post(S::dec_thread_count_and_threads_in_previous_epoch(w), ep_(w), cnt_(w) - 1, prev_(w) - 1);
  else if (j == "qsbr.state.adv") post(S::inc_epoch_reset_previous(w), (ep_(w) + 1) & 3, cnt_(w), cnt_(w));
  else if (j == "qsbr.state.adv_dec") post(S::inc_epoch_dec_thread_count_reset_previous(w), (ep_(w) + 1) & 3, cnt_(w) - 1, cnt_(w) - 1);
  else if (j == "qsbr.state.maybe") { bool a = in.u64("IN_a") & 1; auto r = S::dec_thread_count_threads_in_previous_epoch_maybe_advance(w, a);
    if (a) post(r, (ep_(w) + 1) & 3, cnt_(w) - 1, cnt_(w) - 1); else post(r, ep_(w), cnt_(w) - 1, prev_(w) - 1); }
  else if (j == "qsbr.state.fetch_dec") { std::atomic<std::uint64_t> c{w}; auto old = S::atomic_fetch_dec_threads_in_previous_epoch(c); CONFIRM(old == w, "returned word is not the replaced word"); post(c.load(), ep_(w), cnt_(w), prev_(w) - 1); }
  else if (j == "qsbr.state.epoch") { auto e = (std::uint8_t)in.u64("IN_e"), f = (std::uint8_t)in.u64("IN_f"); auto by = (unsigned)in.u64("IN_by");
    CONFIRM(E{e}.get_val() == e, "constructor"); CONFIRM(E{e}.advance(by).get_val() == ((e + (std::uint64_t)by) & 3), "advance"); CONFIRM((E{e} == E{f}) == (e == f), "operator=="); }
  else { std::printf("no native replay for job %s\n", j.c_str()); return 2; }
  return confirmed ? 1 : 0;
}
