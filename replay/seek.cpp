// Native replay for the seek fall-off obligation (C02): the counterexample is structural ("the bound's next key byte is larger (smaller) than every
// child of an inner node below the root, and an ancestor has a greater (smaller) sibling").  The smallest real trees with that structure are
// materialised through the public API and scan_from is compared with a std::set reference, for the direction of the counterexample.
#include "global.hpp"
#include "art.hpp"
#include "olc_art.hpp"
#include "qsbr.hpp"
#include "replay_util.hpp"
#include <set>
#include <vector>
template <class DB> static int run(bool fwd) {
  int confirmed = 0; unsigned bad = 0, total = 0;
  // two subtrees under the root (first key byte 01 / 02 / 03), two or three leaves each (last byte)
  for (unsigned shape = 0; shape < 4; shape++) {
    DB db; std::set<std::uint64_t> ref; std::vector<std::byte> val(1, std::byte{7});
    for (std::uint64_t hi = 1; hi <= (shape & 1 ? 3u : 2u); hi++) for (std::uint64_t lo = 1; lo <= (shape & 2 ? 3u : 2u); lo++) { std::uint64_t k = (hi << 56) | (lo * 2); ref.insert(k); if (!db.insert(k, unodb::value_view{val.data(), 1})) return 2; }
    std::vector<std::uint64_t> bounds;
    for (std::uint64_t hi = 0; hi <= 4; hi++) for (std::uint64_t lo = 0; lo <= 9; lo++) bounds.push_back((hi << 56) | lo);
    for (auto b : bounds) {
      if constexpr (!std::is_same_v<DB, unodb::db<std::uint64_t, unodb::value_view>>) unodb::this_thread().quiescent();
      std::vector<std::uint64_t> got, want;
      db.scan_from(b, [&](const unodb::visitor<typename DB::iterator>& v) { auto kv = v.get_key(); std::uint64_t k = 0; for (std::size_t i = 0; i < 8 && i < kv.size(); i++) k = (k << 8) | static_cast<std::uint8_t>(kv[i]); got.push_back(k); return false; }, fwd);
      if (fwd) for (auto it = ref.lower_bound(b); it != ref.end(); ++it) want.push_back(*it);
      else { auto it = ref.upper_bound(b); while (it != ref.begin()) { --it; want.push_back(*it); } }
      total++;
      if (got != want) { if (bad < 3) std::printf("scan_from(%016lx, %s): visited %zu entries, expected %zu (first expected %016lx)\n", b, fwd ? "fwd" : "rev", got.size(), want.size(), want.empty() ? 0ul : want[0]); bad++; }
    }
  }
  std::printf("%u of %u scan_from calls disagree with the reference map\n", bad, total);
  CONFIRM(bad == 0, "scan_from visits the wrong entries when the bound falls off an inner node below the root");
  return confirmed;
}
int main(int argc, char** argv) {
  Inputs in(argc, argv); bool fwd = in.has("IN_fwd") ? in.u64("IN_fwd") != 0 : true;
  int a = run<unodb::db<std::uint64_t, unodb::value_view>>(fwd);
  int b = run<unodb::olc_db<std::uint64_t, unodb::value_view>>(fwd);      // the OLC index shares the defect and the repair
  return (a == 1 || b == 1) ? 1 : (a == 2 || b == 2 ? 2 : 0);
}
