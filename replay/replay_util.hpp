// Native replay helper: inputs arrive as argv "IN_name=hexbits" (exact bit patterns from the verifier's counterexample).
// Exit 1 = the real code violates the specification on these inputs (confirmed), 0 = it does not (not reproduced), 2 = cannot tell.
#pragma once
#include <cstdint>
#include <cstdio>
#include <cstring>
#include <map>
#include <string>
struct Inputs {
  std::map<std::string, std::string> m; std::string job;
  Inputs(int argc, char** argv) { job = argc > 1 ? argv[1] : ""; for (int i = 2; i < argc; i++) { std::string s = argv[i]; auto p = s.find('='); if (p != std::string::npos) m[s.substr(0, p)] = s.substr(p + 1); } }
  bool has(const std::string& k) const { return m.count(k) != 0; }
  std::uint64_t u64(const std::string& k) const { auto it = m.find(k); if (it == m.end()) { std::printf("missing input %s\n", k.c_str()); std::exit(2); } return std::strtoull(it->second.c_str(), nullptr, 16); }
  template <class T> T bits(const std::string& k) const { std::uint64_t v = u64(k); T t; std::memcpy(&t, &v, sizeof t); return t; }
};
#define CONFIRM(cond, what) do { if (!(cond)) { std::printf("CONFIRMED on the real code: %s\n", what); confirmed = 1; } } while (0)
