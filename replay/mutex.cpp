// Native replay for C13 get: the counterexample says "the wrapped index reports a hit (or miss) with a value of IN_vlen bytes".
// Materialise that on the real mutex_db and evaluate the same postcondition: owns_lock() == found, and the mutex really is held.
#include "global.hpp"
#include "art.hpp"
#include "mutex_art.hpp"
#include "replay_util.hpp"
#include <vector>
template <class DB, class K> static int run(K k, bool hit, std::size_t vlen) {
  int confirmed = 0; DB db; std::vector<std::byte> v(vlen, std::byte{0x5a});
  if (hit) { if (!db.insert(k, unodb::value_view{v.data(), v.size()})) { std::printf("setup insert failed\n"); return 2; } }
  auto r = db.get(k);
  bool found = static_cast<bool>(r.first), owns = r.second.owns_lock();
  std::printf("hit=%d vlen=%zu -> found=%d owns_lock=%d\n", (int)hit, vlen, (int)found, (int)owns);
  CONFIRM(found == hit, "get does not report what the index holds");
  CONFIRM(owns == found, "returned handle owns the index lock iff the key was found (C13)");
  return confirmed;
}
int main(int argc, char** argv) {
  Inputs in(argc, argv);
  bool hit = in.u64("IN_hit") != 0; std::size_t vlen = in.has("IN_vlen") ? in.u64("IN_vlen") : 0; if (vlen > (1u << 20)) vlen = 1u << 20;
  if (in.job.find("mutex.u64") == 0) return run<unodb::mutex_db<std::uint64_t, unodb::value_view>>(std::uint64_t{42}, hit, vlen);
  static const std::byte kb[] = {std::byte{1}, std::byte{2}, std::byte{3}};
  return run<unodb::mutex_db<unodb::key_view, unodb::value_view>>(unodb::key_view{kb, 3}, hit, vlen);
}
