// Native scenario for known finding kv-long-shared-prefix (C01, byte-string keys): two prefix-free keys that share 9 bytes and differ in the 10th.
// Release build (NDEBUG): both inserts report success, but the split node is built with two EQUAL key bytes, so one of the entries cannot be
// found again.  Exit 1 = the violation is observed (map semantics broken), exit 0 = both keys are found with their values.
#include "global.hpp"
#include "art.hpp"
#include <cstdio>
#include <cstring>
using namespace unodb;
static value_view vv(const char* s) { return value_view(reinterpret_cast<const std::byte*>(s), std::strlen(s)); }
int main() {
  db<key_view, value_view> t;
  std::byte k1[10], k2[10];
  for (int i = 0; i < 10; i++) { k1[i] = std::byte(0x11); k2[i] = std::byte(0x11); }
  k2[9] = std::byte(0x22);
  const bool i1 = t.insert(key_view(k1), vv("one")), i2 = t.insert(key_view(k2), vv("two"));
  const auto g1 = t.get(key_view(k1)), g2 = t.get(key_view(k2));
  const bool ok1 = g1 && g1->size() == 3 && std::memcmp(g1->data(), "one", 3) == 0, ok2 = g2 && g2->size() == 3 && std::memcmp(g2->data(), "two", 3) == 0;
  std::printf("insert k1=%d k2=%d; get k1 %s, get k2 %s\n", i1, i2, ok1 ? "one" : "WRONG/MISSING", ok2 ? "two" : "WRONG/MISSING");
  return (i1 && i2 && ok1 && ok2) ? 0 : 1;
}
