// Native replay for the key_prefix jobs: real key_prefix objects of db<uint64_t>, same spec (spec_prefix.h).
#include "global.hpp"
#include "art.hpp"
#include "replay_util.hpp"
extern "C" {
#include "spec_prefix.h"
}
using K = std::uint64_t; using V = unodb::value_view;
using KP = std::remove_cvref_t<decltype(std::declval<unodb::detail::inode_4<K, V>&>().get_key_prefix())>;
static KP* mk(std::uint64_t w) { void* p = std::malloc(8); std::memcpy(p, &w, 8); return static_cast<KP*>(p); }
static std::uint64_t word(const KP* p) { std::uint64_t w; std::memcpy(&w, p, 8); return w; }
int main(int argc, char** argv) {
  Inputs in(argc, argv); int confirmed = 0;
  if (in.job == "node.db64.prefix.cut") {
    auto w = in.u64("IN_w"); auto n = (std::uint8_t)in.u64("IN_n"); KP* a = mk(w); a->cut(n); auto r = word(a);
    std::printf("cut(%u) of %016lx -> %016lx\n", n, w, r);
    CONFIRM(kp_len(r) == kp_len(w) - n, "cut: wrong length");
    for (unsigned j = 0; j < kp_len(w) - n && j < 7; j++) CONFIRM(kp_byte(r, j) == kp_byte(w, j + n), "cut: wrong byte");
  } else if (in.job == "node.db64.prefix.prepend") {
    auto w = in.u64("IN_w"), w1 = in.u64("IN_w1"); auto b = (std::uint8_t)in.u64("IN_b"); KP* a = mk(w); KP* p1 = mk(w1);
    a->prepend(*p1, static_cast<std::byte>(b)); auto r = word(a); unsigned l1 = kp_len(w1), want = kp_len(w) + l1 + 1;
    std::printf("prepend(p1=%016lx, b=%02x) onto %016lx -> %016lx (expected length %u)\n", w1, b, w, r, want);
    CONFIRM(kp_len(r) == want, "prepend: wrong length");
    for (unsigned j = 0; j < want && j < 7; j++) { std::uint8_t e = j < l1 ? kp_byte(w1, j) : j == l1 ? b : kp_byte(w, j - l1 - 1); CONFIRM(kp_byte(r, j) == e, "prepend: wrong byte"); }
  } else if (in.job == "node.db64.prefix.shared") {
    auto w = in.u64("IN_w"), k = in.u64("IN_k"); KP* a = mk(w); unsigned s = a->get_shared_length(k); unsigned e = 0; while (e < kp_len(w) && kp_byte(k, e) == kp_byte(w, e)) e++;
    std::printf("get_shared_length(%016lx) on %016lx -> %u (expected %u)\n", k, w, s, e); CONFIRM(s == e, "get_shared_length wrong");
  } else { std::printf("no native replay for job %s\n", in.job.c_str()); return 2; }
  return confirmed ? 1 : 0;
}
