// Native scenario for the obligation "C16: every counted read section belongs to a live section object" of olc.iter.seek.k2 (assertion-enabled
// build): an exact-match seek that descends through an inner node below the root, then removal of everything, so that the inner nodes are
// deallocated and optimistic_lock::check_on_dealloc() inspects read_lock_count.  Exit 1 = the library assertion fires (violation confirmed).
#include "global.hpp"
#include "olc_art.hpp"
#include <cstdio>
#include <sys/wait.h>
#include <unistd.h>
using namespace unodb;
static value_view vv(const char* s) { return value_view(reinterpret_cast<const std::byte*>(s), 1); }
static void scenario() {
  olc_db<std::uint64_t, value_view> t;
  std::uint64_t ks[] = {0x0100000000000001ULL, 0x0100000000000002ULL, 0x0200000000000001ULL, 0x0200000000000002ULL};
  for (auto k : ks) (void)t.insert(k, vv("x"));
  int n = 0;
  t.scan_from(0x0100000000000001ULL, [&](auto&) { n++; return true; }, true);
  this_thread().quiescent();
  for (auto k : ks) (void)t.remove(k);
  this_thread().quiescent(); this_thread().quiescent();
}
int main() {
  std::fflush(stdout);
  pid_t c = fork();
  if (c == 0) { scenario(); _exit(0); }
  int st = 0; waitpid(c, &st, 0);
  if (WIFEXITED(st) && WEXITSTATUS(st) == 0) { std::printf("scenario completed: no assertion fired\n"); return 0; }
  std::printf("scenario aborted (status %d): a read section was still counted when its node was deallocated\n", st); return 1;
}
