// Native demonstration of known finding C15/text-interior-zero on the real encoder: exits 1 when the finding reproduces.
// g++ -std=c++20 -DNDEBUG -I/repo replay/known_c15_interior_zero.cpp -o /var/tmp/kf && /var/tmp/kf
#include "global.hpp"
#include "art_common.hpp"
#include <cstdio>
#include <cstring>
int main() {
  unodb::key_encoder e1, e2;
  const char s[] = {'a'}; const char t[] = {'a', 0, '\xFF', '\xFB'};
  auto k1 = e1.encode_text(std::string_view(s, sizeof s)).get_key_view();
  auto k2 = e2.encode_text(std::string_view(t, sizeof t)).get_key_view();
  bool prefix = k1.size() < k2.size() && std::memcmp(k1.data(), k2.data(), k1.size()) == 0;
  std::printf("enc(s) %zu bytes, enc(t) %zu bytes, enc(s) is a proper prefix of enc(t): %d\n", k1.size(), k2.size(), (int)prefix);
  return prefix ? 1 : 0;
}
