// Native replay for the encoder/decoder jobs: the REAL functions (g++ build of /repo's headers) judged by the same spec/spec_enc.h.
#include "global.hpp"
#include "art_common.hpp"
#include "art_internal.hpp"
#include "replay_util.hpp"
extern "C" {
#include "spec_enc.h"
}
int main(int argc, char** argv) {
  Inputs in(argc, argv); int confirmed = 0;
  if (in.job == "enc.fp64") {
    double a = in.bits<double>("IN_a"), b = in.bits<double>("IN_b");
    auto ea = unodb::detail::encode_floating_point<std::uint64_t>(a), eb = unodb::detail::encode_floating_point<std::uint64_t>(b);
    std::printf("a=%a b=%a enc(a)=%016lx enc(b)=%016lx spec a<b=%d b<a=%d\n", a, b, ea, eb, spec_lt_f64(a, b), spec_lt_f64(b, a));
    CONFIRM((ea < eb) == (spec_lt_f64(a, b) != 0), "order of encodings differs from the total order");
    CONFIRM((ea == eb) == (!spec_lt_f64(a, b) && !spec_lt_f64(b, a)), "equality of encodings differs from equivalence");
    double d = unodb::detail::decode_floating_point<double>(ea); std::uint64_t ba, bd; std::memcpy(&ba, &a, 8); std::memcpy(&bd, &d, 8);
    if (a == a) CONFIRM(ba == bd, "round trip not bit-exact"); else CONFIRM(bd == SPEC_QNAN64, "NaN does not decode to canonical quiet NaN");
  } else if (in.job == "enc.fp32") {
    float a = in.bits<float>("IN_a"), b = in.bits<float>("IN_b");
    auto ea = unodb::detail::encode_floating_point<std::uint32_t>(a), eb = unodb::detail::encode_floating_point<std::uint32_t>(b);
    std::printf("a=%a b=%a enc(a)=%08x enc(b)=%08x spec a<b=%d b<a=%d\n", a, b, ea, eb, spec_lt_f32(a, b), spec_lt_f32(b, a));
    CONFIRM((ea < eb) == (spec_lt_f32(a, b) != 0), "order of encodings differs from the total order");
    CONFIRM((ea == eb) == (!spec_lt_f32(a, b) && !spec_lt_f32(b, a)), "equality of encodings differs from equivalence");
    float d = unodb::detail::decode_floating_point<float>(ea); std::uint32_t ba, bd; std::memcpy(&ba, &a, 4); std::memcpy(&bd, &d, 4);
    if (a == a) CONFIRM(ba == bd, "round trip not bit-exact"); else CONFIRM(bd == SPEC_QNAN32, "NaN does not decode to canonical quiet NaN");
  } else { std::printf("no native replay for job %s\n", in.job.c_str()); return 2; }
  return confirmed ? 1 : 0;
}
