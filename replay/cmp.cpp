// Native replay for basic_art_key::cmp: two byte-string keys in two DIFFERENT buffers with the lengths / first-difference bytes of the
// counterexample (bytes before the first difference are equal by definition; their value is irrelevant).  Oracle: spec_lex_cmp.
#include "global.hpp"
#include "art_internal.hpp"
#include "replay_util.hpp"
#include <vector>
extern "C" {
#include "spec_enc.h"
}
static int sgn(int x) { return (x > 0) - (x < 0); }
int main(int argc, char** argv) {
  Inputs in(argc, argv); int confirmed = 0;
  if (in.job.find("scan.cmp.kv") == 0) {
    std::uint64_t na = in.u64("IN_NA"), nb = in.u64("IN_NB"), d = in.u64("IN_D");
    if (na > (1u << 20) || nb > (1u << 20)) { std::uint64_t mn = na < nb ? na : nb; bool atmin = d == mn; na = na > nb ? 4097 : (na == nb ? 4096 : 4095); nb = 4096; mn = na < nb ? na : nb; d = atmin ? mn : (d < mn ? d : mn - 1); }
    std::vector<std::uint8_t> a(na + 1, 0x41), b(nb + 1, 0x41);     // separate heap buffers
    std::uint64_t mn = na < nb ? na : nb;
    if (d < mn) { a[d] = in.has("IN_aD") ? (std::uint8_t)in.u64("IN_aD") : 1; b[d] = in.has("IN_bD") ? (std::uint8_t)in.u64("IN_bD") : 2; if (a[d] == b[d]) b[d] ^= 1; }
    unodb::key_view va{reinterpret_cast<const std::byte*>(a.data()), na}, vb{reinterpret_cast<const std::byte*>(b.data()), nb};
    unodb::detail::basic_art_key<unodb::key_view> ka{va}, kb{vb};
    int want = spec_lex_cmp(a.data(), na, b.data(), nb, d);
    int r1 = in.job.find("cmp_key") != std::string::npos ? ka.cmp(kb) : ka.cmp(vb);
    // the same two keys again with the buffers swapped in memory: a correct comparison cannot change its mind
    std::vector<std::uint8_t> a2(a), b2(b); unodb::detail::basic_art_key<unodb::key_view> ka2{unodb::key_view{reinterpret_cast<const std::byte*>(b2.data()), nb}}, kb2{unodb::key_view{reinterpret_cast<const std::byte*>(a2.data()), na}};
    int r2 = in.job.find("cmp_key") != std::string::npos ? kb2.cmp(ka2) : kb2.cmp(unodb::key_view{reinterpret_cast<const std::byte*>(b2.data()), nb});
    std::printf("na=%lu nb=%lu first difference at %lu: cmp=%d (spec %d), same keys in other buffers: cmp=%d\n", na, nb, d, r1, want, r2);
    CONFIRM(sgn(r1) == sgn(want), "cmp disagrees with the lexicographic order of the key bytes");
    CONFIRM(sgn(r2) == sgn(want), "cmp of the same keys in other buffers disagrees with the lexicographic order of the key bytes");
  } else if (in.job.find("scan.cmp.u64") == 0) {
    std::uint64_t x = in.u64("IN_x"), y = in.u64("IN_y"); unodb::detail::basic_art_key<std::uint64_t> kx{x}, ky{y};
    int r = in.job.find("cmp_key") != std::string::npos ? kx.cmp(ky) : kx.cmp(ky.get_key_view());
    std::printf("x=%lu y=%lu cmp=%d\n", x, y, r); CONFIRM(sgn(r) == ((x > y) - (x < y)), "cmp disagrees with the integer order");
  } else { std::printf("no native replay for %s\n", in.job.c_str()); return 2; }
  return confirmed ? 1 : 0;
}
