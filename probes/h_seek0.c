/* Probe: db<uint64_t>::iterator::seek, forward, "fall off the node" path: the bound's key byte is greater than every
   child of the current inner node N (child of P, grandchild of GP). Expected: the iterator lands where next() would
   from the stack [GP,P]: on P's next sibling. std::stack replaced by a small array stack; node_ptr as ADT. */
#include <stdlib.h>
#include <stdint.h>
uint64_t nondet_u64(void); unsigned nondet_uint(void); uint8_t nondet_u8(void); _Bool nondet_bool(void);
static uint8_t *adt_tbl[16]; static unsigned adt_n = 1;
static uint8_t *adt_ptr(uint64_t tagged) { unsigned h = (unsigned)(tagged >> 3); __CPROVER_assert(h >= 1 && h < adt_n, "ptr() of a registered node"); return adt_tbl[h]; }
static uint64_t adt_tag(uint8_t *p, uint8_t t) { adt_tbl[adt_n] = p; return ((uint64_t)(adt_n++) << 3) | t; }
static void verif_head(uint64_t *node, uint64_t *rk);
#define VERIF_LOOP_HEAD_db7f6599_while_2ebody verif_head((uint64_t*)&m_node, (uint64_t*)&m_remaining_key)
#define VERIF_LOOP_BACK_db7f6599_while_2ebody do { __CPROVER_assert(0, "no further descent expected"); __CPROVER_assume(0); } while (0)
#define VERIF_HAVE_SSE

#include "seek_adt.c"
#include "seek_adt_repl.h"
_Bool verif_exc_pending;
typedef struct S_struct_2eunodb_3a_3adetail_3a_3aiter_result entry_t;
static entry_t STK[6]; static unsigned SP;
_Bool _ZNKSt5stackIN5unodb6detail11iter_resultINS1_11node_headerEEESt5dequeIS4_SaIS4_EEE5emptyEv(struct S_class_2estd_3a_3astack *s) { return SP == 0; }
void _ZNSt5stackIN5unodb6detail11iter_resultINS1_11node_headerEEESt5dequeIS4_SaIS4_EEE3popEv(struct S_class_2estd_3a_3astack *s) { __CPROVER_assert(SP > 0, "pop of non-empty stack"); SP--; }
void _ZNSt5stackIN5unodb6detail11iter_resultINS1_11node_headerEEESt5dequeIS4_SaIS4_EEE4pushEOS4_(struct S_class_2estd_3a_3astack *s, entry_t *x) { __CPROVER_assert(SP < 6, "stack model capacity"); STK[SP++] = *x; }
entry_t *_ZNKSt5stackIN5unodb6detail11iter_resultINS1_11node_headerEEESt5dequeIS4_SaIS4_EEE3topEv(struct S_class_2estd_3a_3astack *s) { __CPROVER_assert(SP > 0, "top of non-empty stack"); return &STK[SP - 1]; }
uint32_t X_memcmp(uint8_t *a, uint8_t *b, uint64_t n) { return (uint32_t)memcmp(a, b, n); }
uint32_t X_posix_memalign(uint8_t **out, uint64_t al, uint64_t sz) { *out = malloc(sz); __CPROVER_assume(*out != 0); return 0; }
void X_free(uint8_t *p) { free(p); }
uint8_t *X___cxa_begin_catch(uint8_t *p) { return p; }
uint8_t *X___cxa_allocate_exception(uint64_t n) { uint8_t *p = malloc(64); __CPROVER_assume(p != 0); return p; }
void X___cxa_free_exception(uint8_t *p) { }
void X___cxa_throw(uint8_t *a, uint8_t *b, uint8_t *c) { verif_exc_pending = 1; }
void X__ZSt9terminatev(void) { __CPROVER_assume(0); }
#define SEEK _ZN5unodb2dbImSt4spanIKSt4byteLm18446744073709551615EEE8iterator4seekENS_6detail13basic_art_keyImEERbb
typedef struct S_class_2eunodb_3a_3adb_3cunsigned_20long_2c_20std_3a_3aspan_3cconst_20std_3a_3abyte_2c_2018446744073709551615_3e_3e_3a_3aiterator iter_t;
static uint8_t *GP, *P, *N, *LF; static uint64_t tGP, tP, tN, tLF; static uint8_t gi, pi; static entry_t eGP, eP;
static uint64_t G_K; static struct S_class_2eunodb_3a_3adetail_3a_3akey_buffer *G_kb;
static uint8_t *mk_n4(void) {
  uint8_t *o = malloc(48); __CPROVER_assume(o != 0);
  __CPROVER_assume(o[7] <= 1 && o[8] >= 2 && o[8] <= 4);          /* short prefixes keep the key buffer arithmetic small */
  for (int i = 0; i < 3; i++) if (i + 1 < o[8]) __CPROVER_assume(o[12 + i] < o[12 + i + 1]);
  for (int i = 0; i < 4; i++) if (i < o[8]) __CPROVER_assume(*(uint64_t*)(o + 16 + 8*i) != 0);
  return o;
}
static void verif_head(uint64_t *node, uint64_t *rk) {
  GP = mk_n4(); P = mk_n4(); N = mk_n4();
  LF = malloc(17); __CPROVER_assume(LF != 0); *(uint32_t*)LF = 8; *(uint32_t*)(LF + 4) = 1;
  tGP = adt_tag(GP, 1); tP = adt_tag(P, 1); tN = adt_tag(N, 1); tLF = adt_tag(LF, 0);
  gi = 0; *(uint64_t*)(GP + 16 + 8*gi) = tP;
  pi = 0; *(uint64_t*)(P + 16 + 8*pi) = tN; *(uint64_t*)(P + 16 + 8*(pi + 1)) = tLF;
  eGP.f0.f0 = tGP; eGP.f1 = GP[12 + gi]; eGP.f2 = gi; eGP.f3.f0 = *(uint64_t*)GP;
  eP.f0.f0 = tP;  eP.f1 = P[12 + pi];  eP.f2 = pi; eP.f3.f0 = *(uint64_t*)P;
  STK[0] = eGP; STK[1] = eP; SP = 2;
  G_kb->f1 = (uint8_t*)G_kb; G_kb->f2 = 256; G_kb->f3 = 100;   /* invariant: key buffer holds the bytes pushed so far */
  for (int i = 0; i < 4; i++) { uint8_t *l = malloc(17); __CPROVER_assume(l != 0); *(uint32_t*)l = 8; *(uint32_t*)(l + 4) = 1; *(uint64_t*)(N + 16 + 8*i) = adt_tag(l, 0); }
  for (int i = 1; i < 4; i++) { uint8_t *l = malloc(17); __CPROVER_assume(l != 0); *(uint32_t*)l = 8; *(uint32_t*)(l + 4) = 1; if (i != 1) *(uint64_t*)(P + 16 + 8*i) = adt_tag(l, 0); }
  /* current node N; the bound matches N's prefix and its next byte exceeds every child of N */
  *node = tN;
  uint8_t L = N[7]; uint64_t pfx = *(uint64_t*)N & 0x00FFFFFFFFFFFFFFULL; uint64_t m = L == 0 ? 0 : (~0ULL >> (64 - 8*L));
  *rk = nondet_u64(); __CPROVER_assume(((*rk ^ pfx) & m) == 0);
  uint8_t b = (uint8_t)(*rk >> (8*L));
  __CPROVER_assume(N[12 + N[8] - 1] < b);
}
void harness(void) {
  iter_t it; struct S_class_2eunodb_3a_3adb db;
  *(uint64_t*)&db = 8 | 1;                              /* some non-null root; overwritten at the loop head */
  *(struct S_class_2eunodb_3a_3adb**)&it = &db;
  /* key buffer: inline buffer, some bytes already pushed by the descent so far */
  struct S_class_2eunodb_3a_3adetail_3a_3akey_buffer *kb = (void*)((uint8_t*)&it + sizeof(it) - sizeof(struct S_class_2eunodb_3a_3adetail_3a_3akey_buffer));
  kb->f1 = (uint8_t*)kb; kb->f2 = 256; kb->f3 = 100; G_kb = kb;
  uint8_t match; G_K = nondet_u64();
  SEEK(&it, G_K, &match, 1);
  /* expected: [GP, P moved to its next sibling, that sibling's leaf] */
  __CPROVER_assert(SP == 3, "stack: GP, P@next sibling, leaf");
  if (SP == 3) {
    __CPROVER_assert(STK[0].f0.f0 == tGP && STK[0].f2 == gi, "grandparent entry untouched");
    __CPROVER_assert(STK[1].f0.f0 == tP && STK[1].f2 == pi + 1 && STK[1].f1 == P[12 + pi + 1], "parent entry advanced to the next sibling");
    __CPROVER_assert(STK[2].f0.f0 == tLF, "positioned on the first leaf after the bound");
  }
  __CPROVER_assert(!match, "no exact match reported");
}
