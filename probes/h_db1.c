#include <stdlib.h>
#include "all.c"
_Bool verif_exc_pending;
uint32_t X_posix_memalign(uint8_t **out, uint64_t al, uint64_t sz) { *out = malloc(sz); __CPROVER_assume(*out != 0); return 0; }
void X_free(uint8_t *p) { free(p); }
uint32_t X_memcmp(uint8_t *a, uint8_t *b, uint64_t n) { return (uint32_t)memcmp(a, b, n); }
#define DB_INSERT _ZN5unodb2dbImSt4spanIKSt4byteLm18446744073709551615EEE6insertEmS4_
#define DB_GET _ZNK5unodb2dbImSt4spanIKSt4byteLm18446744073709551615EEE3getEm
uint64_t nondet_u64(void);
void harness(void) {
  struct S_class_2eunodb_3a_3adb db = {0};
  uint8_t val1[2] = {7, 9};
  uint64_t k1 = nondet_u64();
  _Bool r1 = DB_INSERT(&db, k1, val1, 2);
  __CPROVER_assert(r1, "insert results");
  struct S_class_2estd_3a_3aoptional g;
  DB_GET(&g, &db, k1);
  uint8_t *raw = (uint8_t*)&g;
  __CPROVER_assert(raw[16] == 1, "k1 found");
}
