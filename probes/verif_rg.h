/* Rely/guarantee instrumentation for one optimistic lock (probe). Included BEFORE verif_rt.h macros take effect. */
#include <stdint.h>
#define ME 1
#define OTHER 2
extern uint64_t *rg_word;       /* address of the lock word under proof */
extern int rg_holder;           /* ghost: 0 none / ME / OTHER */
extern uint64_t rg_acq, rg_rel; /* ghost: lock acquisitions / releases so far */
extern uint64_t rg_data;        /* ghost model of one protected datum */
extern _Bool rg_obsoleted;
uint64_t nondet_u64(void); int nondet_int(void); _Bool nondet_bool(void);
static inline _Bool rg_inv(void) {
  uint64_t w = *rg_word;
  if (rg_obsoleted) return w == 1 && rg_holder == 0;
  return w == 2 * (rg_acq + rg_rel) && (rg_acq == rg_rel || rg_acq == rg_rel + 1) &&
         ((rg_holder != 0) == (rg_acq == rg_rel + 1)) && rg_acq < (1ULL << 60);
}
/* one arbitrary finite burst of steps by other threads, constrained by the rely */
static inline void rg_interfere(void) {
  if (rg_holder == ME) return;                 /* nobody touches a lock I hold, nor its data */
  uint64_t w0 = *rg_word, a0 = rg_acq, r0 = rg_rel, d0 = rg_data; _Bool o0 = rg_obsoleted;
  *rg_word = nondet_u64(); rg_acq = nondet_u64(); rg_rel = nondet_u64(); rg_data = nondet_u64();
  rg_obsoleted = nondet_bool(); rg_holder = nondet_bool() ? OTHER : 0;
  __CPROVER_assume(rg_inv());
  __CPROVER_assume(rg_acq >= a0 && rg_rel >= r0);       /* counters monotone */
  __CPROVER_assume(!o0 || rg_obsoleted);                /* obsolete is final */
  __CPROVER_assume(!o0 || rg_data == d0);
  __CPROVER_assume(!(rg_acq == a0 && !rg_obsoleted && !o0) || (rg_data == d0 && rg_rel == r0 && rg_holder == 0) || (a0 == r0 + 1));
  /* data changes only inside a write-locked period: if no acquisition happened and lock was free, data is unchanged */
  if (a0 == r0 + 1 && rg_acq == a0) { /* other held it at burst start: may have written data, may have released */ }
}
#define VERIF_ATOMIC_LOAD(p) (rg_interfere(), *(p))
#define VERIF_ATOMIC_STORE(p, v) do { rg_interfere(); rg_store((uint64_t*)(p), (uint64_t)(v)); } while (0)
#define VERIF_CMPXCHG(res, p, c, n) do { rg_interfere(); if (*(p) == (c)) { (res).f0 = *(p); (res).f1 = 1; rg_store((uint64_t*)(p), (uint64_t)(n)); } else { (res).f0 = *(p); (res).f1 = 0; } } while (0)
#define VERIF_ATOMICRMW_ADD(res, p, v) do { (res) = *(p); *(p) += (v); } while (0)
#define VERIF_ATOMICRMW_SUB(res, p, v) do { (res) = *(p); *(p) -= (v); } while (0)
#define VERIF_FENCE() ((void)0)
/* a store to the lock word by ME: classify the transition, update ghosts, check the guarantee */
static inline void rg_store(uint64_t *p, uint64_t v) {
  if (p != rg_word) { *p = v; return; }
  uint64_t w = *p;
  if (v == 1) { __CPROVER_assert(rg_holder == ME, "G: only the holder obsoletes"); rg_obsoleted = 1; rg_holder = 0; }
  else if (v == w + 2 && (w & 3) == 0) { __CPROVER_assert(rg_holder == 0 && !rg_obsoleted, "G: acquire only a free lock"); rg_acq++; rg_holder = ME; }
  else if (v == w + 2 && (w & 3) == 2) { __CPROVER_assert(rg_holder == ME, "G: only the holder releases"); rg_rel++; rg_holder = 0; }
  else __CPROVER_assert(0, "G: unclassified lock-word transition");
  *p = v;
  __CPROVER_assert(rg_inv(), "I preserved by own step");
}
