/* Probe: olc_impl_helpers::remove_or_choose_subtree<olc_inode_4>, sequential, collapse of a minimum-size node whose
   survivor is an inner node. Real lock code runs (no interference); writer-side ownership obligations W1/W2 are
   checked at every store to a protected field. Expected on the pinned tree: W1 fails for the survivor (prefix prepend). */
#include <stdlib.h>
#include <stdint.h>
uint64_t nondet_u64(void); unsigned nondet_uint(void); uint8_t nondet_u8(void); _Bool nondet_bool(void);
static uint8_t *adt_tbl[8]; static unsigned adt_n = 1;
static uint8_t *adt_ptr(uint64_t tagged) { unsigned h = (unsigned)(tagged >> 3); __CPROVER_assert(h >= 1 && h < adt_n, "ptr() of a registered node"); return adt_tbl[h]; }
static uint64_t adt_tag(uint8_t *p, uint8_t t) { for (unsigned i = 1; i < 8; i++) if (i < adt_n && adt_tbl[i] == p) return ((uint64_t)i << 3) | t; adt_tbl[adt_n] = p; return ((uint64_t)(adt_n++) << 3) | t; }
static uint8_t *Nn, *Sv, *Lf; static uint64_t *Pl, *Slot;
static _Bool held(uint8_t *node) { uint64_t w = *(uint64_t*)node; return (w & 2) != 0 || w == 1; }   /* write-locked or obsoleted (single thread: by me) */
static void w_check(void *p) {
  if (__CPROVER_same_object(p, Nn) && __CPROVER_POINTER_OFFSET(p) >= 8) __CPROVER_assert(held(Nn), "W1: store into the node only under its write guard");
  if (__CPROVER_same_object(p, Sv) && __CPROVER_POINTER_OFFSET(p) >= 8) __CPROVER_assert(held(Sv), "W1: store into the surviving child only under ITS write guard");
  if (__CPROVER_same_object(p, Slot)) __CPROVER_assert((*Pl & 2) != 0, "W2: parent slot changed only under the parent's write guard");
}
#define VERIF_RG
#define VERIF_ATOMIC_LOAD(p) (*(p))
#define VERIF_ATOMIC_STORE(p, v) do { w_check((void*)(p)); *(p) = (v); } while (0)
#define VERIF_CMPXCHG(res, p, c, n) do { if (*(p) == (c)) { (res).f0 = *(p); (res).f1 = 1; *(p) = (n); } else { (res).f0 = *(p); (res).f1 = 0; } } while (0)
#define VERIF_ATOMICRMW_ADD(res, p, v) do { (res) = *(p); *(p) += (v); } while (0)
#define VERIF_ATOMICRMW_SUB(res, p, v) do { (res) = *(p); *(p) -= (v); } while (0)
#define VERIF_FENCE() ((void)0)
#define VERIF_HAVE_SSE
static inline void VERIF_llvm_2ex86_2esse2_2epause(void) {}
#include "olcros_adt.c"
#include "olcros_adt_repl.h"
_Bool verif_exc_pending;
static unsigned retired_n; static uint8_t *retired[4];
struct S_class_2eunodb_3a_3aqsbr_per_thread *_ZN5unodb11this_threadEv(void) { return (struct S_class_2eunodb_3a_3aqsbr_per_thread*)0; }
void _ZN5unodb15qsbr_per_thread24on_next_epoch_deallocateEPvm(struct S_class_2eunodb_3a_3aqsbr_per_thread *t, uint8_t *p, uint64_t sz) { __CPROVER_assert(retired_n < 4, "ledger"); retired[retired_n++] = p; }
uint32_t X_memcmp(uint8_t *a, uint8_t *b, uint64_t n) { return (uint32_t)memcmp(a, b, n); }
uint32_t X_posix_memalign(uint8_t **out, uint64_t al, uint64_t sz) { *out = malloc(sz); __CPROVER_assume(*out != 0); return 0; }
void X_free(uint8_t *p) { __CPROVER_assert(0, "D1: no direct free on an OLC path"); }
uint8_t *X___cxa_begin_catch(uint8_t *p) { return p; }
uint8_t *X___cxa_allocate_exception(uint64_t n) { uint8_t *p = malloc(64); __CPROVER_assume(p != 0); return p; }
void X___cxa_throw(uint8_t *a, uint8_t *b, uint8_t *c) { verif_exc_pending = 1; }
void X__ZSt9terminatev(void) { __CPROVER_assert(0, "terminate"); __CPROVER_assume(0); }
#define ROS _ZN5unodb6detail16olc_impl_helpers24remove_or_choose_subtreeImSt4spanIKSt4byteLm18446744073709551615EENS0_11olc_inode_4ImS6_EEEESt8optionalIbERT1_S4_NS0_13basic_art_keyIT_EERNS_6olc_dbISE_T0_EERNS_15optimistic_lock21read_critical_sectionESM_PNS_19in_critical_sectionINS0_14basic_node_ptrINS0_15olc_node_headerEEEEEPSS_PSL_PNS_9node_typeEPSQ_
typedef struct S_class_2eunodb_3a_3aoptimistic_lock_3a_3aread_critical_section rcs_t;
void harness(void) {
  /* OLC layouts (NDEBUG): lock word @0; inode: prefix @8, count @16; N4 keys @20, children @24 (56 B); leaf: key_size @8, value_size @12, data @16 */
  Nn = malloc(56); Sv = malloc(56); Lf = malloc(16 + 8 + 1); Pl = malloc(8); Slot = malloc(8);
  __CPROVER_assume(Nn && Sv && Lf && Pl && Slot);
  uint64_t tN = adt_tag(Nn, 1), tS = adt_tag(Sv, 1), tL = adt_tag(Lf, 0);
  *Pl = 4 * (nondet_u64() >> 8); *(uint64_t*)Nn = 4 * (nondet_u64() >> 8); *(uint64_t*)Sv = 4 * (nondet_u64() >> 8); *(uint64_t*)Lf = 4 * (nondet_u64() >> 8);   /* all locks free */
  *Slot = tN;
  uint64_t K = nondet_u64(); _Bool i = nondet_bool();
  __CPROVER_assume(Nn[16] == 2 && Nn[20] < Nn[21] && Nn[15] <= 3);
  __CPROVER_assume(Sv[16] >= 2 && Sv[16] <= 4 && Sv[15] <= 2);
  *(uint64_t*)(Nn + 24 + 8*i) = tL; *(uint64_t*)(Nn + 24 + 8*(1 - i)) = tS;
  *(uint32_t*)(Lf + 8) = 8; *(uint32_t*)(Lf + 12) = 1; *(uint64_t*)(Lf + 16) = K;
  struct S_class_2eunodb_3a_3aolc_db *db = malloc(sizeof(*db)); __CPROVER_assume(db != 0);
  rcs_t pcs, ncs, ccs; pcs.f0 = (void*)Pl; pcs.f1.f0 = *Pl; ncs.f0 = (void*)Nn; ncs.f1.f0 = *(uint64_t*)Nn;
  struct S_class_2eunodb_3a_3ain_critical_section *cip; uint8_t ctype; struct S_class_2eunodb_3a_3adetail_3a_3abasic_node_ptr_2e37 child;
  uint16_t r = ROS((void*)Nn, Nn[20 + i], K, db, &pcs, &ncs, (void*)Slot, &cip, &ccs, &ctype, &child);
  __CPROVER_assert((r >> 8) == 1 && (r & 0xFF) == 1, "sequentially: the step completes and reports removal");
  __CPROVER_assert(*Slot == tS, "slot holds the survivor");
  __CPROVER_assert((*Pl & 3) == 0 && *(uint64_t*)Nn == 1 && *(uint64_t*)Lf == 1, "C14: parent unlocked; W3: unlinked node and leaf obsolete");
  __CPROVER_assert(retired_n == 2, "D2: exactly the two unlinked nodes retired");
}
