/* models needing the vector struct types; included after type definitions */
#ifdef VERIF_HAVE_SSE
static inline uint32_t VERIF_llvm_2ex86_2esse2_2epmovmskb_2e128(struct V16xi8 a) { uint32_t r = 0; for (int i = 0; i < 16; i++) r |= (uint32_t)((a.v[i] >> 7) & 1) << i; return r; }
static inline struct V16xi8 VERIF_llvm_2eumax_2ev16i8(struct V16xi8 a, struct V16xi8 b) { struct V16xi8 r; for (int i = 0; i < 16; i++) r.v[i] = a.v[i] > b.v[i] ? a.v[i] : b.v[i]; return r; }

#endif
#ifdef VERIF_HAVE_AVX2
static inline struct V16xi16 VERIF_llvm_2ex86_2eavx2_2epackssdw(struct V8xi32 a, struct V8xi32 b) {
  struct V16xi16 r;
  for (int lane = 0; lane < 2; lane++) for (int i = 0; i < 4; i++) {
    int32_t x = (int32_t)a.v[lane*4+i], y = (int32_t)b.v[lane*4+i];
    r.v[lane*8+i]   = (uint16_t)(int16_t)(x > 32767 ? 32767 : x < -32768 ? -32768 : x);
    r.v[lane*8+4+i] = (uint16_t)(int16_t)(y > 32767 ? 32767 : y < -32768 ? -32768 : y);
  }
  return r;
}
static inline uint32_t VERIF_llvm_2ex86_2eavx2_2epmovmskb(struct V32xi8 a) { uint32_t r = 0; for (int i = 0; i < 32; i++) r |= (uint32_t)((a.v[i] >> 7) & 1) << i; return r; }
static inline uint32_t VERIF_llvm_2ex86_2eavx_2eptestz_2e256(struct V4xi64 a, struct V4xi64 b) { uint64_t x = 0; for (int i = 0; i < 4; i++) x |= a.v[i] & b.v[i]; return x == 0; }
#endif
static inline uint64_t VERIF_llvm_2ebswap_2ei64(uint64_t x) { uint64_t r = 0; for (int i = 0; i < 8; i++) r |= ((x >> (8*i)) & 0xFF) << (56 - 8*i); return r; }
static inline uint64_t VERIF_llvm_2ectlz_2ei64(uint64_t x, _Bool zp) { if (zp) __CPROVER_assert(x != 0, "ctlz(0) poison"); uint64_t n = 0; for (int i = 63; i >= 0; i--) { if ((x >> i) & 1) break; n++; } return n; }
static inline void VERIF_llvm_2eassume(_Bool c) { __CPROVER_assert(c, "UNODB_DETAIL_ASSUME holds"); }
static inline void VERIF_llvm_2etrap(void) { __CPROVER_assert(0, "llvm.trap reached"); __CPROVER_assume(0); }
