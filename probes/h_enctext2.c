/* Probe: key_encoder::encode_text(span) — functional postcondition by ghost witnesses, strip loop cut by invariant,
   symbolic-length copies by an assumed pointwise memcpy contract. */
#include <stdlib.h>
#include <stdint.h>
#include <string.h>
uint64_t nondet_u64(void); unsigned nondet_uint(void); uint8_t nondet_u8(void); _Bool nondet_bool(void);
static uint64_t W;                       /* ghost witness index for every copy and for the output */
static void verif_memcpy(uint8_t *d, const uint8_t *s, uint64_t n) {
  if (n == 0) return;
  if (n <= 8) { __CPROVER_assert(__CPROVER_r_ok(s, n) && __CPROVER_w_ok(d, n), "small copy in bounds"); for (int i = 0; i < 8; i++) if ((uint64_t)i < n) d[i] = s[i]; return; }
  __CPROVER_assert(__CPROVER_r_ok(s, n), "memcpy source readable");
  __CPROVER_assert(__CPROVER_w_ok(d, n), "memcpy destination writable");
  /* witness-only copy: bytes other than W keep whatever unconstrained value they had */
  if (W < n) d[W] = s[W];                /* pointwise contract at the witness */
}
#define VERIF_OWN_MEMCPY
#define VERIF_llvm_2ememcpy_2ep0i8_2ep0i8_2ei64(d,s,n,v) verif_memcpy((uint8_t*)(d),(const uint8_t*)(s),(n))
static uint64_t G_m, G_sz_head; static const uint8_t *G_text; static uint64_t K;   /* K: ghost witness for the stripped tail */
#define INV(sz) ((sz) <= G_m && (!(K >= (sz) && K < G_m) || G_text[K] == 0))
#define VERIF_LOOP_HEAD_2577e730_for_2econd do { __CPROVER_assert(INV(m_sz), "strip loop invariant base"); m_sz = nondet_u64(); __CPROVER_assume(INV(m_sz)); G_sz_head = m_sz; } while (0)
#define VERIF_LOOP_BACK_2577e730_for_2econd do { __CPROVER_assert(INV(m_sz), "strip loop invariant step"); __CPROVER_assert(m_sz < G_sz_head, "strip loop variant decreases"); __CPROVER_assume(0); } while (0)
static inline uint16_t VERIF_llvm_2ebswap_2ei16(uint16_t x) { return (uint16_t)((x << 8) | (x >> 8)); }
#define VERIF_llvm_2ectlz_2ei64 ctlz64_loopfree
static inline uint64_t ctlz64_loopfree(uint64_t x, _Bool zp) { uint64_t n = 0; if (x == 0) return 64;
  if (!(x >> 32)) { n += 32; x <<= 32; } if (!(x >> 48)) { n += 16; x <<= 16; } if (!(x >> 56)) { n += 8; x <<= 8; }
  if (!(x >> 60)) { n += 4; x <<= 4; } if (!(x >> 62)) { n += 2; x <<= 2; } if (!(x >> 63)) { n += 1; } return n; }
#include "enc_text.c"
_Bool verif_exc_pending;
uint32_t X_posix_memalign(uint8_t **out, uint64_t al, uint64_t sz) { *out = malloc(sz); __CPROVER_assume(*out != 0); return 0; }
void X_free(uint8_t *p) { free(p); }
uint8_t *X___cxa_begin_catch(uint8_t *p) { return p; }
uint8_t *X___cxa_allocate_exception(uint64_t n) { uint8_t *p = malloc(64); __CPROVER_assume(p != 0); return p; }
void X___cxa_throw(uint8_t *a, uint8_t *b, uint8_t *c) { verif_exc_pending = 1; }
void X__ZSt9terminatev(void) { __CPROVER_assert(0, "terminate"); __CPROVER_assume(0); }
#define ENCODE_TEXT _ZN5unodb11key_encoder11encode_textESt4spanIKSt4byteLm18446744073709551615EE
typedef struct S_class_2eunodb_3a_3akey_encoder enc_t;
void harness(void) {
  enc_t e; e.f1 = (uint8_t*)&e; e.f2 = 256; e.f3 = nondet_u64(); __CPROVER_assume(e.f3 <= 256);   /* fresh-buffer representation */
  uint64_t off0 = e.f3;
  uint64_t tlen = nondet_u64(); __CPROVER_assume(tlen <= (1ULL << 40));
  G_m = tlen > 65532 ? 65532 : tlen;
  uint8_t *text = malloc(G_m); __CPROVER_assume(text != 0 || G_m == 0);     /* only min(len,maxlen) bytes are owned */
  G_text = text;
  W = nondet_u64(); K = nondet_u64();
  uint8_t oldw = (W < off0) ? e.f1[W] : 0;
  ENCODE_TEXT(&e, text, tlen);
  __CPROVER_assert(!verif_exc_pending, "allocator cannot fail in this probe");
  uint64_t n = e.f3 - off0 - 3;
  __CPROVER_assert(e.f3 >= off0 + 3 && n <= G_m, "length: n + 3 bytes appended, n <= min(len, maxlen)");
  __CPROVER_assert(n == 0 || text[n - 1] != 0, "normalised: last kept byte is not a pad byte");
  if (K >= n && K < G_m) __CPROVER_assert(text[K] == 0, "normalised: everything stripped is pad");
  __CPROVER_assert(e.f3 <= e.f2, "off <= cap");
  __CPROVER_assert((e.f1 == (uint8_t*)&e) == (e.f2 == 256), "representation invariant");
  uint8_t *out = e.f1;
  if (W < n) __CPROVER_assert(out[off0 + W] == text[W], "text byte W copied");
  __CPROVER_assert(out[off0 + n] == 0, "terminator pad byte");
  __CPROVER_assert(out[off0 + n + 1] == (uint8_t)((65532 - n) >> 8) && out[off0 + n + 2] == (uint8_t)(65532 - n), "big-endian run length");
  if (W < off0) __CPROVER_assert(out[W] == oldw, "earlier bytes preserved (also across buffer growth)");
}
