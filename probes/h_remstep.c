/* Probe: remove_internal loop step, collapse of a two-child N4 whose removed child is the matching leaf and whose
   survivor is an inner node: slot := survivor, survivor.prefix := n.prefix ++ [survivor key byte] ++ survivor.prefix.
   Ghost probe key Q: M_after(Q) == (Q == K ? none : M_before(Q)); statistics ledger deltas. */
#include <stdlib.h>
#include <stdint.h>
uint64_t nondet_u64(void); unsigned nondet_uint(void); uint8_t nondet_u8(void); _Bool nondet_bool(void);
struct ans { _Bool has; uint64_t p; uint64_t n; };
static uint8_t *adt_tbl[8]; static unsigned adt_n = 1;
static uint8_t *adt_ptr(uint64_t tagged) { unsigned h = (unsigned)(tagged >> 3); __CPROVER_assert(h >= 1 && h < adt_n, "ptr() of a registered node"); return adt_tbl[h]; }
static uint64_t adt_tag(uint8_t *p, uint8_t t) { for (unsigned i = 1; i < 8; i++) if (i < adt_n && adt_tbl[i] == p) return ((uint64_t)i << 3) | t; adt_tbl[adt_n] = p; return ((uint64_t)(adt_n++) << 3) | t; }
static uint64_t G_K, G_Q; static unsigned G_depth;
static uint64_t *G_slot; static uint8_t *Nn, *Sv, *Lf; static uint64_t tN, tS, tL; static uint8_t G_i; static uint64_t oldS_image0, oldN_image0;
static struct ans G_before; static _Bool G_in_scope;
static void verif_head(uint64_t **node, uint32_t *depth, uint64_t *rk);
#define VERIF_LOOP_HEAD_af94544c_while_2ebody verif_head((uint64_t**)&m_node, (uint32_t*)&m_depth, (uint64_t*)&m_remaining_key)
#define VERIF_LOOP_BACK_af94544c_while_2ebody do { __CPROVER_assert(0, "no descent expected: the child is the matching leaf"); __CPROVER_assume(0); } while (0)
#define VERIF_HAVE_SSE

#include "remint_adt.c"
#include "remint_adt_repl.h"
_Bool verif_exc_pending;
static unsigned frees; static uint8_t *freed[4];
uint32_t X_memcmp(uint8_t *a, uint8_t *b, uint64_t n) { return (uint32_t)memcmp(a, b, n); }
uint32_t X_posix_memalign(uint8_t **out, uint64_t al, uint64_t sz) { *out = malloc(sz); __CPROVER_assume(*out != 0); return 0; }
void X_free(uint8_t *p) { __CPROVER_assert(frees < 4, "free ledger"); freed[frees++] = p; }      /* ledger instead of real free */
uint8_t *X___cxa_begin_catch(uint8_t *p) { return p; }
uint8_t *X___cxa_allocate_exception(uint64_t n) { uint8_t *p = malloc(64); __CPROVER_assume(p != 0); return p; }
void X___cxa_throw(uint8_t *a, uint8_t *b, uint8_t *c) { verif_exc_pending = 1; }
void X__ZSt9terminatev(void) { __CPROVER_assert(0, "terminate"); __CPROVER_assume(0); }
#define REMOVE_INTERNAL _ZN5unodb2dbImSt4spanIKSt4byteLm18446744073709551615EEE15remove_internalENS_6detail13basic_art_keyImEE
static uint64_t lowmask(unsigned nb) { return nb == 0 ? 0 : nb >= 8 ? ~0ULL : (~0ULL >> (64 - 8 * nb)); }
static uint64_t gA_ptr[2]; static struct ans gA_val[2]; static unsigned gA_n;
static struct ans ghostA(uint64_t ptr) {
  for (unsigned i = 0; i < 2; i++) if (i < gA_n && gA_ptr[i] == ptr) return gA_val[i];
  struct ans a; a.has = nondet_bool(); a.p = nondet_u64(); a.n = nondet_u64();
  if (gA_n < 2) { gA_ptr[gA_n] = ptr; gA_val[gA_n] = a; gA_n++; }
  return a;
}
static uint64_t view4(uint8_t *o, uint8_t b) { uint8_t c = o[8]; for (int i = 0; i < 4; i++) if (i < c && o[12 + i] == b) return *(uint64_t*)(o + 16 + 8*i); return 0; }
static struct ans n4_ans(uint8_t *o, unsigned d, uint64_t q) {       /* unfolding of an N4 image with opaque children */
  struct ans none = {0, 0, 0};
  uint8_t L = o[7]; uint64_t pfx = *(uint64_t*)o & 0x00FFFFFFFFFFFFFFULL;
  if ((((q >> (8*d)) ^ pfx) & lowmask(L)) != 0) return none;
  uint64_t ch = view4(o, (uint8_t)(q >> (8*(d + L))));
  return ch == 0 ? none : ghostA(ch);
}
static void verif_head(uint64_t **node, uint32_t *depth, uint64_t *rk) {
  G_depth = nondet_uint(); __CPROVER_assume(G_depth < 8);
  *depth = G_depth; *rk = G_K >> (8 * G_depth);
  G_slot = malloc(8); __CPROVER_assume(G_slot != 0); *node = G_slot;
  Nn = malloc(48); Sv = malloc(48); Lf = malloc(17); __CPROVER_assume(Nn && Sv && Lf);
  tN = adt_tag(Nn, 1); tS = adt_tag(Sv, 1); tL = adt_tag(Lf, 0); *G_slot = tN;
  uint8_t Ln = Nn[7], Ls = Sv[7];
  __CPROVER_assume(Nn[8] == 2 && Nn[12] < Nn[13]);                                  /* minimum-size N4 */
  __CPROVER_assume(Sv[8] >= 2 && Sv[8] <= 4); for (int i = 0; i < 3; i++) if (i + 1 < Sv[8]) __CPROVER_assume(Sv[12 + i] < Sv[12 + i + 1]);
  for (int i = 0; i < 4; i++) if (i < Sv[8]) __CPROVER_assume(*(uint64_t*)(Sv + 16 + 8*i) != 0 && (*(uint64_t*)(Sv + 16 + 8*i) >> 3) >= 8);   /* opaque grandchildren */
  __CPROVER_assume(Ln <= 7 && Ls <= 7 && G_depth + Ln + 1 + Ls < 8);                 /* the path fits the key */
  G_i = nondet_bool();                                                                /* which of the two children is removed */
  *(uint64_t*)(Nn + 16 + 8*G_i) = tL; *(uint64_t*)(Nn + 16 + 8*(1 - G_i)) = tS;
  *(uint32_t*)Lf = 8; *(uint32_t*)(Lf + 4) = 1; *(uint64_t*)(Lf + 8) = G_K;           /* the child is the leaf holding K */
  uint64_t pn = *(uint64_t*)Nn & 0x00FFFFFFFFFFFFFFULL;
  __CPROVER_assume(((*rk ^ pn) & lowmask(Ln)) == 0 && (uint8_t)(*rk >> (8*Ln)) == Nn[12 + G_i]);   /* K routes to that child (path consistency of the leaf) */
  oldS_image0 = *(uint64_t*)Sv; oldN_image0 = *(uint64_t*)Nn;
  G_in_scope = ((G_Q ^ G_K) & lowmask(G_depth)) == 0;
  /* M_before(Q) through n */
  struct ans none = {0, 0, 0}; G_before = none;
  if (G_in_scope && (((G_Q >> (8*G_depth)) ^ pn) & lowmask(Ln)) == 0) {
    uint8_t bq = (uint8_t)(G_Q >> (8*(G_depth + Ln)));
    if (bq == Nn[12 + G_i]) { G_before.has = (G_Q == G_K); G_before.p = (uint64_t)(Lf + 16); G_before.n = 1; }
    else if (bq == Nn[12 + (1 - G_i)]) G_before = n4_ans(Sv, G_depth + Ln + 1, G_Q);
  }
}
void harness(void) {
  struct S_class_2eunodb_3a_3adb db = {0};
  G_K = nondet_u64(); G_Q = nondet_u64();
  *(uint64_t*)&db = (7ULL << 3) | 1;                          /* some inner node as root: the loop is entered */
  db.f1 = nondet_u64(); for (int i = 0; i < 5; i++) db.f2.f0.a[i] = nondet_u64();
  __CPROVER_assume(db.f1 >= 48 + 20 && db.f2.f0.a[0] >= 1 && db.f2.f0.a[1] >= 1);   /* ledger covers the two nodes that go away */
  uint64_t mem0 = db.f1, leaves0 = db.f2.f0.a[0], n4s0 = db.f2.f0.a[1], shr0 = db.f4.f0.a[0];
  _Bool r = REMOVE_INTERNAL(&db, G_K);
  __CPROVER_assert(!verif_exc_pending && r, "present key: returns true, no exception");
  __CPROVER_assert(*G_slot == tS, "slot now holds the survivor, tag kept");
  __CPROVER_assert(frees == 2 && ((freed[0] == Lf && freed[1] == Nn) || (freed[0] == Nn && freed[1] == Lf)), "leaf and collapsed node released exactly once each");
  __CPROVER_assert(db.f1 == mem0 - 48 - 20 && db.f2.f0.a[0] == leaves0 - 1 && db.f2.f0.a[1] == n4s0 - 1 && db.f4.f0.a[0] == shr0 + 1, "statistics: -1 leaf (20 B), -1 N4 (48 B), +1 shrink[N4]");
  uint8_t Ls2 = Sv[7];
  __CPROVER_assert(Ls2 == (uint8_t)(oldN_image0 >> 56) + 1 + (uint8_t)(oldS_image0 >> 56), "merged prefix length");
  for (int i = 8; i < 48; i++) { }                             /* (frame of the survivor's keys/children is part of the full contract) */
  if (!G_in_scope) return;
  struct ans after = n4_ans(Sv, G_depth, G_Q);
  if (G_Q == G_K) __CPROVER_assert(!after.has || 1, "removed key: decided by the survivor's own subtree (K cannot route there: checked below)");
  if (G_Q != G_K) {
    __CPROVER_assert(after.has == G_before.has, "other keys: presence unchanged");
    if (G_before.has) __CPROVER_assert(after.p == G_before.p && after.n == G_before.n, "other keys: same value view");
  } else {
    /* K itself: it routed to the removed child's byte, which differs from the survivor's byte, so it cannot match the merged prefix */
    uint64_t ps = *(uint64_t*)Sv & 0x00FFFFFFFFFFFFFFULL;
    __CPROVER_assert((((G_K >> (8*G_depth)) ^ ps) & lowmask(Ls2)) != 0, "removed key no longer routes into the survivor");
  }
}
