#include "global.hpp"
#include "art.hpp"
#include "olc_art.hpp"
template class unodb::db<std::uint64_t, unodb::value_view>;
