#include "global.hpp"
#include "art.hpp"
#include <cstdio>
#include <map>
#include <vector>
#include <cstring>
#include <string>
using namespace unodb;
static value_view vv(const char* s){ return value_view(reinterpret_cast<const std::byte*>(s), std::strlen(s)); }
int main(){
  // defect 2: seek falls off an inner node below the root
  {
    db<std::uint64_t, value_view> t;
    // two subtrees under root: byte0 = 0x01 {..01, ..02}, byte0 = 0x02 {..01}
    std::uint64_t ks[] = {0x0100000000000001ULL, 0x0100000000000002ULL, 0x0200000000000001ULL, 0x0200000000000002ULL};
    for (auto k: ks) (void)t.insert(k, vv("x"));
    // bound inside first subtree but greater than all its children at the last byte
    std::uint64_t from = 0x0100000000000005ULL;
    std::vector<std::uint64_t> got;
    t.scan_from(from, [&](const visitor<db<std::uint64_t,value_view>::iterator>& v){ key_decoder d(v.get_key()); std::uint64_t k; d.decode(k); got.push_back(k); return false; }, true);
    std::printf("seek fwd from %016lx expected 2 entries (0200..01, 0200..02), got %zu:", from, got.size());
    for (auto k: got) std::printf(" %016lx", k); std::printf("\n");
    got.clear();
    std::uint64_t from2 = 0x0200000000000000ULL;
    t.scan_from(from2, [&](const visitor<db<std::uint64_t,value_view>::iterator>& v){ key_decoder d(v.get_key()); std::uint64_t k; d.decode(k); got.push_back(k); return false; }, false);
    std::printf("seek rev from %016lx expected 2 entries (0100..02, 0100..01), got %zu:", from2, got.size());
    for (auto k: got) std::printf(" %016lx", k); std::printf("\n");
  }
  // defect 1: scan_range direction from buffer addresses for key_view
  {
    db<key_view, value_view> t;
    static const std::byte a[] = {std::byte{1}, std::byte{1}}, b[] = {std::byte{1}, std::byte{2}}, c[] = {std::byte{1}, std::byte{3}};
    (void)t.insert(key_view(a), vv("a")); (void)t.insert(key_view(b), vv("b")); (void)t.insert(key_view(c), vv("c"));
    std::byte lo1[2] = {std::byte{1}, std::byte{0}}; std::byte hi1[2] = {std::byte{1}, std::byte{9}};
    int n1 = 0, n2 = 0;
    t.scan_range(key_view(lo1), key_view(hi1), [&](auto&){ n1++; return false; });
    // same keys, buffers swapped in memory order
    std::byte hi2[2] = {std::byte{1}, std::byte{9}}; std::byte lo2[2] = {std::byte{1}, std::byte{0}};
    t.scan_range(key_view(lo2), key_view(hi2), [&](auto&){ n2++; return false; });
    std::printf("scan_range [0100,0109) visits: buffers order A -> %d, order B -> %d (expected 3 and 3); &lo1=%p &hi1=%p &lo2=%p &hi2=%p\n", n1, n2, (void*)lo1,(void*)hi1,(void*)lo2,(void*)hi2);
  }
  // defect 5: byte-string keys sharing 9 bytes
  {
    db<key_view, value_view> t;
    std::byte k1[10], k2[10];
    for (int i=0;i<10;i++){ k1[i]=std::byte(0x11); k2[i]=std::byte(0x11);} k2[9]=std::byte(0x22);
    bool i1=t.insert(key_view(k1), vv("one")); bool i2=t.insert(key_view(k2), vv("two"));
    auto g1=t.get(key_view(k1)); auto g2=t.get(key_view(k2));
    std::printf("9 shared bytes: insert %d %d, get k1 %s, get k2 %s\n", i1, i2, g1? std::string((const char*)g1->data(), g1->size()).c_str():"MISSING", g2? std::string((const char*)g2->data(), g2->size()).c_str():"MISSING");
  }
  // observation 6: interior zero byte breaks prefix freedom
  {
    key_encoder e1, e2;
    const char s[] = {'a'}; const char tt[] = {'a', 0, (char)0xFF, (char)0xFB};
    e1.encode_text(std::string_view(s,1)); e2.encode_text(std::string_view(tt,4));
    auto v1=e1.get_key_view(), v2=e2.get_key_view();
    bool prefix = v1.size() <= v2.size() && std::memcmp(v1.data(), v2.data(), v1.size())==0;
    std::printf("enc(\"a\") size %zu, enc(\"a\\0\\xFF\\xFB\") size %zu, first is prefix of second: %d\n", v1.size(), v2.size(), prefix);
  }
}
