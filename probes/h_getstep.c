/* Probe: one-level-unfolding proof of db<uint64_t>::get_internal (tree descent loop cut at its head). */
#include <stdlib.h>
#include <stdint.h>
uint64_t nondet_u64(void); unsigned nondet_uint(void); uint8_t nondet_u8(void); _Bool nondet_bool(void);
struct ans { _Bool has; uint8_t *p; uint64_t n; };
static uint64_t G_K;            /* search key, binary-comparable form (first key byte = low byte) */
static unsigned G_depth;
static struct ans G_ANSWER;     /* ghost: the answer the abstract map gives for G_K */
static _Bool G_descends; static uint64_t G_child; static unsigned G_next_depth;
static uint64_t G_root;
static void verif_head(uint64_t *node, uint64_t *rk);
static void verif_back(uint64_t node, uint64_t rk);
#define VERIF_LOOP_HEAD_b6a94eb6_while_2econd verif_head((uint64_t*)&m_node, (uint64_t*)&m_remaining_key)
#define VERIF_LOOP_BACK_b6a94eb6_while_2econd verif_back(*(uint64_t*)&m_node, *(uint64_t*)&m_remaining_key)
#define VERIF_HAVE_SSE
#include "getint.c"
_Bool verif_exc_pending;
uint32_t X_memcmp(uint8_t *a, uint8_t *b, uint64_t n) { return (uint32_t)memcmp(a, b, n); }
#define GET_INTERNAL _ZNK5unodb2dbImSt4spanIKSt4byteLm18446744073709551615EEE12get_internalENS_6detail13basic_art_keyImEE

/* node view: child (tagged, 0 = none) for key byte b, per class, from the raw image */
static uint64_t view(uint8_t *o, unsigned cls, uint8_t b) {
  uint8_t cnt = o[8];
  if (cls == 1) { for (int i = 0; i < 4; i++) if (i < cnt && o[12 + i] == b) return *(uint64_t*)(o + 16 + 8*i); return 0; }
  if (cls == 2) { for (int i = 0; i < 16; i++) if (i < cnt && o[16 + i] == b) return *(uint64_t*)(o + 32 + 8*i); return 0; }
  if (cls == 3) { uint8_t ix = o[9 + b]; return ix == 0xFF ? 0 : *(uint64_t*)(o + 288 + 8*(unsigned)ix); }
  return *(uint64_t*)(o + 16 + 8*(unsigned)b);
}
static void verif_head(uint64_t *node, uint64_t *rk) {
  __CPROVER_assert(*node == G_root && *rk == G_K, "loop invariant base");
  /* havoc to an arbitrary state satisfying the invariant */
  G_depth = nondet_uint(); __CPROVER_assume(G_depth < 8);
  *rk = G_K >> (8 * G_depth);
  unsigned cls = nondet_uint(); __CPROVER_assume(cls <= 4);
  G_descends = 0;
  if (cls == 0) {                                  /* leaf */
    uint64_t vlen = nondet_u64(); __CPROVER_assume(vlen <= 3);
    uint8_t *o = malloc(16 + 3); __CPROVER_assume(o != 0);
    *(uint32_t*)o = 8; *(uint32_t*)(o + 4) = (uint32_t)vlen;
    *node = (uint64_t)o | 0;
    _Bool eq = *(uint64_t*)(o + 8) == G_K;
    __CPROVER_assume(G_ANSWER.has == eq);
    if (eq) __CPROVER_assume(G_ANSWER.p == o + 16 && G_ANSWER.n == vlen);
    return;
  }
  static const unsigned sizes[5] = {0, 48, 160, 672, 2064};
  uint8_t *o = malloc(sizes[cls]); __CPROVER_assume(o != 0);
  uint8_t L = o[7]; __CPROVER_assume(L <= 7 && G_depth + L < 8);       /* prefix length, path fits the key */
  uint8_t cnt = o[8];
  if (cls == 1) { __CPROVER_assume(cnt >= 2 && cnt <= 4); for (int i = 0; i < 4; i++) if (i < cnt) __CPROVER_assume(*(uint64_t*)(o + 16 + 8*i) != 0); }
  if (cls == 2) { __CPROVER_assume(cnt >= 5 && cnt <= 16); for (int i = 0; i < 16; i++) if (i < cnt) __CPROVER_assume(*(uint64_t*)(o + 32 + 8*i) != 0); }
  *node = (uint64_t)o | cls;
  uint64_t pfx = *(uint64_t*)o & 0x00FFFFFFFFFFFFFFULL;
  uint64_t mask = L == 0 ? 0 : (~0ULL >> (64 - 8 * L));
  _Bool pmatch = ((*rk ^ pfx) & mask) == 0;
  uint8_t b = (uint8_t)(*rk >> (8 * L));
  if (cls == 3) { uint8_t ix = o[9 + b]; __CPROVER_assume(ix == 0xFF || (ix < 48 && *(uint64_t*)(o + 288 + 8*(unsigned)ix) != 0)); }
  uint64_t ch = view(o, cls, b);
  if (!pmatch || ch == 0) { __CPROVER_assume(!G_ANSWER.has); return; }
  /* M(node) == M(child): the child's answer is the induction hypothesis, i.e. G_ANSWER itself */
  G_descends = 1; G_child = ch; G_next_depth = G_depth + L + 1;
}
static void verif_back(uint64_t node, uint64_t rk) {
  __CPROVER_assert(G_descends, "loop invariant step: only descends when the unfolding says so");
  __CPROVER_assert(node == G_child, "loop invariant step: continues in the child that defines the answer");
  __CPROVER_assert(rk == (G_next_depth >= 8 ? 0 : G_K >> (8 * G_next_depth)), "loop invariant step: remaining key = key shifted by depth");
  __CPROVER_assume(0);
}
void harness(void) {
  struct S_class_2eunodb_3a_3adb db;
  G_K = nondet_u64(); G_root = nondet_u64(); *(uint64_t*)&db = G_root;
  G_ANSWER.has = nondet_bool(); G_ANSWER.n = nondet_u64(); G_ANSWER.p = (uint8_t*)nondet_u64();
  if (G_root == 0) __CPROVER_assume(!G_ANSWER.has);                 /* M(empty tree) = none */
  struct S_class_2estd_3a_3aoptional r;
  GET_INTERNAL(&r, &db, G_K);
  uint8_t *raw = (uint8_t*)&r;
  __CPROVER_assert((raw[16] != 0) == G_ANSWER.has, "get returns presence given by the abstract map");
  if (G_ANSWER.has) { __CPROVER_assert(*(uint8_t**)raw == G_ANSWER.p && *(uint64_t*)(raw + 8) == G_ANSWER.n, "get returns the stored value view"); }
#ifdef VERIF_CANARY
  __CPROVER_assert(0, "canary");
#endif
}
