#include <math.h>
static inline double VERIF_llvm_2efabs_2ef64(double x) { return fabs(x); }
static inline float VERIF_llvm_2efabs_2ef32(float x) { return fabsf(x); }
#include "fp.c"
_Bool verif_exc_pending;
#define ENC64 _ZN5unodb6detail21encode_floating_pointImdEET_T0_
#define DEC64 _ZN5unodb6detail21decode_floating_pointIdmEET_T0_
double nondet_double(void);
/* spec: rank in the total order  -inf < neg < -0 < +0 < pos < +inf < NaN (all NaN equal) */
static int spec_lt(double a, double b) {
  if (isnan(a)) return 0;
  if (isnan(b)) return 1;
  if (a < b) return 1;
  if (a > b) return 0;
  /* equal as reals: only -0 < +0 remains */
  return signbit(a) && !signbit(b);
}
void harness(void) {
  double a = nondet_double(), b = nondet_double();
  uint64_t ea = ENC64(a), eb = ENC64(b);
  __CPROVER_assert((ea < eb) == spec_lt(a, b), "order preserved");
  __CPROVER_assert((ea == eb) == (!spec_lt(a, b) && !spec_lt(b, a)), "equal iff equivalent");
  double d = DEC64(ea);
  if (!isnan(a)) { uint64_t ba, bd; memcpy(&ba, &a, 8); memcpy(&bd, &d, 8); __CPROVER_assert(ba == bd, "roundtrip bit-exact"); }
  else __CPROVER_assert(isnan(d), "NaN decodes to NaN");
}
