#include <stdlib.h>
#include <stdint.h>
#include <stddef.h>
#include "verif_rt.h"
/* contract is attached to a declaration that precedes the extracted definition */
struct S_class_2eunodb_3a_3adetail_3a_3abasic_inode_4;
struct S_class_2eunodb_3a_3ain_fake_critical_section_2e5;
struct L6;
#define FIND_CHILD _ZN5unodb6detail13basic_inode_4INS0_16basic_art_policyImSt4spanIKSt4byteLm18446744073709551615EENS_2dbENS_24in_fake_critical_sectionENS_9fake_lockENS_26fake_read_critical_sectionENS0_14basic_node_ptrINS0_11node_headerEEENS0_10inode_defsENS0_16db_inode_deleterENS0_21basic_db_leaf_deleterEEEE10find_childES4_
#define RAW(p) ((uint8_t*)(p))
#define CNT(p) (RAW(p)[8])
#define KEY(p,i) (RAW(p)[12+(i)])
#define VERIF_HAVE_SSE
#include "inode4_types.h"
struct L6 FIND_CHILD(struct S_class_2eunodb_3a_3adetail_3a_3abasic_inode_4 *v_this, uint8_t v_key_byte)
__CPROVER_requires(__CPROVER_is_fresh(v_this, 48))
__CPROVER_requires(CNT(v_this) <= 4)
__CPROVER_assigns()
__CPROVER_ensures(__CPROVER_return_value.f1 == 0 ==> (__CPROVER_return_value.f0 == 0xFF &&
    (CNT(v_this) > 0 ==> KEY(v_this,0) != v_key_byte) && (CNT(v_this) > 1 ==> KEY(v_this,1) != v_key_byte) &&
    (CNT(v_this) > 2 ==> KEY(v_this,2) != v_key_byte) && (CNT(v_this) > 3 ==> KEY(v_this,3) != v_key_byte)))
__CPROVER_ensures(__CPROVER_return_value.f1 != 0 ==> (__CPROVER_return_value.f0 < CNT(v_this) &&
    KEY(v_this, __CPROVER_return_value.f0) == v_key_byte &&
    (uint8_t*)__CPROVER_return_value.f1 == RAW(v_this) + 16 + 8 * __CPROVER_return_value.f0 &&
    (__CPROVER_return_value.f0 > 0 ==> KEY(v_this,0) != v_key_byte) && (__CPROVER_return_value.f0 > 1 ==> KEY(v_this,1) != v_key_byte) &&
    (__CPROVER_return_value.f0 > 2 ==> KEY(v_this,2) != v_key_byte)))
;
#include "inode4_body.h"
_Bool verif_exc_pending;
uint8_t nondet_u8(void);
int caller(struct S_class_2eunodb_3a_3adetail_3a_3abasic_inode_4 *p, uint8_t kb)
__CPROVER_requires(__CPROVER_is_fresh(p, 48) && CNT(p) <= 4)
__CPROVER_assigns()
__CPROVER_ensures(__CPROVER_return_value == 1 ==> (CNT(p) > 0))
{
  struct L6 r = FIND_CHILD(p, kb);
  return r.f1 != 0;
}
void harness(void) {
  struct S_class_2eunodb_3a_3adetail_3a_3abasic_inode_4 *p; uint8_t kb;
  caller(p, kb);
}
