#include "inode4.c"
_Bool verif_exc_pending;
#define FIND_CHILD _ZN5unodb6detail13basic_inode_4INS0_16basic_art_policyImSt4spanIKSt4byteLm18446744073709551615EENS_2dbENS_24in_fake_critical_sectionENS_9fake_lockENS_26fake_read_critical_sectionENS0_14basic_node_ptrINS0_11node_headerEEENS0_10inode_defsENS0_16db_inode_deleterENS0_21basic_db_leaf_deleterEEEE10find_childES4_
typedef struct S_class_2eunodb_3a_3adetail_3a_3abasic_inode_4 inode4;
uint8_t nondet_u8(void);
void harness(void) {
  inode4 n;            /* fully nondet object */
  uint8_t kb = nondet_u8();
  uint8_t *raw = (uint8_t*)&n;
  uint8_t count = raw[8];
  __CPROVER_assume(count <= 4);
  struct L6 r = FIND_CHILD(&n, kb);
  /* spec: first i<count with keys[i]==kb */
  int found = -1;
  for (int i = 3; i >= 0; i--) if (i < count && raw[12 + i] == kb) found = i;
  if (found < 0) { __CPROVER_assert(r.f1 == 0, "not found -> null"); __CPROVER_assert(r.f0 == 0xFF, "not found idx 0xFF"); }
  else { __CPROVER_assert(r.f0 == found, "index"); __CPROVER_assert((uint8_t*)r.f1 == raw + 16 + 8*found, "child slot"); }
}
