#include "global.hpp"
#include "art.hpp"
#include "olc_art.hpp"
#include "mutex_art.hpp"
#include "qsbr.hpp"
template class unodb::db<unodb::key_view, unodb::value_view>;
template class unodb::olc_db<std::uint64_t, unodb::value_view>;
template class unodb::olc_db<unodb::key_view, unodb::value_view>;
template class unodb::mutex_db<std::uint64_t, unodb::value_view>;
// encoder/decoder are non-template classes with inline members: force emission by use
void use_encoder(unodb::key_encoder& e, unodb::key_decoder& d, std::span<const std::byte> t) {
  e.reset(); e.encode(std::int8_t{1}).encode(std::int16_t{1}).encode(std::int32_t{1}).encode(std::int64_t{1});
  e.encode(std::uint8_t{1}).encode(std::uint16_t{1}).encode(std::uint32_t{1}).encode(std::uint64_t{1});
  e.encode(1.0f).encode(1.0).encode_text(t); (void)e.get_key_view(); (void)e.size_bytes(); (void)e.capacity();
  std::int8_t a; std::int16_t b; std::int32_t c; std::int64_t dd; std::uint8_t ua; std::uint16_t ub; std::uint32_t uc; std::uint64_t ud; float f; double g;
  d.decode(a).decode(b).decode(c).decode(dd).decode(ua).decode(ub).decode(uc).decode(ud).decode(f).decode(g);
}
