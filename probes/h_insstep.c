/* Probe: insert_internal loop step, leaf-split / prefix-split / duplicate paths, with a ghost probe key Q:
   M_after(Q) == (Q == K ? some(v) : M_before(Q)). Children of the old inode are opaque. */
#include <stdlib.h>
#include <stdint.h>
uint64_t nondet_u64(void); unsigned nondet_uint(void); uint8_t nondet_u8(void); _Bool nondet_bool(void);
struct ans { _Bool has; uint64_t p; uint64_t n; };   /* p: address of value bytes, or ghost id of an opaque subtree's answer */
static uint64_t G_K, G_Q; static unsigned G_depth; static uint8_t *G_v; static uint64_t G_vlen;
static uint64_t *G_slot; static uint64_t G_old;   /* the slot under the loop head and its old content */
static uint8_t *G_obj; static unsigned G_cls; static uint64_t G_old_image0;
static struct ans G_before; static _Bool G_in_scope;  /* Q shares the path [0,depth) */
static _Bool G_expect_descend;
static void verif_head(uint64_t **node, uint32_t *depth, uint64_t *rk);
static void verif_back(void);
#define VERIF_LOOP_HEAD_b7881994_while_2ebody verif_head((uint64_t**)&m_node, (uint32_t*)&m_depth, (uint64_t*)&m_remaining_key)
#define VERIF_LOOP_BACK_b7881994_while_2ebody verif_back()
#define VERIF_HAVE_SSE
#define VERIF_HAVE_AVX2
#include "insint.c"
_Bool verif_exc_pending;
uint32_t X_memcmp(uint8_t *a, uint8_t *b, uint64_t n) { return (uint32_t)memcmp(a, b, n); }
uint32_t X_posix_memalign(uint8_t **out, uint64_t al, uint64_t sz) { *out = malloc(sz); __CPROVER_assume(*out != 0); return 0; }
void X_free(uint8_t *p) { free(p); }
uint8_t *X___cxa_allocate_exception(uint64_t n) { uint8_t *p = malloc(64); __CPROVER_assume(p != 0); return p; }
void X___cxa_free_exception(uint8_t *p) { }
void X___cxa_throw(uint8_t *a, uint8_t *b, uint8_t *c) { verif_exc_pending = 1; }
uint8_t *X___cxa_begin_catch(uint8_t *p) { return p; }
void X__ZSt9terminatev(void) { __CPROVER_assert(0, "std::terminate reached"); __CPROVER_assume(0); }
void X__ZNSt12length_errorC1EPKc(struct S_class_2estd_3a_3alength_error *a, uint8_t *b) { }

#define INSERT_INTERNAL _ZN5unodb2dbImSt4spanIKSt4byteLm18446744073709551615EEE15insert_internalENS_6detail13basic_art_keyImEES4_
static uint64_t lowmask(unsigned nbytes) { return nbytes == 0 ? 0 : nbytes >= 8 ? ~0ULL : (~0ULL >> (64 - 8 * nbytes)); }
/* ghost answer of an opaque subtree, functional in the pointer value (two-entry memo) */
static uint64_t gA_ptr[2]; static struct ans gA_val[2]; static unsigned gA_n;
static struct ans ghostA(uint64_t ptr) {
  for (unsigned i = 0; i < 2; i++) if (i < gA_n && gA_ptr[i] == ptr) return gA_val[i];
  struct ans a; a.has = nondet_bool(); a.p = nondet_u64(); a.n = nondet_u64();
  if (gA_n < 2) { gA_ptr[gA_n] = ptr; gA_val[gA_n] = a; gA_n++; }
  return a;
}
static struct ans leaf_ans(uint8_t *leaf, uint64_t q) {
  struct ans a; a.has = *(uint64_t*)(leaf + 8) == q; a.p = (uint64_t)(leaf + 16); a.n = *(uint32_t*)(leaf + 4); return a;
}
static uint64_t view4(uint8_t *o, uint8_t b) { uint8_t c = o[8]; for (int i = 0; i < 4; i++) if (i < c && o[12 + i] == b) return *(uint64_t*)(o + 16 + 8*i); return 0; }
/* unfolding of an N4 image entered at depth d for key q; children opaque */
static struct ans n4_ans(uint8_t *o, unsigned d, uint64_t q) {
  struct ans none = {0, 0, 0};
  uint8_t L = o[7]; uint64_t pfx = *(uint64_t*)o & 0x00FFFFFFFFFFFFFFULL;
  if ((((q >> (8*d)) ^ pfx) & lowmask(L)) != 0) return none;
  uint64_t ch = view4(o, (uint8_t)(q >> (8*(d + L))));
  return ch == 0 ? none : ghostA(ch);
}
static void verif_head(uint64_t **node, uint32_t *depth, uint64_t *rk) {
  /* base case of the invariant is checked in the full proof; this probe checks the inductive step and exits */
  G_depth = nondet_uint(); __CPROVER_assume(G_depth < 8);
  *depth = G_depth; *rk = G_K >> (8 * G_depth);
  G_slot = malloc(8); __CPROVER_assume(G_slot != 0); *node = G_slot;
  G_in_scope = ((G_Q ^ G_K) & lowmask(G_depth)) == 0;
  G_cls = nondet_uint(); __CPROVER_assume(G_cls <= 1);
  G_expect_descend = 0;
  if (G_cls == 0) {
    uint64_t ovl = nondet_u64(); __CPROVER_assume(ovl <= 2);
    G_obj = malloc(16 + 2); __CPROVER_assume(G_obj != 0);
    *(uint32_t*)G_obj = 8; *(uint32_t*)(G_obj + 4) = (uint32_t)ovl;
    uint64_t lk = *(uint64_t*)(G_obj + 8);
    __CPROVER_assume(((lk ^ G_K) & lowmask(G_depth)) == 0);            /* path consistency of the subtree */
    G_old = (uint64_t)G_obj | 0; *G_slot = G_old;
    G_before = leaf_ans(G_obj, G_Q);
  } else {
    G_obj = malloc(48); __CPROVER_assume(G_obj != 0);
    uint8_t L = G_obj[7], cnt = G_obj[8];
    __CPROVER_assume(L <= 7 && G_depth + L < 8 && cnt >= 2 && cnt <= 4);
    for (int i = 0; i < 4; i++) if (i < cnt) __CPROVER_assume(*(uint64_t*)(G_obj + 16 + 8*i) != 0);
    for (int i = 0; i < 3; i++) if (i + 1 < cnt) __CPROVER_assume(G_obj[12 + i] < G_obj[12 + i + 1]);
    uint64_t pfx = *(uint64_t*)G_obj & 0x00FFFFFFFFFFFFFFULL;
    /* this probe covers the prefix-mismatch branch only; the add/choose branch is the add_or_choose_subtree probe */
    __CPROVER_assume(((*rk ^ pfx) & lowmask(L)) != 0);
    G_old = (uint64_t)G_obj | 1; *G_slot = G_old;
    G_before = G_in_scope ? n4_ans(G_obj, G_depth, G_Q) : (struct ans){0, 0, 0};
    if (!G_in_scope) { }
  }
  if (G_cls == 0 && !G_in_scope) { /* a leaf's answer does not depend on the path */ }
}
static void verif_back(void) { __CPROVER_assert(0, "no descent expected on leaf/prefix-mismatch paths"); __CPROVER_assume(0); }
void harness(void) {
  struct S_class_2eunodb_3a_3adb db = {0};
  G_K = nondet_u64(); G_Q = nondet_u64();
  static uint8_t val[2]; G_v = val; G_vlen = nondet_u64(); __CPROVER_assume(G_vlen <= 2);
  *(uint64_t*)&db = nondet_u64(); __CPROVER_assume(*(uint64_t*)&db != 0);     /* non-empty tree: loop is entered */
  _Bool r = INSERT_INTERNAL(&db, G_K, G_v, G_vlen);
  __CPROVER_assert(!verif_exc_pending, "no exception (allocator cannot fail in this probe)");
  struct ans before = G_before, after, expect;
  if (G_cls == 0 && *(uint64_t*)(G_obj + 8) == G_K) {                        /* duplicate */
    __CPROVER_assert(!r, "duplicate: returns false");
    __CPROVER_assert(*G_slot == G_old, "duplicate: slot untouched");
    return;
  }
  __CPROVER_assert(r, "absent: returns true");
  uint64_t nv = *G_slot;
  __CPROVER_assert((nv & 7) == 1, "slot now holds an N4");
  uint8_t *N = (uint8_t*)(nv & ~7ULL);
  __CPROVER_assert(N[8] == 2, "new N4 has two children");
  __CPROVER_assert(N[12] < N[13], "new N4 keys sorted");
  if (!G_in_scope) return;                                                   /* Q lives elsewhere: frame */
  /* unfold the new structure for Q at depth G_depth */
  uint8_t LN = N[7]; uint64_t pN = *(uint64_t*)N & 0x00FFFFFFFFFFFFFFULL;
  __CPROVER_assert(LN <= 7 && G_depth + LN < 8, "new prefix length fits");
  if ((((G_Q >> (8*G_depth)) ^ pN) & lowmask(LN)) != 0) after = (struct ans){0,0,0};
  else {
    uint64_t ch = view4(N, (uint8_t)(G_Q >> (8*(G_depth + LN))));
    if (ch == 0) after = (struct ans){0,0,0};
    else if (ch == G_old) after = G_cls == 0 ? leaf_ans(G_obj, G_Q) : n4_ans(G_obj, G_depth + LN + 1, G_Q);
    else { __CPROVER_assert((ch & 7) == 0, "other child is the new leaf"); after = leaf_ans((uint8_t*)ch, G_Q); }
  }
  if (G_Q == G_K) {
    __CPROVER_assert(after.has && after.n == G_vlen, "inserted key present with its value length");
    for (unsigned i = 0; i < 2; i++) if (i < G_vlen) __CPROVER_assert(((uint8_t*)after.p)[i] == G_v[i], "inserted value bytes");
  } else {
    __CPROVER_assert(after.has == before.has, "other keys: presence unchanged");
    if (before.has) __CPROVER_assert(after.p == before.p && after.n == before.n, "other keys: same value view");
  }
}
