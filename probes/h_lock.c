#define VERIF_RG
#include "verif_rg.h"
static inline void VERIF_llvm_2ex86_2esse2_2epause(void) {}
#include "lock.c"
_Bool verif_exc_pending;
uint64_t *rg_word; int rg_holder; uint64_t rg_acq, rg_rel, rg_data; _Bool rg_obsoleted;
typedef struct S_class_2eunodb_3a_3aoptimistic_lock lock_t;
typedef struct S_class_2eunodb_3a_3aoptimistic_lock_3a_3aread_critical_section rcs_t;
typedef struct S_class_2eunodb_3a_3aoptimistic_lock_3a_3awrite_guard wg_t;
#define TRY_READ_LOCK _ZN5unodb15optimistic_lock13try_read_lockEv
#define CHECK _ZNK5unodb15optimistic_lock21read_critical_section5checkEv
#define WG_CTOR _ZN5unodb15optimistic_lock11write_guardC2EONS0_21read_critical_sectionE
#define WG_DTOR _ZN5unodb15optimistic_lock11write_guardD2Ev
#define WG_OBSOLETE _ZN5unodb15optimistic_lock11write_guard19unlock_and_obsoleteEv
static void init(lock_t *l) {
  rg_word = (uint64_t*)l;
  rg_holder = nondet_bool() ? OTHER : 0; rg_acq = nondet_u64(); rg_rel = nondet_u64(); rg_obsoleted = nondet_bool(); rg_data = nondet_u64();
  *rg_word = nondet_u64();
  *(int64_t*)((uint8_t*)l + 8) = 1000; /* debug read_lock_count: arbitrary positive so asserts about it are not the subject here */
  __CPROVER_assume(rg_inv());
}
void harness_read(void) {            /* T2: a validated read section is a snapshot, no writer overlapped */
  lock_t l; init(&l);
  rcs_t r; TRY_READ_LOCK(&r, &l);
  if (r.f0 == 0) { __CPROVER_assert(rg_obsoleted, "invalid RCS only on obsolete lock"); return; }
  uint64_t acq0 = rg_acq, d0 = rg_data; /* ghost snapshot at the linearisation point of the open (last load) */
  rg_interfere(); uint64_t x = rg_data;   /* protected read #1 */
  rg_interfere(); uint64_t y = rg_data;   /* protected read #2 */
  _Bool ok = CHECK(&r);
  if (ok) { __CPROVER_assert(x == y, "validated reads are one snapshot"); __CPROVER_assert(rg_acq == acq0, "no writer acquired during validated section"); }
}
void harness_write(void) {           /* T1/T3: upgrade succeeds only if no writer intervened; exclusive; released on scope exit */
  lock_t l; init(&l);
  rcs_t r; TRY_READ_LOCK(&r, &l);
  if (r.f0 == 0) return;
  uint64_t acq0 = rg_acq;
  rg_interfere();
  wg_t g; WG_CTOR(&g, &r);
  if (g.f0 != 0) {
    __CPROVER_assert(rg_holder == ME, "active guard = holder is me");
    __CPROVER_assert(rg_acq == acq0 + 1, "no other writer acquired between open and upgrade");
    rg_interfere(); rg_data = nondet_u64(); rg_interfere();   /* protected writes */
    if (nondet_bool()) { WG_OBSOLETE(&g); __CPROVER_assert(rg_obsoleted && *rg_word == 1, "obsoleted"); }
  }
  WG_DTOR(&g);
  __CPROVER_assert(rg_holder != ME, "no lock left held");
  rg_interfere();
  __CPROVER_assert(rg_inv(), "I stable");
}
