#include <stdlib.h>
#include <stdint.h>
#include "kp.c"
_Bool verif_exc_pending;
uint64_t nondet_u64(void); uint8_t nondet_u8(void); unsigned nondet_uint(void);
#define CUT _ZN5unodb6detail10key_prefixINS0_13basic_art_keyImEENS0_16basic_inode_implINS0_16basic_art_policyImSt4spanIKSt4byteLm18446744073709551615EENS_2dbENS_24in_fake_critical_sectionENS_9fake_lockENS_26fake_read_critical_sectionENS0_14basic_node_ptrINS0_11node_headerEEENS0_10inode_defsENS0_16db_inode_deleterENS0_21basic_db_leaf_deleterEEEE23critical_section_policyEE3cutEh
#define PREPEND _ZN5unodb6detail10key_prefixINS0_13basic_art_keyImEENS0_16basic_inode_implINS0_16basic_art_policyImSt4spanIKSt4byteLm18446744073709551615EENS_2dbENS_24in_fake_critical_sectionENS_9fake_lockENS_26fake_read_critical_sectionENS0_14basic_node_ptrINS0_11node_headerEEENS0_10inode_defsENS0_16db_inode_deleterENS0_21basic_db_leaf_deleterEEEE23critical_section_policyEE7prependERKSN_S7_
#define GSL _ZNK5unodb6detail10key_prefixINS0_13basic_art_keyImEENS0_16basic_inode_implINS0_16basic_art_policyImSt4spanIKSt4byteLm18446744073709551615EENS_2dbENS_24in_fake_critical_sectionENS_9fake_lockENS_26fake_read_critical_sectionENS0_14basic_node_ptrINS0_11node_headerEEENS0_10inode_defsENS0_16db_inode_deleterENS0_21basic_db_leaf_deleterEEEE23critical_section_policyEE17get_shared_lengthEm
typedef struct S_union_2eunodb_3a_3adetail_3a_3akey_prefix kp_t;
/* spec view: length = byte 7, byte i = (w >> 8i) & 0xFF for i < length */
static uint8_t LEN(uint64_t w) { return (uint8_t)(w >> 56); }
static uint8_t BYTE(uint64_t w, unsigned i) { return (uint8_t)(w >> (8*i)); }
void harness(void) {
  kp_t a; uint64_t w = nondet_u64(); __CPROVER_assume(LEN(w) <= 7); *(uint64_t*)&a = w;
  unsigned j = nondet_uint();                       /* ghost witness index */
  unsigned which = nondet_uint();
  if (which == 0) {                                 /* cut(n): bytes [n,len) move down, length len-n */
    uint8_t n = nondet_u8(); __CPROVER_assume(n > 0 && n <= LEN(w));
    CUT(&a, n); uint64_t r = *(uint64_t*)&a;
    __CPROVER_assert(LEN(r) == LEN(w) - n, "cut: length");
    if (j < LEN(r)) __CPROVER_assert(BYTE(r, j) == BYTE(w, j + n), "cut: byte j");
  } else if (which == 1) {                          /* prepend(p1, b): p1 ++ [b] ++ old */
    kp_t p1; uint64_t w1 = nondet_u64(); __CPROVER_assume(LEN(w1) <= 7 && LEN(w) + LEN(w1) < 7); *(uint64_t*)&p1 = w1;
    uint8_t b = nondet_u8();
    PREPEND(&a, &p1, b); uint64_t r = *(uint64_t*)&a;
    __CPROVER_assert(LEN(r) == LEN(w) + LEN(w1) + 1, "prepend: length");
    if (j < LEN(w1)) __CPROVER_assert(BYTE(r, j) == BYTE(w1, j), "prepend: head");
    else if (j == LEN(w1)) __CPROVER_assert(BYTE(r, j) == b, "prepend: middle byte");
    else if (j < LEN(r)) __CPROVER_assert(BYTE(r, j) == BYTE(w, j - LEN(w1) - 1), "prepend: tail");
    __CPROVER_assert(*(uint64_t*)&p1 == w1, "prepend: source untouched");
  } else {                                          /* get_shared_length(k): min(len, #leading equal bytes) */
    uint64_t k = nondet_u64();
    uint32_t s = GSL(&a, k);
    __CPROVER_assert(s <= LEN(w), "shared: clamp");
    if (j < s) __CPROVER_assert(BYTE(k, j) == BYTE(w, j), "shared: equal below s");
    if (s < LEN(w)) __CPROVER_assert(BYTE(k, s) != BYTE(w, s), "shared: differs at s");
  }
}
