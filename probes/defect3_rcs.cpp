#include "global.hpp"
#include "olc_art.hpp"
#include <cstdio>
using namespace unodb;
static value_view vv(const char* s){ return value_view(reinterpret_cast<const std::byte*>(s), 1); }
int main(){
  olc_db<std::uint64_t, value_view> t;
  // root inode (byte0) -> child inodes -> leaves: 3-level so that seek descends root -> inner -> leaf
  std::uint64_t ks[] = {0x0100000000000001ULL, 0x0100000000000002ULL, 0x0200000000000001ULL, 0x0200000000000002ULL};
  for (auto k: ks) (void)t.insert(k, vv("x"));
  int n = 0;
  t.scan_from(0x0100000000000001ULL, [&](auto&){ n++; return true; }, true);   // exact-match seek: plain descent path
  std::printf("scan visited %d\n", n);
  this_thread().quiescent();
  for (auto k: ks) (void)t.remove(k);       // frees the inner nodes (deferred; single thread -> immediate)
  this_thread().quiescent(); this_thread().quiescent();
  std::printf("done without assertion\n");
}
