#include <stdlib.h>
#include "aocs4.c"
_Bool verif_exc_pending;
uint32_t X_posix_memalign(uint8_t **out, uint64_t al, uint64_t sz) { *out = malloc(sz); __CPROVER_assume(*out != 0); return 0; }
void X_free(uint8_t *p) { free(p); }
#define AOCS _ZN5unodb6detail12impl_helpers21add_or_choose_subtreeImSt4spanIKSt4byteLm18446744073709551615EENS0_7inode_4ImS6_EEEEPNS0_14basic_node_ptrINS0_11node_headerEEERT1_S4_NS0_13basic_art_keyIT_EES6_RNS_2dbISG_T0_EENS0_10tree_depthISH_EESC_
typedef struct S_class_2eunodb_3a_3adetail_3a_3ainode_4 inode4;
uint8_t nondet_u8(void); uint64_t nondet_u64(void); uint32_t nondet_u32(void);
void harness(void) {
  inode4 *n = malloc(sizeof(inode4)); __CPROVER_assume(n != 0);
  uint8_t *raw = (uint8_t*)n;
  uint8_t count = raw[8];
  __CPROVER_assume(count >= 2 && count <= 4);
  for (int i = 0; i + 1 < 4; i++) if (i + 1 < count) __CPROVER_assume(raw[12 + i] < raw[12 + i + 1]);
  uint8_t old_keys[4]; uint64_t old_ch[4];
  for (int i = 0; i < 4; i++) { old_keys[i] = raw[12 + i]; old_ch[i] = *(uint64_t*)(raw + 16 + 8*i); }
  uint64_t oldprefix = *(uint64_t*)raw;
  struct S_class_2eunodb_3a_3adb db = {0};
  uint64_t k = nondet_u64(); uint32_t depth = nondet_u32(); __CPROVER_assume(depth < 8);
  uint8_t kb = ((uint8_t*)&k)[depth];
  uint8_t val[3]; uint64_t vlen = nondet_u64(); __CPROVER_assume(vlen <= 3);
  struct S_class_2eunodb_3a_3adetail_3a_3abasic_node_ptr slot; slot.f0 = (uint64_t)n | 1;
  struct S_class_2eunodb_3a_3adetail_3a_3abasic_node_ptr *r = AOCS(n, kb, k, val, vlen, &db, depth, &slot);
  __CPROVER_assert(!verif_exc_pending, "no exception");
  int found = -1;
  for (int i = 0; i < 4; i++) if (i < count && old_keys[i] == kb) found = i;
  if (found >= 0) {
    __CPROVER_assert((uint8_t*)r == raw + 16 + 8*found, "returns existing child slot");
    __CPROVER_assert(raw[8] == count, "count unchanged");
  } else if (count < 4) {
    __CPROVER_assert(r == 0, "returns null after add");
    __CPROVER_assert(raw[8] == count + 1, "count incremented");
    /* every old (key,child) pair still present, new key present with LEAF tag, sorted */
    for (int i = 0; i < 4; i++) if (i < count) {
      int ok = 0;
      for (int j = 0; j < 4; j++) if (j < count + 1 && raw[12 + j] == old_keys[i] && *(uint64_t*)(raw + 16 + 8*j) == old_ch[i]) ok = 1;
      __CPROVER_assert(ok, "old entry preserved");
    }
    int newpos = -1;
    for (int j = 0; j < 4; j++) if (j < count + 1 && raw[12 + j] == kb) newpos = j;
    __CPROVER_assert(newpos >= 0, "new key present");
    uint64_t np = *(uint64_t*)(raw + 16 + 8*newpos);
    __CPROVER_assert((np & 7) == 0, "new child tagged LEAF");
    for (int i = 0; i + 1 < 4; i++) if (i + 1 < count + 1) __CPROVER_assert(raw[12 + i] < raw[12 + i + 1], "still sorted");
    __CPROVER_assert(*(uint64_t*)raw == oldprefix, "prefix untouched");
    __CPROVER_assert(slot.f0 == ((uint64_t)n | 1), "parent slot untouched");
  } else {
    __CPROVER_assert(r == 0, "returns null after grow");
    __CPROVER_assert((slot.f0 & 7) == 2, "parent slot now I16");
    uint8_t *n16 = (uint8_t*)(slot.f0 & ~7ULL);
    __CPROVER_assert(n16[8] == 5, "I16 has 5 children");
    __CPROVER_assert(*(uint64_t*)n16 == oldprefix, "prefix copied");
    for (int i = 0; i < 4; i++) {
      int ok = 0;
      for (int j = 0; j < 5; j++) if (n16[16 + j] == old_keys[i] && *(uint64_t*)(n16 + 32 + 8*j) == old_ch[i]) ok = 1;
      __CPROVER_assert(ok, "old entry moved to I16");
    }
    for (int j = 0; j + 1 < 5; j++) __CPROVER_assert(n16[16 + j] < n16[16 + j + 1], "I16 sorted");
  }
}
