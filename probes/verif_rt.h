#ifndef VERIF_RT_H
#define VERIF_RT_H
#include <stdint.h>
#include <string.h>
extern _Bool verif_exc_pending;
#define VERIF_UNREACHABLE() do { __CPROVER_assert(0, "llvm unreachable reached"); __CPROVER_assume(0); } while (0)
#define VERIF_NSW(c) __CPROVER_assert(c, "signed overflow (nsw)")
#define VERIF_SHIFT_OK(c) __CPROVER_assert(c, "shift amount in range")
#ifndef VERIF_RG
#define VERIF_ATOMIC_LOAD(p) (*(p))
#endif
#ifndef VERIF_RG
#define VERIF_ATOMIC_STORE(p, v) (*(p) = (v))
#endif
#ifndef VERIF_RG
#define VERIF_FENCE() ((void)0)
#endif
#define VERIF_LANDINGPAD(T) ((T){0})
#define VERIF_RESUME(v) (verif_exc_pending = 1)
struct L0; struct L1; struct L2;
static inline uint32_t VERIF_llvm_2ecttz_2ei32(uint32_t x, _Bool zp) { if (zp) __CPROVER_assert(x != 0, "cttz(0) poison"); uint32_t n = 0; if (x == 0) return 32; for (int i = 0; i < 32; i++) { if ((x >> i) & 1) break; n++; } return n; }
static inline uint64_t VERIF_llvm_2ecttz_2ei64(uint64_t x, _Bool zp) { if (zp) __CPROVER_assert(x != 0, "cttz(0) poison"); uint64_t n = 0; if (x == 0) return 64; for (int i = 0; i < 64; i++) { if ((x >> i) & 1) break; n++; } return n; }
static inline uint32_t VERIF_llvm_2ectpop_2ei32(uint32_t x) { uint32_t n = 0; for (int i = 0; i < 32; i++) n += (x >> i) & 1; return n; }

#define VERIF_llvm_2ememcpy_2ep0i8_2ep0i8_2ei64(d,s,n,v) memcpy(d,s,n)
#define VERIF_llvm_2ememmove_2ep0i8_2ep0i8_2ei64(d,s,n,v) memmove(d,s,n)
#define VERIF_llvm_2ememset_2ep0i8_2ei64(d,c,n,v) memset(d,c,n)
#endif
