# C07: optimistic lock under rely/guarantee
LR = {'TRY_READ_LOCK': r'optimistic_lock::try_read_lock\(\)', 'RCS_CHECK': r'read_critical_section::check\(\) const', 'RCS_UNLOCK': r'verif_driver::rcs_try_read_unlock',
      'RCS_DTOR': r'read_critical_section::~read_critical_section\(\)', 'WG_CTOR': r'write_guard::write_guard\(', 'WG_DTOR': r'write_guard::~write_guard\(\)',
      'WG_OBSOLETE': r'write_guard::unlock_and_obsolete\(\)', 'WG_UNLOCK': r'write_guard::unlock\(\)', 'REHYDRATE': r'optimistic_lock::rehydrate_read_lock\('}
UC = ['optimistic_lock::try_read_lock', 'optimistic_lock::rehydrate_read_lock', 'optimistic_lock::check', 'optimistic_lock::try_read_unlock', 'optimistic_lock::try_upgrade_to_write_lock',
      'optimistic_lock::write_unlock', 'optimistic_lock::write_unlock_and_obsolete', 'atomic_version_type::{load_acquire,load_relaxed,cas_acquire,write_unlock,write_unlock_and_obsolete}',
      'version_type::{is_free,is_write_locked,is_obsolete,set_locked_bit}', 'read_critical_section::{check,try_read_unlock,~read_critical_section}', 'write_guard::{write_guard,~write_guard,unlock,unlock_and_obsolete,try_lock_upgrade}']
for h in ('h_read', 'h_write', 'h_obsolete', 'h_rehydrate'):
    job('lock.' + h, ['C07', 'C16'] if h in ('h_read', 'h_write') else ['C07'], 'u_lock', 'proofs/lock/lock.c', entry=h, roots=LR, cfgs=(BASE, DEBUG),
        thorough_cfgs=[c for c in ALL_CFGS if 'avx2-stats' in c], under_contract=UC, floor=20, timeout=300, cut=['TRY_READ_LOCK/while_2econd'],
        trusted=['rely/guarantee rule (soundness of R/G reasoning itself)', 'sequentially consistent atomics (C++ memory orders not modelled)', 'no 2^60 lock acquisitions (version wrap)'])
