/* C07: the REAL optimistic_lock methods (extracted) under rely/guarantee (rt/verif_rg.h, DESIGN.md 4.5).
 * Every atomic access of the real code is preceded by an arbitrary rely-respecting burst of other threads' steps.
 * Client theorems (postconditions taken from the property statement):
 *  T1  an active write guard means this thread is the unique holder, and the upgrade succeeded only if no writer acquired the lock
 *      since the read section was opened;  the lock is released on guard destruction / unlock / unlock_and_obsolete
 *  T2  if check() or try_read_unlock() reports success, no write-locked period overlapped the section: two protected reads taken
 *      anywhere inside it equal the value at opening (a snapshot), and the acquisition counter is unchanged
 *  T3  obsolete is final: try_read_lock on an obsolete lock opens nothing; a section opened earlier fails its next check and
 *      cannot be upgraded; a valid section always records a free (neither locked nor obsolete) version
 *  T4  no lock held by this thread after any guard lifetime ends; debug read-section accounting balanced
 * The spin loop of try_read_lock is cut at its head with invariant I (partial correctness; termination under fairness not claimed). */
#include "verif_rg.h"
#include "verif_rt.h"
static uint64_t G_spin_loads;
#define VERIF_LOOP_HEAD_TRY_READ_LOCK_while_2econd do { __CPROVER_assert(rg_inv() && rg_holder != ME, "spin loop invariant (base): I, and I hold nothing while waiting"); VERIF_LOOP_HAVOC_TRY_READ_LOCK_while_2econd; rg_interfere(); __CPROVER_assume(rg_inv()); } while (0)
#define VERIF_LOOP_BACK_TRY_READ_LOCK_while_2econd do { __CPROVER_assert(rg_inv() && rg_holder != ME, "spin loop invariant (step)"); __CPROVER_assert(rg_ll_holder == OTHER && !rg_ll_obs, "the loop spins only while another thread holds the write lock"); __CPROVER_assume(0); } while (0)
#include "x_types.h"
#include "x_body.h"
#include "verif_models.h"
#include "layout.h"
#define VERIF_CANARY(name) __CPROVER_assert(0, "canary: " name)
uint64_t X_pthread_self(void) { return 7; }
typedef TRY_READ_LOCK_a1 lock_p;           /* optimistic_lock* */
typedef TRY_READ_LOCK_a0 rcs_p;            /* read_critical_section* (sret) */
#define RCS_LOCK(r) (*(void **)(r))
#define RCS_VER(r) (*(uint64_t *)((uint8_t *)(r) + 8))
#define WG_LOCK(g) (*(void **)(g))
uint64_t IN_word, IN_acq, IN_rel; _Bool IN_obs, IN_other_holds;
static lock_p mk_lock(void) {
  lock_p l = malloc(LAY_LOCK_SIZE); __CPROVER_assume(l != 0);
  rg_word = (uint64_t *)l;
#ifdef VERIF_CFG_DEBUG
  rg_rlc = (int64_t *)((uint8_t *)l + LAY_LOCK_RLC);
  *rg_rlc = nondet_i64();
#else
  rg_rlc = 0;
#endif
  rg_mc = 0;
  IN_other_holds = nondet_bool(); IN_acq = nondet_u64(); IN_rel = nondet_u64(); IN_obs = nondet_bool(); IN_word = nondet_u64();
  rg_holder = IN_other_holds ? OTHER : 0; rg_acq = IN_acq; rg_rel = IN_rel; rg_obs = IN_obs; rg_data = nondet_u64(); *rg_word = IN_word;
  __CPROVER_assume(rg_inv() && rg_acq < (1ULL << 60) - 4);      /* stated assumption: no version wrap-around */
  return l;
}
static void end_checks(void) {
  __CPROVER_assert(rg_holder != ME, "T4: no lock held by this thread at the end");
  __CPROVER_assert(rg_mc == 0, "T4/C16: debug read-section accounting balanced at the end");
  rg_interfere(); __CPROVER_assert(rg_inv(), "I stable under the rely");
}
/* ---------------------------------------------------------------- T2 (+T3 valid-section-is-free) */
void h_read(void) {
  lock_p l = mk_lock();
  struct { void *a; uint64_t b; } store; rcs_p r = (rcs_p)&store;
  TRY_READ_LOCK(r, l);
  if (RCS_LOCK(r) == 0) { __CPROVER_assert(rg_ll_obs, "T3: try_read_lock gives up only on an obsolete lock"); __CPROVER_assert(rg_mc == 0, "no section counted"); VERIF_CANARY("obsolete case reachable"); return; }
  __CPROVER_assert(RCS_LOCK(r) == (void *)l && RCS_VER(r) == rg_ll_word, "the section records the word it last loaded");
  __CPROVER_assert((RCS_VER(r) & 3) == 0 && !rg_ll_obs && rg_ll_holder == 0, "T3: a valid section records a free version: the lock was neither write-locked nor obsolete when it was opened");
  uint64_t acq0 = rg_ll_acq, d0 = rg_ll_data;          /* ghost snapshot at the linearisation point of the open (its last load) */
  rg_interfere(); uint64_t x = rg_data;                  /* protected read #1, anywhere in the section */
  rg_interfere(); uint64_t y = rg_data;                  /* protected read #2 */
  _Bool use_unlock = nondet_bool();
  _Bool ok = use_unlock ? RCS_UNLOCK(r) : RCS_CHECK(r);
  if (ok) {
    __CPROVER_assert(x == d0 && y == d0, "T2: reads inside a validated section are a snapshot of the value at opening");
    __CPROVER_assert(rg_ll_acq == acq0, "T2: no writer acquired the lock between opening and successful validation");
    __CPROVER_assert(!rg_ll_obs, "T3: validation cannot succeed on an obsolete lock");
    VERIF_CANARY("validated section reachable");
    if (!use_unlock) { _Bool ok2 = RCS_UNLOCK(r); (void)ok2; }
  } else VERIF_CANARY("failed validation reachable");
#ifdef VERIF_CFG_DEBUG
  __CPROVER_assert(RCS_LOCK(r) == 0 || (ok && !use_unlock), "debug: a finished section forgets its lock");
#endif
  RCS_DTOR(r);
  end_checks();
}
/* ---------------------------------------------------------------- T1, T4 */
void h_write(void) {
  lock_p l = mk_lock();
  struct { void *a; uint64_t b; } store; rcs_p r = (rcs_p)&store;
  TRY_READ_LOCK(r, l);
  if (RCS_LOCK(r) == 0) return;
  uint64_t acq0 = rg_ll_acq, rel0 = rg_ll_rel;
  rg_interfere();
  struct { void *a; } gstore; WG_CTOR_a0 g = (WG_CTOR_a0)&gstore;
  WG_CTOR(g, r);
  if (WG_LOCK(g) != 0) {
    __CPROVER_assert(WG_LOCK(g) == (void *)l, "the guard guards the lock of the section");
    __CPROVER_assert(rg_holder == ME, "T1: an active write guard means this thread is the (unique) holder");
    __CPROVER_assert(rg_acq == acq0 + 1 && rg_rel == rel0, "T1: the upgrade succeeded only because no writer acquired the lock since the section was opened");
    rg_interfere(); rg_data = nondet_u64(); rg_interfere(); rg_data = nondet_u64();   /* multi-word protected writes, others may run in between */
    __CPROVER_assert(rg_holder == ME && !rg_obs, "T1: still the unique holder while writing");
    unsigned how = nondet_uint();
    if (how == 1) { WG_OBSOLETE(g); __CPROVER_assert(rg_obs && *rg_word == 1 && rg_holder == 0, "unlock_and_obsolete: lock obsolete and released"); VERIF_CANARY("obsolete path reachable"); }
    else if (how == 2) { WG_UNLOCK(g); __CPROVER_assert(rg_holder == 0 && rg_rel == rel0 + 1, "unlock: released once"); }
    VERIF_CANARY("successful upgrade reachable");
  } else {
    __CPROVER_assert(rg_holder != ME && rg_acq >= acq0, "failed upgrade acquires nothing");
    VERIF_CANARY("failed upgrade reachable");
  }
  WG_DTOR(g);
  RCS_DTOR(r);
  end_checks();
}
/* ---------------------------------------------------------------- T3: obsolete final for sections opened earlier */
void h_obsolete(void) {
  lock_p l = mk_lock();
  struct { void *a; uint64_t b; } store; rcs_p r = (rcs_p)&store;
  TRY_READ_LOCK(r, l);
  if (RCS_LOCK(r) == 0) return;
  rg_interfere();
  __CPROVER_assume(rg_obs);                               /* the lock was made obsolete while the section is open */
  VERIF_CANARY("obsoleted-while-open reachable");
  if (nondet_bool()) {
    _Bool ok = nondet_bool() ? RCS_CHECK(r) : RCS_UNLOCK(r);
    __CPROVER_assert(!ok, "T3: every section still open fails its next check / unlock once the lock is obsolete");
  } else {
    struct { void *a; } gstore; WG_CTOR_a0 g = (WG_CTOR_a0)&gstore;
    WG_CTOR(g, r);
    __CPROVER_assert(WG_LOCK(g) == 0 && rg_obs && *rg_word == 1, "T3: no upgrade succeeds on an obsolete lock, and it stays obsolete");
    WG_DTOR(g);
  }
  RCS_DTOR(r);
  end_checks();
}
/* ---------------------------------------------------------------- rehydrated sections obey the same T2 */
void h_rehydrate(void) {
  lock_p l = mk_lock();
  /* a version tag saved earlier from a valid section (iterator stack): the ghost snapshot taken when that section was opened */
  uint64_t tag = nondet_u64(), acq_then = nondet_u64(), d_then = nondet_u64();
  __CPROVER_assume((tag & 3) == 0 && acq_then <= rg_acq && tag == 4 * acq_then);   /* free word with acq_then acquisitions == releases */
  __CPROVER_assume(rg_acq != acq_then || rg_obs || rg_data == d_then || rg_holder == OTHER);  /* history: data changed only if a writer came by */
  struct { void *a; uint64_t b; } store; rcs_p r = (rcs_p)&store;
  REHYDRATE(r, l, tag);
  __CPROVER_assert(RCS_LOCK(r) == (void *)l && RCS_VER(r) == tag, "rehydrated section carries the saved version");
  _Bool ok = RCS_CHECK(r);
  if (ok) { __CPROVER_assert(rg_ll_acq == acq_then && !rg_ll_obs && rg_ll_holder == 0, "T2 (rehydrated): success means no writer since the version was saved"); VERIF_CANARY("rehydrated check can succeed"); _Bool k = RCS_UNLOCK(r); (void)k; }
  RCS_DTOR(r);
  end_checks();
}
