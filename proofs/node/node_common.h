/* shared by the node-level harnesses: materialise an arbitrary well-formed node image of class CLS (all images, not samples) */
#include "spec_node.h"
#define VERIF_CANARY(name) __CPROVER_assert(0, "canary: " name)
static uint8_t G_owner[48]; static _Bool G_used[48]; static uint8_t G_present;   /* some key byte that is present (exists by well-formedness: count >= min size) */          /* ghost bijection of an N48 (spec_node.h) */
/* NODE_T is the generated struct type of the class under proof: a typed object keeps field accesses scalar in CBMC */
#define MK_NODE(T, cls) ({ T *t_ = malloc(sizeof(T)); __CPROVER_assume(t_ != 0); __CPROVER_assert(sizeof(T) == n_size(cls), "generated node struct has the real size"); mk_node_in((uint8_t *)t_, cls); })
/* an arbitrary well-formed node of class cls in a fresh object of exactly the node's size (so any access past it is a bounds failure) */
/* Well-formedness of the big classes is assumed POINTWISE: nv_wf_at(v, b) is the instance at key byte b of the universally quantified
 * clauses of the full invariant (spec_node.h).  A harness assumes the instances it needs (at its inputs, at the ghost witnesses and at the
 * key bytes a result mentions) on the pre-state view; assuming fewer instances than the full invariant is sound.  The existence of
 * some present key byte (G_present) follows from count >= min_size >= 1 and count == number of present key bytes. */
static struct nview V0;                    /* pre-state view */
static uint8_t *mk_node_in(uint8_t *o, int cls) {
  nv_load(&V0, o, cls);
  __CPROVER_assume(nv_wf_global(&V0));
  if (cls >= 3) { G_present = nondet_u8(); __CPROVER_assume(nv_child(&V0, G_present) != 0 && nv_wf_at(&V0, G_present)); }
  return o;
}
#define TAG(o, cls) ((uint64_t)(uintptr_t)(o) | (unsigned)(cls))
