/* C01, byte-string keys: the node built when a leaf is split - basic_inode_4<db, key_view>::basic_inode_4(db&, key_view k1, art_key shifted_k2,
 * depth, leaf* child1, leaf unique_ptr&& child2), REAL code (key_prefix construction from the two keys, init, add_two_to_empty).
 *   requires  k1 (the existing leaf's key) and k2 (the new key) agree on their first `depth` bytes and are prefix-free: there is a first
 *             difference position D >= depth inside both keys
 *   ensures   a well-formed N4 with exactly two children under DISTINCT key bytes: child1 under k1's byte and child2's leaf under k2's byte at
 *             position depth + prefix length, prefix = the bytes both keys share from `depth` on
 * The key prefix of a node holds at most 7 bytes.  For D - depth <= 7 the contract is an ordinary obligation.  For D - depth > 7 (keys sharing
 * more than 7 bytes past the split depth) the pinned tree builds a node whose two key bytes are EQUAL (duplicate key byte; the library's own
 * assertion in assertion-enabled builds): a genuine C01 defect for byte-string keys that needs a chain of nodes to repair - recorded as
 * known finding kv-long-shared-prefix (known_findings.json), native scenario replay/known_c01_kv_long_prefix_scenario.cpp. */
#include "verif_rt.h"
#include "x_types.h"
#include "x_body.h"
#include "verif_models.h"
#include "spec_node.h"
#include "spec_prefix.h"
#define VERIF_CANARY(name) __CPROVER_assert(0, "canary: " name)
#ifdef HAVE_TAG_PTR
TAG_PTR_ret TAG_PTR(TAG_PTR_a0 p, TAG_PTR_a1 t) { return ((uint64_t)(uintptr_t)p) | t; }
#endif
#ifdef HAVE_LEAF_DEL
void LEAF_DEL(LEAF_DEL_a0 self, LEAF_DEL_a1 leaf) { __CPROVER_assert(0, "the new leaf is moved into the node, never released here"); }
#endif
#define KMAX 24
unsigned IN_n1, IN_n2, IN_depth, IN_D; uint8_t IN_B1[KMAX], IN_B2[KMAX];
typedef __typeof__(*(KV_CTOR_a0)0) NODE_T;
void harness(void) {
  IN_n1 = nondet_uint(); IN_n2 = nondet_uint(); IN_depth = nondet_uint(); IN_D = nondet_uint();
  __CPROVER_assume(IN_n1 <= KMAX && IN_n2 <= KMAX && IN_depth <= IN_D && IN_D < IN_n1 && IN_D < IN_n2);
  for (unsigned i = 0; i < KMAX; i++) { IN_B1[i] = nondet_u8(); IN_B2[i] = nondet_u8(); if (i < IN_D) __CPROVER_assume(IN_B1[i] == IN_B2[i]); }
  __CPROVER_assume(IN_B1[IN_D] != IN_B2[IN_D]);                              /* D: the first position where the keys differ */
#ifdef VERIF_CFG_DEBUG
  __CPROVER_assume(IN_D - IN_depth <= 7);     /* assertion-enabled extraction: the known finding shows as the library's own assertion key1 != key2, which would cut the path; its domain is decided in the NDEBUG configuration */
#endif
  KV_CTOR_a1 db = malloc(sizeof(*db)); __CPROVER_assume(db != 0);
  NODE_T *node = malloc(sizeof(NODE_T)); __CPROVER_assume(node != 0);
  uint8_t *leaf1 = malloc(32), *leaf2 = malloc(32); __CPROVER_assume(leaf1 != 0 && leaf2 != 0);
  /* the new leaf holds k2 (the node reads no leaf here, but keep the object honest) */
  uint8_t up[LAY_LEAFUP_SIZE]; *(void **)(up + LAY_LEAFUP_DB) = (void *)db; *(uint8_t **)(up + LAY_LEAFUP_PTR) = leaf2;
  KV_CTOR((KV_CTOR_a0)node, db, IN_B1, IN_n1, IN_B2 + IN_depth, IN_n2 - IN_depth, IN_depth, (KV_CTOR_a7)leaf1, (KV_CTOR_a8)up);
  struct nview nn; nv_load(&nn, (uint8_t *)node, 1);
  const unsigned shared = IN_D - IN_depth, L = NV_PREFIX_LEN(&nn);
  const uint64_t w1 = ((uint64_t)(uintptr_t)leaf1) | T_LEAF, w2 = ((uint64_t)(uintptr_t)leaf2) | T_LEAF;
  __CPROVER_assert(*(uint8_t **)(up + LAY_LEAFUP_PTR) == 0, "the new leaf's ownership moves into the node");
  __CPROVER_assert(nn.count == 2, "C01 split (byte-string keys): the node has exactly two children");
  __CPROVER_assert(L == (shared <= 7 ? shared : 7), "C10: the key prefix holds the shared bytes, at most 7");
  for (unsigned i = 0; i < 7; i++) if (i < L) __CPROVER_assert(kp_byte(nn.prefix, i) == IN_B1[IN_depth + i], "C01 split: the prefix bytes are the bytes both keys share from the split depth on");
  if (shared <= 7) {
    __CPROVER_assert(nv_wf_small(&nn), "C01 split (byte-string keys, at most 7 shared bytes): the node is well-formed - two DISTINCT, sorted key bytes");
    __CPROVER_assert(nv_child(&nn, IN_B1[IN_D]) == w1 && nv_child(&nn, IN_B2[IN_D]) == w2, "C01 split: the existing leaf hangs under its key's byte at the first difference, the new leaf under the new key's byte");
    VERIF_CANARY("short shared run reachable");
  } else {
    __CPROVER_assert(nn.keys[0] != nn.keys[1], "known-finding[kv-long-shared-prefix]: keys sharing more than 7 bytes past the split depth still get two DISTINCT key bytes in the split node");
#ifndef VERIF_CFG_DEBUG
    VERIF_CANARY("long shared run reachable");
#endif
  }
  VERIF_CANARY("constructor returns");
}
