/* C01 / C02 / C16: contracts of the read-only members of one inner-node class (CLS = 1..4: basic_inode_4/16/48/256), REAL code
 * (the SIMD paths of the configuration under extraction), against the representation-independent node view of spec/spec_node.h.
 * Quantified over ALL well-formed node images and all arguments.  Frame: nothing is written (assigns nothing: checked by comparing
 * an arbitrary witness byte of the node before and after).
 *   find_child(b)   = (handle, &slot) with *slot == view(b) and key(handle) == b     if view(b) != none;   (0xFF, null) otherwise
 *   get_child(h)    = the slot designated by a valid handle
 *   begin()/last()  = least / greatest key byte present, with its handle, the tagged node pointer and the prefix snapshot
 *   next(h)/prior(h)= least key byte greater / greatest key byte smaller than key(h), or none
 *   gte_key_byte(b) = least key byte >= b, or none;   lte_key_byte(b) = greatest key byte <= b, or none */
#include "verif_rt.h"
#if CLS >= 3
/* N48 / N256: the 256-step scans of begin/last/next/prior/gte/lte are closed by invariants, not unwound.
 * forward scan from s:  s <= i <= 256 and no present key byte in [s, i)   (instantiated at the arbitrary witness Q and at the present witness P)
 * backward scan from s: -1 <= i <= s  and no present key byte in (i, s] */
static uint8_t *o; static uint8_t Q, P; static int G_s;
static inline _Bool absent_(uint8_t b);
/* IV(f): the loop's induction variable as identified by ll2c (loaded in the header, stored in the latch) - robust against renaming; read
 * with the signedness of its C++ type width: 64-bit counters are int64/uint64 with values in [-1, 256], narrower ones are unsigned */
#define IV(f) (sizeof(VERIF_LOOP_IV_##f##_for_2econd) == 8 ? (int64_t)VERIF_LOOP_IV_##f##_for_2econd : (int64_t)(uint64_t)VERIF_LOOP_IV_##f##_for_2econd)
#define FWD(i) ((int64_t)(i) >= G_s && (int64_t)(i) <= 256 && (!((int)Q >= G_s && (int64_t)Q < (int64_t)(i)) || absent_(Q)) && (!((int)P >= G_s && (int64_t)P < (int64_t)(i)) || absent_(P)))
#define BWD(i) ((int64_t)(i) <= G_s && (int64_t)(i) >= -1 && (!((int)Q <= G_s && (int64_t)Q > (int64_t)(i)) || absent_(Q)) && (!((int)P <= G_s && (int64_t)P > (int64_t)(i)) || absent_(P)))
#define VERIF_LOOP_HEAD_BEGIN_for_2econd VERIF_CUT_HEAD(BEGIN_for_2econd, FWD(IV(BEGIN)), 256 - IV(BEGIN))
#define VERIF_LOOP_BACK_BEGIN_for_2econd VERIF_CUT_BACK(BEGIN_for_2econd, FWD(IV(BEGIN)), 256 - IV(BEGIN))
#define VERIF_LOOP_HEAD_NEXT_for_2econd VERIF_CUT_HEAD(NEXT_for_2econd, FWD(IV(NEXT)), 256 - IV(NEXT))
#define VERIF_LOOP_BACK_NEXT_for_2econd VERIF_CUT_BACK(NEXT_for_2econd, FWD(IV(NEXT)), 256 - IV(NEXT))
#define VERIF_LOOP_HEAD_GTE_for_2econd VERIF_CUT_HEAD(GTE_for_2econd, FWD(IV(GTE)), 256 - IV(GTE))
#define VERIF_LOOP_BACK_GTE_for_2econd VERIF_CUT_BACK(GTE_for_2econd, FWD(IV(GTE)), 256 - IV(GTE))
#define VERIF_LOOP_HEAD_LAST_for_2econd VERIF_CUT_HEAD(LAST_for_2econd, BWD(IV(LAST)), IV(LAST) + 1)
#define VERIF_LOOP_BACK_LAST_for_2econd VERIF_CUT_BACK(LAST_for_2econd, BWD(IV(LAST)), IV(LAST) + 1)
#define VERIF_LOOP_HEAD_PRIOR_for_2econd VERIF_CUT_HEAD(PRIOR_for_2econd, BWD(IV(PRIOR)), IV(PRIOR) + 1)
#define VERIF_LOOP_BACK_PRIOR_for_2econd VERIF_CUT_BACK(PRIOR_for_2econd, BWD(IV(PRIOR)), IV(PRIOR) + 1)
#define VERIF_LOOP_HEAD_LTE_for_2econd VERIF_CUT_HEAD(LTE_for_2econd, BWD(IV(LTE)), IV(LTE) + 1)
#define VERIF_LOOP_BACK_LTE_for_2econd VERIF_CUT_BACK(LTE_for_2econd, BWD(IV(LTE)), IV(LTE) + 1)
#endif
#include "x_types.h"
#include "x_body.h"
#include "verif_models.h"
#include "node_common.h"
uint8_t IN_b, IN_h;
#if CLS < 3
static uint8_t *o; static uint8_t Q, P; static int G_s;
#else
static inline _Bool absent_(uint8_t b);
#endif
static uint8_t Q_unused_;                     /* ghost witness key byte: stands for "every key byte" in the minimality / maximality clauses */
static uint64_t Wb; static uint8_t w0;
typedef __typeof__(*(BEGIN_a1)0) NODE_T;
#define WF(b) __CPROVER_assume(nv_wf_at(&V0, (uint8_t)(b)))
#if CLS >= 3
static inline _Bool absent_(uint8_t b) { return nv_child(&V0, b) == 0; }
#endif
static void pre(void) { o = MK_NODE(NODE_T, CLS); Wb = nondet_u64(); __CPROVER_assume(Wb < n_size(CLS)); w0 = o[Wb]; IN_b = nondet_u8(); IN_h = nondet_u8(); Q = nondet_u8(); P = CLS >= 3 ? G_present : V0.keys[0]; WF(IN_b); WF(IN_h); WF(Q); WF(P); }
static void frame(void) { __CPROVER_assert(o[Wb] == w0, "frame: the node is not modified (arbitrary witness byte unchanged)"); }
/* r is an iter_result claimed to be the LEAST present key byte >= lo (dir = +1) or the GREATEST present key byte <= hi (dir = -1) */
static void check_iter(const uint8_t *r, int dir, int bound) {
  uint8_t k = r[LAY_ITER_KEY]; WF(k);
  __CPROVER_assert(nv_child(&V0, k) != 0, "C02: the returned key byte has a child in the node view");
  __CPROVER_assert(dir > 0 ? (int)k >= bound : (int)k <= bound, "C02: the returned key byte lies on the requested side of the bound");
  __CPROVER_assert(dir > 0 ? !((int)Q >= bound && Q < k) || nv_child(&V0, Q) == 0 : !((int)Q <= bound && Q > k) || nv_child(&V0, Q) == 0,
                   "C02: no present key byte lies strictly between the bound and the returned one (least / greatest such key byte)");
  __CPROVER_assert(*(const uint64_t *)(r + LAY_ITER_NODE) == TAG(o, CLS), "iter_result.node is this node, tagged with its class");
  __CPROVER_assert(nv_hvalid(&V0, r[LAY_ITER_INDEX]) && nv_hkey(&V0, r[LAY_ITER_INDEX]) == k, "C02: iter_result.child_index is the handle of the returned key byte");
  __CPROVER_assert(*(const uint64_t *)(r + LAY_ITER_PREFIX) == V0.prefix, "iter_result.prefix is a snapshot of the node's key prefix");
}
static void check_opt(const uint8_t *r, int dir, int bound) {
  if (r[LAY_ITEROPT_ENGAGED]) check_iter(r, dir, bound);
  else __CPROVER_assert(dir > 0 ? !((int)Q >= bound) || nv_child(&V0, Q) == 0 : !((int)Q <= bound) || nv_child(&V0, Q) == 0, "C02: 'none' is returned only when no key byte on the requested side of the bound is present");
}
void h_find_child(void) {
  pre();
  FIND_CHILD_ret r = FIND_CHILD((FIND_CHILD_a0)o, IN_b);
  uint64_t v = nv_child(&V0, IN_b);
  if (v == 0) { __CPROVER_assert(r.f1 == 0 && r.f0 == 0xFF, "C01: find_child reports 'not found' (0xFF, null) iff the view has no child for the key byte"); VERIF_CANARY("miss reachable"); }
  else {
    __CPROVER_assert(r.f1 != 0 && nv_hvalid(&V0, r.f0) && nv_hkey(&V0, r.f0) == IN_b, "C01: find_child returns the handle of the searched key byte");
    __CPROVER_assert((uint8_t *)r.f1 == o + nv_hslot_off(&V0, r.f0) && nv_child(&V0, nv_hkey(&V0, r.f0)) == v, "C01: ... and the address of the slot that holds view(b)");
    VERIF_CANARY("hit reachable");
  }
  frame();
}
void h_get_child(void) {
  pre(); __CPROVER_assume(nv_hvalid(&V0, IN_h));
  GET_CHILD_ret r = GET_CHILD((GET_CHILD_a0)o, IN_h);
  __CPROVER_assert(*(uint64_t *)&r == nv_child(&V0, nv_hkey(&V0, IN_h)) && *(uint64_t *)&r != 0, "get_child(h) is the child the view holds for key(h)");
  frame(); VERIF_CANARY("get_child returns");
}
void h_begin(void) { pre(); uint8_t r[LAY_ITER_SIZE]; G_s = 0; BEGIN((BEGIN_a0)r, (BEGIN_a1)o); check_iter(r, +1, 0); frame(); VERIF_CANARY("begin returns"); }
void h_last(void) { pre(); uint8_t r[LAY_ITER_SIZE]; G_s = 255; LAST((LAST_a0)r, (LAST_a1)o); check_iter(r, -1, 255); frame(); VERIF_CANARY("last returns"); }
void h_next(void) {
  pre(); __CPROVER_assume(nv_hvalid(&V0, IN_h));
  uint8_t r[LAY_ITEROPT_SIZE]; G_s = (int)IN_h + 1; NEXT((NEXT_a0)r, (NEXT_a1)o, IN_h);
  check_opt(r, +1, (int)nv_hkey(&V0, IN_h) + 1); frame(); VERIF_CANARY("next returns"); if (!r[LAY_ITEROPT_ENGAGED]) VERIF_CANARY("end reachable");
}
void h_prior(void) {
  pre(); __CPROVER_assume(nv_hvalid(&V0, IN_h));
  uint8_t r[LAY_ITEROPT_SIZE]; G_s = (int)IN_h - 1; PRIOR((PRIOR_a0)r, (PRIOR_a1)o, IN_h);
  check_opt(r, -1, (int)nv_hkey(&V0, IN_h) - 1); frame(); VERIF_CANARY("prior returns"); if (!r[LAY_ITEROPT_ENGAGED]) VERIF_CANARY("end reachable");
}
void h_gte(void) { pre(); uint8_t r[LAY_ITEROPT_SIZE]; G_s = IN_b; GTE((GTE_a0)r, (GTE_a1)o, IN_b); check_opt(r, +1, IN_b); frame(); VERIF_CANARY("gte_key_byte returns"); if (!r[LAY_ITEROPT_ENGAGED]) VERIF_CANARY("none reachable"); }
void h_lte(void) { pre(); uint8_t r[LAY_ITEROPT_SIZE]; G_s = IN_b; LTE((LTE_a0)r, (LTE_a1)o, IN_b); check_opt(r, -1, IN_b); frame(); VERIF_CANARY("lte_key_byte returns"); if (!r[LAY_ITEROPT_ENGAGED]) VERIF_CANARY("none reachable"); }
