/* C01 / C10 / C16: the class-changing constructors of the inner nodes, REAL code (parent-class constructor + init, incl. the SIMD insert
 * position search), against the node view.  FROM/TO select the pair:
 *   growth  (TO == FROM + 1):  basic_inode_TO(db, full FROM node, leaf, depth)
 *       requires  source well-formed with count == capacity, the leaf's key byte b at depth absent
 *       ensures   view(new) = view(source) + [b -> leaf]  (whole view, ghost witness Q), count(new) = capacity(FROM) + 1, prefix copied, new node
 *                 well-formed, the source is handed to the inode deleter exactly once, the leaf's ownership moved, nothing else released
 *   shrink  (TO == FROM - 1):  basic_inode_TO(db, FROM node at min_size, handle of the leaf to delete)
 *       requires  source well-formed with count == min_size, valid handle whose child is a leaf
 *       ensures   view(new) = view(source) minus that key byte, count(new) = min_size(FROM) - 1 = capacity(TO), prefix copied, well-formed,
 *                 that leaf handed to the leaf deleter exactly once, the source handed to the inode deleter exactly once */
#include "x_types.h"
#include "x_body.h"
static unsigned G_frees;
#define VERIF_ON_FREE(p) (G_frees++)
#include "verif_models.h"
#include "node_common.h"
typedef __typeof__(*(SRC_FIND_a0)0) SRC_T; typedef __typeof__(*(DST_FIND_a0)0) DST_T;
static unsigned G_ldel, G_idel; static void *G_ldel_arg, *G_idel_arg;
void LEAF_DEL(LEAF_DEL_a0 self, LEAF_DEL_a1 leaf) { G_ldel++; G_ldel_arg = leaf; }
void INODE_DEL(INODE_DEL_a0 self, INODE_DEL_a1 n) { G_idel++; G_idel_arg = n; }
uint8_t IN_b, IN_h; uint32_t IN_depth; static uint8_t Q;
static uint8_t G_owner[48]; static _Bool G_used[48]; static struct nview VS, VD;
static uint8_t *mk_src(void) {
  SRC_T *t = malloc(sizeof(SRC_T)); __CPROVER_assume(t != 0); uint8_t *o = (uint8_t *)t;
  nv_load(&VS, o, FROM); __CPROVER_assume(nv_wf_global(&VS));
  Q = nondet_u8(); __CPROVER_assume(nv_wf_at(&VS, Q));
#if FROM == 3
  for (int j = 0; j < 48; j++) { G_owner[j] = nondet_u8(); G_used[j] = nondet_bool(); } __CPROVER_assume(nv_wf_48_full(&VS, G_owner, G_used));
#endif
#if FROM == 4
  __CPROVER_assume(nv_wf_256_full(&VS));
#endif
  return o;
}
static void post_common(uint8_t *src, uint8_t *dst) {
  nv_load(&VD, dst, TO);
  __CPROVER_assert(!verif_exc_pending && G_frees == 0, "the constructor neither throws nor frees directly");
  __CPROVER_assert(VD.prefix == VS.prefix, "C10: the key prefix is copied unchanged");
  __CPROVER_assert(G_idel == 1 && G_idel_arg == (void *)src, "C10: the replaced node is handed to the inode deleter exactly once");
  if (TO <= 2) __CPROVER_assert(nv_wf_small(&VD), "C10: the new node is well-formed (keys strictly ascending, live slots non-null, count in range)");
  else __CPROVER_assert(nv_wf_global(&VD) && nv_wf_at(&VD, Q) && nv_wf_at(&VD, IN_b), "C10: the new node is well-formed (global part and the instances at the witness and the touched key byte)");
}
#if TO == FROM + 1
void harness(void) {
  uint8_t *src = mk_src(); __CPROVER_assume(nv_count(&VS) == n_capacity(FROM));
  uint8_t *leaf = malloc(NLAY(POL, LEAF, DATA) + 8 + 4); __CPROVER_assume(leaf != 0); *(uint32_t *)(leaf + NLAY(POL, LEAF, KEYSIZE)) = 8;
  IN_depth = nondet_u32(); __CPROVER_assume(IN_depth < 8); IN_b = leaf[NLAY(POL, LEAF, DATA) + IN_depth];
  __CPROVER_assume(nv_child(&VS, IN_b) == 0 && nv_wf_at(&VS, IN_b));
  uint8_t up[LAY_LEAFUP_SIZE]; *(uint8_t **)(up + LAY_LEAFUP_PTR) = leaf; *(void **)(up + LAY_LEAFUP_DB) = nondet_ptr();
  DST_T *dt = malloc(sizeof(DST_T)); __CPROVER_assume(dt != 0); uint8_t *dst = (uint8_t *)dt; uint8_t db[8];
  CTOR((CTOR_a0)dst, (CTOR_a1)db, (CTOR_a2)src, (CTOR_a3)up, IN_depth);
  post_common(src, dst);
  __CPROVER_assert(nv_child(&VD, Q) == (Q == IN_b ? (uint64_t)(uintptr_t)leaf : nv_child(&VS, Q)), "C01: view(new) = view(source) + [b -> leaf]: every key byte of the source keeps its child, the new one maps to the leaf");
  __CPROVER_assert(nv_count(&VD) == n_capacity(FROM) + 1, "C10: capacity + 1 children: the minimum size of the larger class");
  __CPROVER_assert(*(uint8_t **)(up + LAY_LEAFUP_PTR) == 0 && G_ldel == 0, "the leaf's ownership moved into the new node");
  VERIF_CANARY("growing constructor returns");
}
#else
void harness(void) {
  uint8_t *src = mk_src(); __CPROVER_assume(nv_count(&VS) == n_minsize(FROM));
  IN_h = nondet_u8(); __CPROVER_assume(nv_hvalid(&VS, IN_h) && nv_wf_at(&VS, IN_h)); IN_b = nv_hkey(&VS, IN_h);
#if FROM == 3
  __CPROVER_assume(Q == IN_b || VS.keys[Q] == N48_EMPTY || VS.keys[Q] != VS.keys[IN_b]);
#endif
  uint8_t *leaf = malloc(NLAY(POL, LEAF, DATA) + 8 + 4); __CPROVER_assume(leaf != 0);
  *(uint64_t *)(src + nv_hslot_off(&VS, IN_h)) = (uint64_t)(uintptr_t)leaf; nv_load(&VS, src, FROM);
  DST_T *dt = malloc(sizeof(DST_T)); __CPROVER_assume(dt != 0); uint8_t *dst = (uint8_t *)dt; uint8_t db[8];
  CTOR((CTOR_a0)dst, (CTOR_a1)db, (CTOR_a2)src, IN_h);
  post_common(src, dst);
  __CPROVER_assert(nv_child(&VD, Q) == (Q == IN_b ? 0 : nv_child(&VS, Q)), "C01: view(new) = view(source) minus the deleted key byte: every other key byte keeps its child");
  __CPROVER_assert(nv_count(&VD) == n_minsize(FROM) - 1 && nv_count(&VD) == n_capacity(TO), "C10: min_size - 1 children = the capacity of the smaller class");
  __CPROVER_assert(G_ldel == 1 && G_ldel_arg == (void *)leaf, "C10: exactly the deleted leaf is handed to the leaf deleter, exactly once");
  VERIF_CANARY("shrinking constructor returns");
}
#endif
