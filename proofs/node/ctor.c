/* C01 / C10 / C16: the class-changing constructors of the inner nodes, REAL code (parent-class constructor + init, incl. the SIMD insert
 * position search), against the node view.  FROM/TO select the pair:
 *   growth  (TO == FROM + 1):  basic_inode_TO(db, full FROM node, leaf, depth)
 *       requires  source well-formed with count == capacity, the leaf's key byte b at depth absent
 *       ensures   view(new) = view(source) + [b -> leaf]  (whole view, ghost witness Q), count(new) = capacity(FROM) + 1, prefix copied, new node
 *                 well-formed, the source is handed to the inode deleter exactly once, the leaf's ownership moved, nothing else released
 *   shrink  (TO == FROM - 1):  basic_inode_TO(db, FROM node at min_size, handle of the leaf to delete)
 *       requires  source well-formed with count == min_size, valid handle whose child is a leaf
 *       ensures   view(new) = view(source) minus that key byte, count(new) = min_size(FROM) - 1 = capacity(TO), prefix copied, well-formed,
 *                 that leaf handed to the leaf deleter exactly once, the source handed to the inode deleter exactly once */
#include "verif_rt.h"
/* ---- loop invariants of the three copy routines with 256-step loops (cut points; see the comment block "COPY ROUTINES" below) */
#if FROM == 3 && TO == 4
static void g1_base(void *this_p, void *src_p, void *i_p, void *c_p); static void g1_head(void *this_p, void *src_p, void *i_p, void *c_p); static void g1_back(void *this_p, void *src_p, void *i_p, void *c_p);
static void g2_base(void *this_p, void *src_p, void *i_p); static void g2_head(void *this_p, void *src_p, void *i_p); static void g2_back(void *this_p, void *src_p, void *i_p);
#define VERIF_LOOP_HEAD_INIT_while_2econd do { g1_base(m_this_2eaddr, m_source_node_2eaddr, &m_i, &m_children_copied); VERIF_LOOP_HAVOC_INIT_while_2econd; g1_head(m_this_2eaddr, m_source_node_2eaddr, &m_i, &m_children_copied); } while (0)
#define VERIF_LOOP_BACK_INIT_while_2econd g1_back(m_this_2eaddr, m_source_node_2eaddr, &m_i, &m_children_copied)
#define VERIF_LOOP_HEAD_INIT_for_2econd do { g2_base(m_this_2eaddr, m_source_node_2eaddr, &m_i); VERIF_LOOP_HAVOC_INIT_for_2econd; g2_head(m_this_2eaddr, m_source_node_2eaddr, &m_i); } while (0)
#define VERIF_LOOP_BACK_INIT_for_2econd g2_back(m_this_2eaddr, m_source_node_2eaddr, &m_i)
#endif
#if FROM == 3 && TO == 2
static void t1_base(void *this_p, void *src_p, void *i_p, void *n_p); static void t1_head(void *this_p, void *src_p, void *i_p, void *n_p); static void t1_back(void *this_p, void *src_p, void *i_p, void *n_p);
#define VERIF_LOOP_HEAD_INIT_while_2econd do { t1_base(m_this_2eaddr, m_source_node_2eaddr, &m_i, &m_next_child); VERIF_LOOP_HAVOC_INIT_while_2econd; t1_head(m_this_2eaddr, m_source_node_2eaddr, &m_i, &m_next_child); } while (0)
#define VERIF_LOOP_BACK_INIT_while_2econd t1_back(m_this_2eaddr, m_source_node_2eaddr, &m_i, &m_next_child)
#endif
#if FROM == 4 && TO == 3
static void s1_base(void *this_p, void *src_p, void *i_p, void *n_p); static void s1_head(void *this_p, void *src_p, void *i_p, void *n_p); static void s1_back(void *this_p, void *src_p, void *i_p, void *n_p);
#define VERIF_LOOP_HEAD_INIT_for_2econd do { s1_base(m_this_2eaddr, m_source_node_2eaddr, &m_child_i, &m_next_child); VERIF_LOOP_HAVOC_INIT_for_2econd; s1_head(m_this_2eaddr, m_source_node_2eaddr, &m_child_i, &m_next_child); } while (0)
#define VERIF_LOOP_BACK_INIT_for_2econd s1_back(m_this_2eaddr, m_source_node_2eaddr, &m_child_i, &m_next_child)
#endif
#include "x_types.h"
#include "x_body.h"
static unsigned G_frees;
#define VERIF_ON_FREE(p) (G_frees++)
#include "verif_models.h"
#include "node_common.h"
#ifdef OLC_SPLIT_CTOR
/* olc_db: construction is two real calls - the header-only constructor basic_inode_TO(db&, const source&) made by create(), then the copy
 * routine basic_inode_TO::init(...) called by the olc wrapper after the locks are taken.  The contract below is on their composition. */
typedef HDR_a0 CTOR_a0; typedef HDR_a1 CTOR_a1; typedef HDR_a2 CTOR_a2; typedef INIT_a3 CTOR_a3;
#if TO == FROM + 1
#define CTOR(dst, db, src, up, depth) do { HDR((dst), (db), (src)); INIT((INIT_a0)(dst), (INIT_a1)(db), (INIT_a2)(src), (up), (depth)); } while (0)
#else
#define CTOR(dst, db, src, h) do { HDR((dst), (db), (src)); INIT((INIT_a0)(dst), (INIT_a1)(db), (INIT_a2)(src), (h)); } while (0)
#endif
#endif
typedef __typeof__(*(SRC_FIND_a0)0) SRC_T; typedef __typeof__(*(DST_FIND_a0)0) DST_T;
static unsigned G_ldel, G_idel; static void *G_ldel_arg, *G_idel_arg;
void LEAF_DEL(LEAF_DEL_a0 self, LEAF_DEL_a1 leaf) { G_ldel++; G_ldel_arg = leaf; }
void INODE_DEL(INODE_DEL_a0 self, INODE_DEL_a1 n) { G_idel++; G_idel_arg = n; }
uint8_t IN_b, IN_h; uint32_t IN_depth; static uint8_t Q;
static uint8_t G_owner[48]; static _Bool G_used[48]; static struct nview VS, VD;
static uint8_t *mk_src(void) {
  SRC_T *t = malloc(sizeof(SRC_T)); __CPROVER_assume(t != 0); uint8_t *o = (uint8_t *)t;
  nv_load(&VS, o, FROM); __CPROVER_assume(nv_wf_global(&VS));
  Q = nondet_u8(); __CPROVER_assume(nv_wf_at(&VS, Q));
#if FROM == 3 && TO != 4 && TO != 2      /* the routines with loop invariants use the counting (rank) form of the N48 invariant instead: rk_define() */
  for (int j = 0; j < 48; j++) { G_owner[j] = nondet_u8(); G_used[j] = nondet_bool(); } __CPROVER_assume(nv_wf_48_full(&VS, G_owner, G_used));
#endif
#if FROM == 4 && TO != 3      /* the shrink to N48 uses the counting (rank) form of the N256 invariant instead: rk_define() */
  __CPROVER_assume(nv_wf_256_full(&VS));
#endif
  return o;
}
static void post_common(uint8_t *src, uint8_t *dst) {
  nv_load(&VD, dst, TO);
  __CPROVER_assert(!verif_exc_pending && G_frees == 0, "the constructor neither throws nor frees directly");
  __CPROVER_assert(VD.prefix == VS.prefix, "C10: the key prefix is copied unchanged");
  __CPROVER_assert(G_idel == 1 && G_idel_arg == (void *)src, "C10: the replaced node is handed to the inode deleter exactly once");
  if (TO <= 2) __CPROVER_assert(nv_wf_small(&VD), "C10: the new node is well-formed (keys strictly ascending, live slots non-null, count in range)");
  else __CPROVER_assert(nv_wf_global(&VD) && nv_wf_at(&VD, Q) && nv_wf_at(&VD, IN_b), "C10: the new node is well-formed (global part and the instances at the witness and the touched key byte)");
}

/* ================================================================== COPY ROUTINES: loop invariants
 * Ghost rank array RK over the SOURCE view: RK[b] = number of key bytes < b that the routine will copy.  It is assumed pointwise
 * (RK[0] = 0, RK[b+1] = RK[b] + copied(b)), which DEFINES it, plus its total RK[256] (= the number of children copied), which is the
 * counting form of the source's well-formedness (for N48: the bijection between used slots and mapped key bytes gives #mapped key bytes ==
 * #used slots == count - a pigeonhole fact the SAT back end cannot derive from the slot-wise bijection; stated in the job's assumptions).
 * Heap havoc at a cut point: every element of the destination arrays the loop writes is replaced by a nondeterministic value, then the
 * invariant is assumed for the witness key byte Q only (pointwise form of the universally quantified invariant).  Frame: the back-edge check
 * re-reads the source at the witness and the destination header. */
static uint8_t RK[257];
#if FROM == 3 && TO == 4
static _Bool copied_(unsigned b) { return VS.keys[b] != N48_EMPTY; }
static void rk_define(void) { for (unsigned b = 0; b <= 256; b++) RK[b] = nondet_u8(); __CPROVER_assume(RK[0] == 0); for (unsigned b = 0; b < 256; b++) __CPROVER_assume(RK[b + 1] == RK[b] + (copied_(b) ? 1 : 0)); __CPROVER_assume(RK[256] == 48); }
static uint8_t *G_dst, *G_src; static unsigned G_ib; static uint8_t G_dcount0; static uint64_t G_dprefix0;
#define DCH(d, b) (*(uint64_t *)((d) + n_off_children(4) + 8u * (unsigned)(b)))
static void havoc_dst(uint8_t *d) { for (unsigned b = 0; b < 256; b++) DCH(d, b) = nondet_u64(); }
static void frame_(uint8_t *d, uint8_t *sp) {
  __CPROVER_assert(d == G_dst && sp == G_src, "the loops work on this destination and this source");
  __CPROVER_assert(N_KEY(sp, 3, Q) == VS.keys[Q] && (VS.keys[Q] == N48_EMPTY || N_SLOT(sp, 3, VS.keys[Q] < 48 ? VS.keys[Q] : 0) == VS.slots[VS.keys[Q] < 48 ? VS.keys[Q] : 0]) && N_COUNT(sp, 3) == VS.count, "frame: the loop does not modify the source (witness key byte, count)");
  __CPROVER_assert(N_COUNT(d, 4) == G_dcount0 && N_PREFIX(d, 4) == G_dprefix0, "frame: the loop does not modify the destination's header");
}
static _Bool inv1_(uint8_t *d, unsigned i, unsigned c) { return i <= 255 && c == RK[i] && c < 48 && (Q >= i || DCH(d, Q) == nv_child(&VS, Q)) && (IN_b >= i || DCH(d, IN_b) == nv_child(&VS, IN_b)); }   /* witnesses: Q and the new key byte */
static void g1_base(void *this_p, void *src_p, void *i_p, void *c_p) {
  G_dst = this_p; G_src = src_p; G_dcount0 = N_COUNT(G_dst, 4); G_dprefix0 = N_PREFIX(G_dst, 4);
  __CPROVER_assert(inv1_(G_dst, *(uint32_t *)i_p, *(uint32_t *)c_p), "loop 1 invariant holds on entry (i = 0, nothing copied)");
}
static void g1_head(void *this_p, void *src_p, void *i_p, void *c_p) { havoc_dst(this_p); __CPROVER_assume(inv1_(this_p, *(uint32_t *)i_p, *(uint32_t *)c_p)); G_ib = *(uint32_t *)i_p;
  __CPROVER_assume(G_ib > 255 || nv_wf_at(&VS, (uint8_t)G_ib)); }      /* the source's invariant (for all key bytes) instantiated at the loop's current key byte */
static void g1_back(void *this_p, void *src_p, void *i_p, void *c_p) {
  frame_(this_p, src_p);
  __CPROVER_assert(*(uint32_t *)i_p == G_ib + 1 && inv1_(this_p, *(uint32_t *)i_p, *(uint32_t *)c_p), "loop 1 invariant preserved: copied == rank(i), fewer than 48 so far (so i stays below 256), destination[Q] == source view at Q for Q < i");
  VERIF_CANARY("loop 1 continues"); __CPROVER_assume(0);
}
/* loop 2 (fill the rest with null): i_b = the index at which the 48th child was copied */
static unsigned G_ib2;
static _Bool inv2_(uint8_t *d, unsigned i) { return i > G_ib2 && i <= 256 && G_ib2 <= 255 && RK[G_ib2 + 1] == 48 && (Q > G_ib2 || DCH(d, Q) == nv_child(&VS, Q)) && (Q <= G_ib2 || Q >= i || DCH(d, Q) == 0)
    && (IN_b > G_ib2 || DCH(d, IN_b) == nv_child(&VS, IN_b)) && (IN_b <= G_ib2 || IN_b >= i || DCH(d, IN_b) == 0); }
static void g2_base(void *this_p, void *src_p, void *i_p) {
  frame_(this_p, src_p);
  G_ib2 = *(uint32_t *)i_p - 1;
  __CPROVER_assert(*(uint32_t *)i_p >= 1 && inv2_(this_p, *(uint32_t *)i_p), "loop 2 invariant holds on entry: everything up to the 48th copied child is in place, all 48 are copied");
}
static unsigned G_i2;
static void g2_head(void *this_p, void *src_p, void *i_p) { havoc_dst(this_p); __CPROVER_assume(inv2_(this_p, *(uint32_t *)i_p)); G_i2 = *(uint32_t *)i_p; }
static void g2_back(void *this_p, void *src_p, void *i_p) {
  frame_(this_p, src_p);
  __CPROVER_assert(*(uint32_t *)i_p == G_i2 + 1 && inv2_(this_p, *(uint32_t *)i_p), "loop 2 invariant preserved: the slots after the 48th copied child are null up to i");
  VERIF_CANARY("loop 2 continues"); __CPROVER_assume(0);
}
#endif

#if FROM == 3 && TO == 2
/* N48 -> N16 (shrink): copied(b) = the source maps key byte b and b is not the deleted key byte; RK total = 16 = min_size - 1.
 * The destination has only 16 positions, so the position part of the invariant is written out for all of them (no witness needed):
 *   position j < next_child holds the key byte of rank j (a copied byte below i) and that byte's child. */
static _Bool copied_(unsigned b) { return VS.keys[b] != N48_EMPTY && b != IN_b; }
static void rk_define(void) { for (unsigned b = 0; b <= 256; b++) RK[b] = nondet_u8(); __CPROVER_assume(RK[0] == 0); for (unsigned b = 0; b < 256; b++) __CPROVER_assume(RK[b + 1] == RK[b] + (copied_(b) ? 1 : 0)); __CPROVER_assume(RK[256] == 16); }
static uint8_t *G_dst, *G_src; static unsigned G_i0; static uint8_t G_dcount0; static uint64_t G_dprefix0;
#define DK(d, j) ((d)[n_off_keys(2) + (unsigned)(j)])
#define DC(d, j) (*(uint64_t *)((d) + n_off_children(2) + 8u * (unsigned)(j)))
static void havoc_dst(uint8_t *d) { for (unsigned j = 0; j < 16; j++) { DK(d, j) = nondet_u8(); DC(d, j) = nondet_u64(); } }
static uint8_t slot_of(unsigned b) { uint8_t ix = VS.keys[b]; return ix < 48 ? ix : 0; }
/* instances of the source's invariant (for all key bytes b: a mapped byte designates a non-null slot below 48; distinct mapped bytes use distinct slots) at b */
static _Bool src_inst(unsigned b) { return nv_wf_at(&VS, (uint8_t)b) && (b == IN_b || VS.keys[b] == N48_EMPTY || VS.keys[b] != VS.keys[IN_b]); }
static void frame_(uint8_t *d, uint8_t *sp) {
  __CPROVER_assert(d == G_dst && sp == G_src, "the loop works on this destination and this source");
  __CPROVER_assert(N_KEY(sp, 3, Q) == (Q == IN_b ? N48_EMPTY : VS.keys[Q]) && (!copied_(Q) || N_SLOT(sp, 3, slot_of(Q)) == VS.slots[slot_of(Q)]) && N_COUNT(sp, 3) == VS.count, "frame: the loop does not modify the source (witness key byte, count)");
  __CPROVER_assert(N_COUNT(d, 2) == G_dcount0 && N_PREFIX(d, 2) == G_dprefix0, "frame: the loop does not modify the destination's header");
}
static _Bool inv_(uint8_t *d, unsigned i, unsigned n) {
  if (!(i <= 255 && n == RK[i] && n < 16)) return 0;
  for (unsigned j = 0; j < 16; j++) if (j < n) { unsigned kb = DK(d, j); if (!(kb < i && copied_(kb) && RK[kb] == j && DC(d, j) == VS.slots[slot_of(kb)])) return 0; }
  if (Q < i && copied_(Q) && DK(d, RK[Q] < 16 ? RK[Q] : 0) != Q) return 0;
  return 1;
}
static void t1_base(void *this_p, void *src_p, void *i_p, void *n_p) {
  G_dst = this_p; G_src = src_p; G_dcount0 = N_COUNT(G_dst, 2); G_dprefix0 = N_PREFIX(G_dst, 2);
  __CPROVER_assert(inv_(G_dst, *(uint32_t *)i_p, *(uint32_t *)n_p), "loop invariant holds on entry (i = 0, nothing copied)");
}
static void t1_head(void *this_p, void *src_p, void *i_p, void *n_p) {
  havoc_dst(this_p); __CPROVER_assume(inv_(this_p, *(uint32_t *)i_p, *(uint32_t *)n_p)); G_i0 = *(uint32_t *)i_p;
  __CPROVER_assume(src_inst(G_i0));                                                              /* the source's invariant at the loop's current key byte */
  for (unsigned j = 0; j < 16; j++) __CPROVER_assume(src_inst(DK((uint8_t *)this_p, j)));        /* ... and at the key bytes already placed */
}
static void t1_back(void *this_p, void *src_p, void *i_p, void *n_p) {
  frame_(this_p, src_p);
  __CPROVER_assert(*(uint32_t *)i_p == G_i0 + 1 && inv_(this_p, *(uint32_t *)i_p, *(uint32_t *)n_p), "loop invariant preserved: next_child == rank(i) < 16, position j holds the copied key byte of rank j and its child, the witness byte sits at its rank");
  VERIF_CANARY("loop continues"); __CPROVER_assume(0);
}
#endif

#if FROM == 4 && TO == 3
/* N256 -> N48 (shrink): copied(b) = the source has a child for b and b is not the deleted key byte; RK total = 48 = min_size - 1 */
static _Bool copied_(unsigned b) { return VS.slots[b] != 0 && b != IN_b; }
static void rk_define(void) { for (unsigned b = 0; b <= 256; b++) RK[b] = nondet_u8(); __CPROVER_assume(RK[0] == 0); for (unsigned b = 0; b < 256; b++) __CPROVER_assume(RK[b + 1] == RK[b] + (copied_(b) ? 1 : 0)); __CPROVER_assume(RK[256] == 48); }
static uint8_t *G_dst, *G_src; static unsigned G_i0; static uint8_t G_dcount0; static uint64_t G_dprefix0;
#define DCI(d, b) ((d)[n_off_keys(3) + (unsigned)(b)])
#define DPA(d, j) (*(uint64_t *)((d) + n_off_children(3) + 8u * (unsigned)(j)))
static void havoc_dst(uint8_t *d) { for (unsigned b = 0; b < 256; b++) DCI(d, b) = nondet_u8(); for (unsigned j = 0; j < 48; j++) DPA(d, j) = nondet_u64(); }
static void frame_(uint8_t *d, uint8_t *sp) {
  __CPROVER_assert(d == G_dst && sp == G_src, "the loop works on this destination and this source");
  __CPROVER_assert(N_SLOT(sp, 4, Q) == (Q == IN_b ? 0 : VS.slots[Q]) && N_COUNT(sp, 4) == VS.count, "frame: the loop does not modify the source (witness key byte, count)");
  __CPROVER_assert(N_COUNT(d, 3) == G_dcount0 && N_PREFIX(d, 3) == G_dprefix0, "frame: the loop does not modify the destination's header");
}
static _Bool inv_(uint8_t *d, unsigned i, unsigned n) {
  if (!(i <= 256 && n == RK[i < 256 ? i : 256] && n < 48)) return 0;
  if (DCI(d, IN_b) != N48_EMPTY) return 0;                       /* second witness: the deleted key byte is never indexed */
  if (Q < i && copied_(Q)) return DCI(d, Q) == RK[Q] && DPA(d, RK[Q] < 48 ? RK[Q] : 0) == VS.slots[Q];
  return DCI(d, Q) == N48_EMPTY;
}
static void s1_base(void *this_p, void *src_p, void *i_p, void *n_p) {
  G_dst = this_p; G_src = src_p; G_dcount0 = N_COUNT(G_dst, 3); G_dprefix0 = N_PREFIX(G_dst, 3);
  __CPROVER_assert(inv_(G_dst, *(uint32_t *)i_p, *(uint8_t *)n_p), "loop invariant holds on entry (i = 0, nothing copied, every index empty)");
}
static void s1_head(void *this_p, void *src_p, void *i_p, void *n_p) { havoc_dst(this_p); __CPROVER_assume(inv_(this_p, *(uint32_t *)i_p, *(uint8_t *)n_p)); G_i0 = *(uint32_t *)i_p; }
static void s1_back(void *this_p, void *src_p, void *i_p, void *n_p) {
  frame_(this_p, src_p);
  __CPROVER_assert(*(uint32_t *)i_p == G_i0 + 1 && inv_(this_p, *(uint32_t *)i_p, *(uint8_t *)n_p), "loop invariant preserved: next_child == rank(i) < 48, index[Q] == rank(Q) and slot[rank(Q)] == source child for copied Q < i, index[Q] empty otherwise");
  VERIF_CANARY("loop continues"); __CPROVER_assume(0);
}
#endif
#if TO == FROM + 1
void harness(void) {
  uint8_t *src = mk_src(); __CPROVER_assume(nv_count(&VS) == n_capacity(FROM));
#if FROM == 3 && TO == 4
  rk_define();
#endif
  uint8_t *leaf = malloc(NLAY(POL, LEAF, DATA) + 8 + 4); __CPROVER_assume(leaf != 0); *(uint32_t *)(leaf + NLAY(POL, LEAF, KEYSIZE)) = 8;
  IN_depth = nondet_u32(); __CPROVER_assume(IN_depth < 8); IN_b = leaf[NLAY(POL, LEAF, DATA) + IN_depth];
  __CPROVER_assume(nv_child(&VS, IN_b) == 0 && nv_wf_at(&VS, IN_b));
  uint8_t up[LAY_LEAFUP_SIZE]; *(uint8_t **)(up + LAY_LEAFUP_PTR) = leaf; *(void **)(up + LAY_LEAFUP_DB) = nondet_ptr();
  DST_T *dt = malloc(sizeof(DST_T)); __CPROVER_assume(dt != 0); uint8_t *dst = (uint8_t *)dt; uint8_t db[8];
  CTOR((CTOR_a0)dst, (CTOR_a1)db, (CTOR_a2)src, (CTOR_a3)up, IN_depth);
  post_common(src, dst);
  __CPROVER_assert(nv_child(&VD, Q) == (Q == IN_b ? (uint64_t)(uintptr_t)leaf : nv_child(&VS, Q)), "C01: view(new) = view(source) + [b -> leaf]: every key byte of the source keeps its child, the new one maps to the leaf");
  __CPROVER_assert(nv_count(&VD) == n_capacity(FROM) + 1, "C10: capacity + 1 children: the minimum size of the larger class");
  __CPROVER_assert(*(uint8_t **)(up + LAY_LEAFUP_PTR) == 0 && G_ldel == 0, "the leaf's ownership moved into the new node");
  VERIF_CANARY("growing constructor returns");
}
#else
void harness(void) {
  uint8_t *src = mk_src(); __CPROVER_assume(nv_count(&VS) == n_minsize(FROM));
  IN_h = nondet_u8(); __CPROVER_assume(nv_hvalid(&VS, IN_h) && nv_wf_at(&VS, IN_h)); IN_b = nv_hkey(&VS, IN_h);
#if FROM == 3
  __CPROVER_assume(Q == IN_b || VS.keys[Q] == N48_EMPTY || VS.keys[Q] != VS.keys[IN_b]);
#endif
  uint8_t *leaf = malloc(NLAY(POL, LEAF, DATA) + 8 + 4); __CPROVER_assume(leaf != 0);
  *(uint64_t *)(src + nv_hslot_off(&VS, IN_h)) = (uint64_t)(uintptr_t)leaf; nv_load(&VS, src, FROM);
#if (FROM == 4 && TO == 3) || (FROM == 3 && TO == 2)
  rk_define();
#endif
  DST_T *dt = malloc(sizeof(DST_T)); __CPROVER_assume(dt != 0); uint8_t *dst = (uint8_t *)dt; uint8_t db[8];
  CTOR((CTOR_a0)dst, (CTOR_a1)db, (CTOR_a2)src, IN_h);
  post_common(src, dst);
  __CPROVER_assert(nv_child(&VD, Q) == (Q == IN_b ? 0 : nv_child(&VS, Q)), "C01: view(new) = view(source) minus the deleted key byte: every other key byte keeps its child");
  __CPROVER_assert(nv_count(&VD) == n_minsize(FROM) - 1 && nv_count(&VD) == n_capacity(TO), "C10: min_size - 1 children = the capacity of the smaller class");
  __CPROVER_assert(G_ldel == 1 && G_ldel_arg == (void *)leaf, "C10: exactly the deleted leaf is handed to the leaf deleter, exactly once");
  VERIF_CANARY("shrinking constructor returns");
}
#endif
