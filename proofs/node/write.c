/* C01 / C10 / C16: contracts of the mutating members of one inner-node class (CLS = 1..4), REAL code incl. the SIMD insert-position and
 * free-slot searches of the configuration under extraction.  All well-formed node images, all key bytes / handles.
 *   add_to_nonfull(leaf, depth, count)   requires  count == children_count < capacity, the leaf's key byte b at depth is absent
 *       ensures  view' = view[b -> leaf|LEAF]  (whole view: checked at an arbitrary witness key byte Q), count' = count + 1,
 *                prefix unchanged, node still well-formed (sorted/distinct keys; N48 index consistent), the unique_ptr is released,
 *                nothing is freed, nothing outside the node is written
 *   remove(handle, db)                   requires  valid handle whose child is a leaf, count > min_size
 *       ensures  view' = view minus key(handle), count' = count - 1, prefix unchanged, well-formed, that leaf handed to the leaf
 *                deleter exactly once (ledger), nothing else released
 * The leaf deleter is replaced by a recording contract (its own accounting contract is discharged under C10). */
#include "x_types.h"
#include "x_body.h"
static unsigned G_frees;
#define VERIF_ON_FREE(p) (G_frees++)
#include "verif_models.h"
#include "node_common.h"
typedef __typeof__(*(ADD_a0)0) NODE_T;
static unsigned G_del_calls; static void *G_del_arg;
void LEAF_DEL(LEAF_DEL_a0 self, LEAF_DEL_a1 leaf) { G_del_calls++; G_del_arg = leaf; }
uint8_t IN_b, IN_h; uint32_t IN_depth;
static uint8_t Q;
static uint8_t G_owner[48]; static _Bool G_used[48];
static struct nview V1;
static uint8_t *mk_leaf(unsigned keylen) {     /* a leaf object: header + key bytes (+ room for a small value) */
  uint8_t *l = malloc(NLAY(POL, LEAF, DATA) + keylen + 4); __CPROVER_assume(l != 0);
  *(uint32_t *)(l + NLAY(POL, LEAF, KEYSIZE)) = keylen; return l;
}
static void post_wf(void) {
  if (CLS <= 2) __CPROVER_assert(nv_wf_small(&V1) || V1.count < n_minsize(CLS), "node well-formed afterwards (keys strictly ascending, live slots non-null, count in range)");
  else { __CPROVER_assert(nv_wf_at(&V1, Q) && nv_wf_at(&V1, IN_b) && NV_PREFIX_LEN(&V1) <= 7, "node well-formed afterwards (instances at the witness and at the touched key byte)"); }
}
void h_add(void) {
  uint8_t *o = MK_NODE(NODE_T, CLS);
  Q = nondet_u8(); __CPROVER_assume(nv_wf_at(&V0, Q));
  unsigned cnt = nv_count(&V0); __CPROVER_assume(cnt < n_capacity(CLS));           /* not full */
  if (CLS == 3) { for (int j = 0; j < 48; j++) { G_owner[j] = nondet_u8(); G_used[j] = nondet_bool(); } __CPROVER_assume(nv_wf_48_full(&V0, G_owner, G_used)); }
  uint8_t *leaf = mk_leaf(8);
  IN_depth = nondet_u32(); __CPROVER_assume(IN_depth < 8);
  IN_b = leaf[NLAY(POL, LEAF, DATA) + IN_depth];
  __CPROVER_assume(nv_child(&V0, IN_b) == 0 && nv_wf_at(&V0, IN_b));               /* key byte absent */
  uint8_t up[LAY_LEAFUP_SIZE]; *(uint8_t **)(up + LAY_LEAFUP_PTR) = leaf; *(void **)(up + LAY_LEAFUP_DB) = nondet_ptr();
  ADD((ADD_a0)o, (ADD_a1)up, IN_depth, V0.count);
  nv_load(&V1, o, CLS);
  __CPROVER_assert(!verif_exc_pending && G_frees == 0 && G_del_calls == 0, "add_to_nonfull neither throws nor releases anything");
  __CPROVER_assert(*(uint8_t **)(up + LAY_LEAFUP_PTR) == 0, "the leaf's ownership moved into the node (unique_ptr released)");
  __CPROVER_assert(nv_child(&V1, Q) == (Q == IN_b ? (uint64_t)(uintptr_t)leaf : nv_child(&V0, Q)), "C01: view' = view[b -> leaf]: the new key byte maps to the leaf, every other key byte is unchanged");
  __CPROVER_assert(nv_count(&V1) == cnt + 1 && V1.prefix == V0.prefix, "C10: count' = count + 1, key prefix untouched");
  post_wf();
  VERIF_CANARY("add_to_nonfull returns");
}
void h_remove(void) {
  uint8_t *o = MK_NODE(NODE_T, CLS);
  Q = nondet_u8(); __CPROVER_assume(nv_wf_at(&V0, Q));
  unsigned cnt = nv_count(&V0); __CPROVER_assume(cnt > n_minsize(CLS));             /* the caller shrinks instead at min_size */
  IN_h = nondet_u8(); __CPROVER_assume(nv_hvalid(&V0, IN_h) && nv_wf_at(&V0, IN_h));
  IN_b = nv_hkey(&V0, IN_h);
  if (CLS == 3) __CPROVER_assume(Q == IN_b || V0.keys[Q] == N48_EMPTY || V0.keys[Q] != V0.keys[IN_b]);   /* N48 well-formedness, instance (Q, b): distinct key bytes use distinct slots */
  uint8_t *leaf = mk_leaf(8);
  *(uint64_t *)(o + nv_hslot_off(&V0, IN_h)) = (uint64_t)(uintptr_t)leaf;           /* the designated child is this leaf */
  nv_load(&V0, o, CLS);
  uint8_t db[8];
  REMOVE((REMOVE_a0)o, IN_h, (REMOVE_a2)db);
  nv_load(&V1, o, CLS);
  __CPROVER_assert(!verif_exc_pending && G_frees == 0, "remove neither throws nor frees directly");
  __CPROVER_assert(G_del_calls == 1 && G_del_arg == (void *)leaf, "C10: exactly the removed leaf is handed to the leaf deleter, exactly once");
  __CPROVER_assert(nv_child(&V1, Q) == (Q == IN_b ? 0 : nv_child(&V0, Q)), "C01: view' = view minus the removed key byte; every other key byte is unchanged");
  __CPROVER_assert(nv_count(&V1) == cnt - 1 && V1.prefix == V0.prefix, "C10: count' = count - 1, key prefix untouched");
  post_wf();
  VERIF_CANARY("remove returns");
}
