# C01 / C02 / C10 / C16: node-level contracts, all four inner-node classes
import re
SPAN = r'std::span<std::byte const, \d+ul>'
KEYS = {'64': 'unsigned long', 'KV': SPAN}
def node_rx(n, key, db):   # prefix matching members of basic_inode_<n> of one policy instantiation
    return r'^unodb::detail::basic_inode_%d<unodb::detail::basic_art_policy<%s, %s, unodb::%s, .*>::' % (n, KEYS[key], SPAN, db)
CLSN = {1: 4, 2: 16, 3: 48, 4: 256}
READ = {'FIND_CHILD': r'find_child\(std::byte\)', 'GET_CHILD': r'get_child\(unsigned char\)', 'BEGIN': r'begin\(\)', 'LAST': r'last\(\)', 'NEXT': r'next\(unsigned char\)',
        'PRIOR': r'prior\(unsigned char\)', 'GTE': r'gte_key_byte\(std::byte\)', 'LTE': r'lte_key_byte\(std::byte\)'}
CFG_NODE = (BASE, DEBUG, 'sse41-stats-ndebug-pause', 'sse41-stats-debug-pause')
for cls, n in CLSN.items():
    for h, alias in (('h_find_child', 'FIND_CHILD'), ('h_get_child', 'GET_CHILD'), ('h_begin', 'BEGIN'), ('h_last', 'LAST'), ('h_next', 'NEXT'), ('h_prior', 'PRIOR'), ('h_gte', 'GTE'), ('h_lte', 'LTE')):
        job('node.db64.i%d.%s' % (n, h[2:]), ['C02', 'C16'] + (['C01'] if h in ('h_find_child', 'h_get_child') else []), 'u_db', 'proofs/node/read.c', entry=h,
            defines=['CLS=%d' % cls, 'POL=DB64'], roots={a: node_rx(n, '64', 'db') + rx for a, rx in READ.items()}, cfgs=CFG_NODE, thorough_cfgs=ALL_CFGS,
            unwind={1: 6, 2: 18, 3: 258, 4: 258}[cls], floor=10, cut=(['%s/for_2econd' % a for a in ('BEGIN', 'LAST', 'NEXT', 'PRIOR', 'GTE', 'LTE')] if cls >= 3 else []), timeout=900, under_contract=['basic_inode_%d<db, uint64_t>::%s' % (n, READ[alias].split('\\')[0])])
LEAFDEL = {'64': r'^unodb::detail::basic_db_leaf_deleter<unodb::db<unsigned long, .*::operator\(\)'}
for cls, n in CLSN.items():
    for h in ('h_add', 'h_remove'):
        job('node.db64.i%d.%s' % (n, h[2:]), ['C01', 'C10', 'C16'], 'u_db', 'proofs/node/write.c', entry=h, defines=['CLS=%d' % cls, 'POL=DB64'],
            roots={'ADD': node_rx(n, '64', 'db') + r'add_to_nonfull\(', 'REMOVE': node_rx(n, '64', 'db') + r'remove\(unsigned char'}, stubs={'LEAF_DEL': LEAFDEL['64']},
            cfgs=CFG_NODE, thorough_cfgs=ALL_CFGS, unwind={1: 6, 2: 18, 3: 258, 4: 258}[cls], unwindset=({'ADD': 8} if cls == 3 else None), floor=10, timeout=1500, mem_gb=(28 if cls == 3 else 12),
            under_contract=['basic_inode_%d<db, uint64_t>::%s' % (n, 'add_to_nonfull' if h == 'h_add' else 'remove')])
KP = r'^unodb::detail::key_prefix<unodb::detail::basic_art_key<unsigned long>, unodb::detail::basic_inode_impl<unodb::detail::basic_art_policy<unsigned long, %s, unodb::db, .*::' % SPAN
KPR = {'CUT': KP + r'cut\(unsigned char\)', 'PREPEND': KP + r'prepend\(', 'GSL': KP + r'get_shared_length\(unsigned long\) const', 'CTOR_LEN': KP + r'key_prefix\(unsigned int, ',
       'SNAPSHOT': KP + r'get_snapshot\(\) const', 'SNAP_GSL': r'^unodb::detail::key_prefix_snapshot::get_shared_length\(unsigned long\) const', 'SNAP_LEN': r'^unodb::detail::key_prefix_snapshot::length\(\) const'}
for h in ('h_cut', 'h_prepend', 'h_shared', 'h_ctor_len', 'h_snapshot'):
    job('node.db64.prefix.%s' % h[2:], ['C01', 'C16'] + (['C02'] if h == 'h_snapshot' else []), 'u_db', 'proofs/node/prefix.c', entry=h, roots=KPR, cfgs=(BASE, DEBUG), floor=5, timeout=300,
        under_contract=['key_prefix<db,uint64_t>::%s' % h[2:]], replay='replay/prefix.cpp')
INODEDEL = r'^unodb::detail::basic_db_inode_deleter<unodb::detail::inode_%%d<unsigned long, %s >, unodb::db<unsigned long, %s > >::operator\(\)' % (SPAN, SPAN)
for frm, to in ((1, 2), (2, 3), (3, 4), (2, 1), (3, 2), (4, 3)):
    nf, nt = CLSN[frm], CLSN[to]
    ctor = node_rx(nt, '64', 'db') + r'basic_inode_%d\(unodb::db<unsigned long, %s >&, unodb::detail::inode_%d<unsigned long, %s >&, %s' % (nt, SPAN, nf, SPAN, 'std::unique_ptr' if to > frm else 'unsigned char')
    heavy = (frm, to) in ((3, 2), (3, 4), (4, 3))      # 256-step copy loops: closed by loop invariants over a ghost rank array (ctor.c, COPY ROUTINES); every user assertion in its own sliced back-end call
    job('node.db64.ctor.i%d_to_i%d' % (nf, nt), ['C01', 'C10', 'C16'], 'u_db', 'proofs/node/ctor.c', defines=['FROM=%d' % frm, 'TO=%d' % to, 'POL=DB64'],
        roots=dict({'CTOR': ctor, 'SRC_FIND': node_rx(nf, '64', 'db') + r'find_child\(std::byte\)', 'DST_FIND': node_rx(nt, '64', 'db') + r'find_child\(std::byte\)'},
                   **({'INIT': node_rx(nt, '64', 'db') + r'init\(unodb::db<[^()]*>&, unodb::detail::inode_%d<[^()]*>&, %s' % (nf, 'std::unique_ptr' if to > frm else r'unsigned char\)')} if heavy else {})),
        stubs={'LEAF_DEL': LEAFDEL['64'], 'INODE_DEL': INODEDEL % nf}, cfgs=((BASE, DEBUG) if heavy else CFG_NODE), thorough_cfgs=ALL_CFGS, unwind=258 if max(frm, to) >= 3 else 20, floor=10, timeout=(7200 if heavy else 1200),
        cut=({(3, 4): ['INIT/while_2econd', 'INIT/for_2econd'], (4, 3): ['INIT/for_2econd'], (3, 2): ['INIT/while_2econd']}.get((frm, to), [])), split=(10 if heavy else 0),
        under_contract=['basic_inode_%d<db, uint64_t>::basic_inode_%d(db&, inode_%d&, ...) + init (%s)' % (nt, nt, nf, 'growth' if to > frm else 'shrink')],
        trusted=(['counting form of the source invariant: the number of key bytes the routine copies equals count (N48: pigeonhole over the slot bijection), stated through the ghost rank array', 'pointwise (witness) form of the loop invariant after element-wise havoc of the destination arrays'] if heavy else []))

# ---- the same node-level contracts on the OLC instantiation (olc_db policy: lock word in the node header, relaxed-atomic fields run sequentially)
def onode_rx(n): return r'^unodb::detail::(basic_inode_%d<unodb::detail::basic_art_policy<unsigned long, %s, unodb::olc_db, .*>|olc_inode_%d<unsigned long, %s >)::' % (n, SPAN, n, SPAN)
CFG_OLC = (BASE, DEBUG)
for cls, n in CLSN.items():
    for h, alias in (('h_find_child', 'FIND_CHILD'), ('h_get_child', 'GET_CHILD'), ('h_begin', 'BEGIN'), ('h_last', 'LAST'), ('h_next', 'NEXT'), ('h_prior', 'PRIOR'), ('h_gte', 'GTE'), ('h_lte', 'LTE')):
        job('node.olc64.i%d.%s' % (n, h[2:]), ['C02', 'C16'] + (['C01'] if h in ('h_find_child', 'h_get_child') else []), 'u_olc', 'proofs/node/read.c', entry=h,
            defines=['CLS=%d' % cls, 'POL=OLC64'], roots={a: ((r'^unodb::detail::olc_inode_16<unsigned long, %s >::' % SPAN) if (n == 16 and a == 'FIND_CHILD') else onode_rx(n)) + rx for a, rx in READ.items()}, cfgs=CFG_OLC, thorough_cfgs=ALL_CFGS,
            unwind={1: 6, 2: 18, 3: 258, 4: 258}[cls], floor=10, cut=(['%s/for_2econd' % a for a in ('BEGIN', 'LAST', 'NEXT', 'PRIOR', 'GTE', 'LTE')] if cls >= 3 else []), timeout=900,
            under_contract=['basic_inode_%d<olc_db, uint64_t>::%s' % (n, READ[alias].split('\\')[0])])
# ---- byte-string keys: the two-leaf N4 constructor used by the leaf split (C01; isolates the pinned-tree defect for keys sharing more than 7 bytes past the split depth)
job('node.dbkv.i4.two_leaves', ['C01'], 'u_db', 'proofs/node/kv_split.c', defines=['POL=DBKV'],
    roots={'KV_CTOR': node_rx(4, 'KV', 'db') + r'basic_inode_4\(unodb::db<[^()]*>&, %s, unodb::detail::basic_art_key<' % SPAN},
    stubs={'TAG_PTR?': r'^unodb::detail::basic_node_ptr<unodb::detail::node_header>::tag_ptr\(', 'LEAF_DEL?': r'^unodb::detail::basic_db_leaf_deleter<unodb::db<%s, .*::operator\(\)' % SPAN},
    cfgs=(BASE, DEBUG), unwind=30, floor=5, timeout=600, replay='replay/known_c01_kv_long_prefix_scenario.cpp',
    under_contract=['basic_inode_4<db, key_view>::basic_inode_4(db&, key_view k1, art_key shifted_k2, depth, leaf*, leaf unique_ptr&&) (two-leaf split node)', 'key_prefix<key_view>::key_prefix(k1, shifted_k2, depth)', 'add_two_to_empty'],
    trusted=['node_ptr as an abstract data type'])

# ---- the three copy routines on the OLC instantiation (header-only constructor + init, as olc_db composes them); same harness, same loop invariants
OLC_LEAFDEL = r'^unodb::detail::db_leaf_qsbr_deleter<unodb::olc_db<unsigned long, .*::operator\(\)'
OLC_INODEDEL = r'^unodb::detail::db_inode_qsbr_deleter<unsigned long, %s, unodb::detail::olc_inode_%%d<unsigned long, %s > >::operator\(\)' % (SPAN, SPAN)
def ofind_rx(n): return ((r'^unodb::detail::olc_inode_16<unsigned long, %s >::' % SPAN) if n == 16 else onode_rx(n)) + r'find_child\(std::byte\)'
for frm, to in ((3, 4), (3, 2), (4, 3)):
    nf, nt = CLSN[frm], CLSN[to]
    job('node.olc64.ctor.i%d_to_i%d' % (nf, nt), ['C01', 'C10', 'C16'], 'u_olc', 'proofs/node/ctor.c', defines=['FROM=%d' % frm, 'TO=%d' % to, 'POL=OLC64', 'OLC_SPLIT_CTOR=1'],
        roots={'HDR': onode_rx(nt) + r'basic_inode_%d\(unodb::olc_db<[^()]*>&, unodb::detail::olc_inode_%d<[^()]*> const&\)' % (nt, nf),
               'INIT': onode_rx(nt) + r'init\(unodb::olc_db<[^()]*>&, unodb::detail::olc_inode_%d<[^()]*>&, %s' % (nf, 'std::unique_ptr' if to > frm else r'unsigned char\)'),
               'SRC_FIND': ofind_rx(nf), 'DST_FIND': ofind_rx(nt)},
        stubs={'LEAF_DEL': OLC_LEAFDEL, 'INODE_DEL': OLC_INODEDEL % nf}, cfgs=(BASE, DEBUG), thorough_cfgs=ALL_CFGS, unwind=258, floor=10, timeout=7200,
        cut={(3, 4): ['INIT/while_2econd', 'INIT/for_2econd'], (4, 3): ['INIT/for_2econd'], (3, 2): ['INIT/while_2econd']}[(frm, to)], split=10,
        under_contract=['basic_inode_%d<olc_db, uint64_t>: header constructor + init from inode_%d (%s), as composed by olc_db' % (nt, nf, 'growth' if to > frm else 'shrink')],
        trusted=['counting form of the source invariant (ghost rank array)', 'pointwise (witness) form of the loop invariant after element-wise havoc of the destination arrays', 'relaxed-atomic fields run sequentially'])
