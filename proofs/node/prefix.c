/* C01: contracts of the REAL key_prefix / key_prefix_snapshot members against the byte-sequence view (spec_prefix.h).  Full domain: every
 * prefix word (stale bytes beyond the length are arbitrary), every key, every argument; universally quantified byte positions through the
 * ghost witness index J.
 *   cut(n)              requires 0 < n <= len        ensures len' = len - n, byte'[i] = byte[i+n] (i < len')
 *   prepend(p1, b)      requires len + len1 + 1 <= 7 ensures the prefix becomes  p1 ++ [b] ++ old,  p1 untouched
 *   get_shared_length(k) = number of leading bytes on which the key agrees with the prefix, at most len
 *   key_prefix(k1, shifted_k2, depth) = the bytes k1[depth ..] up to the first difference with k2, at most 7 (capacity)
 *   key_prefix(len, src) = the first len bytes of src;   copy ctor, get_snapshot, length, operator[] are projections */
#include "x_types.h"
#include "x_body.h"
#include "verif_models.h"
#include "spec_prefix.h"
#define VERIF_CANARY(name) __CPROVER_assert(0, "canary: " name)
typedef CUT_a0 kp_p;
uint64_t IN_w, IN_w1, IN_k; uint8_t IN_n, IN_b;
static unsigned J;
static kp_p mk(uint64_t w) { kp_p p = malloc(8); __CPROVER_assume(p != 0); *(uint64_t *)p = w; return p; }
void h_cut(void) {
  IN_w = nondet_u64(); __CPROVER_assume(kp_wf(IN_w)); J = nondet_uint(); IN_n = nondet_u8(); __CPROVER_assume(IN_n > 0 && IN_n <= kp_len(IN_w));
  kp_p a = mk(IN_w); CUT(a, IN_n); uint64_t r = *(uint64_t *)a;
  __CPROVER_assert(kp_len(r) == kp_len(IN_w) - IN_n, "C01 cut: length' = length - n");
  if (J < kp_len(r)) __CPROVER_assert(kp_byte(r, J) == kp_byte(IN_w, J + IN_n), "C01 cut: byte'[J] = byte[J + n]");
  VERIF_CANARY("cut returns");
}
void h_prepend(void) {
  IN_w = nondet_u64(); IN_w1 = nondet_u64(); IN_b = nondet_u8(); J = nondet_uint();
  __CPROVER_assume(kp_wf(IN_w) && kp_wf(IN_w1) && kp_len(IN_w) + kp_len(IN_w1) + 1 <= 7);
  kp_p a = mk(IN_w), p1 = mk(IN_w1); PREPEND(a, (PREPEND_a1)p1, IN_b); uint64_t r = *(uint64_t *)a; unsigned l1 = kp_len(IN_w1);
  __CPROVER_assert(kp_len(r) == kp_len(IN_w) + l1 + 1, "C01 prepend: length' = length + length1 + 1");
  if (J < l1) __CPROVER_assert(kp_byte(r, J) == kp_byte(IN_w1, J), "C01 prepend: the parent's prefix comes first");
  else if (J == l1) __CPROVER_assert(kp_byte(r, J) == IN_b, "C01 prepend: then the key byte of the collapsed slot");
  else if (J < kp_len(r)) __CPROVER_assert(kp_byte(r, J) == kp_byte(IN_w, J - l1 - 1), "C01 prepend: then the node's old prefix");
  __CPROVER_assert(*(uint64_t *)p1 == IN_w1, "prepend: the source prefix is not modified");
  VERIF_CANARY("prepend returns");
}
void h_shared(void) {
  IN_w = nondet_u64(); IN_k = nondet_u64(); J = nondet_uint(); __CPROVER_assume(kp_wf(IN_w));
  kp_p a = mk(IN_w); uint32_t s = GSL(a, IN_k);
  __CPROVER_assert(s <= kp_len(IN_w), "C01 get_shared_length: never exceeds the prefix length");
  if (J < s) __CPROVER_assert(kp_byte(IN_k, J) == kp_byte(IN_w, J), "C01 get_shared_length: the key agrees with the prefix on every byte below the result");
  if (s < kp_len(IN_w)) __CPROVER_assert(kp_byte(IN_k, s) != kp_byte(IN_w, s), "C01 get_shared_length: and differs at the result if that is inside the prefix");
  __CPROVER_assert(*(uint64_t *)a == IN_w, "get_shared_length: pure");
  VERIF_CANARY("get_shared_length returns");
}
void h_ctor_len(void) {
  IN_w = nondet_u64(); J = nondet_uint(); unsigned len = nondet_uint(); __CPROVER_assume(kp_wf(IN_w) && len <= 7);
  kp_p src = mk(IN_w), a = mk(nondet_u64()); CTOR_LEN(a, len, (CTOR_LEN_a2)src); uint64_t r = *(uint64_t *)a;
  __CPROVER_assert(kp_len(r) == len, "C01 key_prefix(len, src): length = len");
  if (J < len) __CPROVER_assert(kp_byte(r, J) == kp_byte(IN_w, J), "C01 key_prefix(len, src): bytes copied from the source");
  VERIF_CANARY("key_prefix(len, src) returns");
}
void h_snapshot(void) {
  IN_w = nondet_u64(); IN_k = nondet_u64(); J = nondet_uint(); __CPROVER_assume(kp_wf(IN_w));
  kp_p a = mk(IN_w); uint64_t sn = SNAPSHOT(a);
  __CPROVER_assert(sn == IN_w, "get_snapshot: the whole prefix word in one read");
  uint64_t snobj = sn; uint32_t s = SNAP_GSL((SNAP_GSL_a0)&snobj, IN_k);
  __CPROVER_assert(s <= kp_len(IN_w), "C02 snapshot.get_shared_length: never exceeds the prefix length");
  if (J < s) __CPROVER_assert(kp_byte(IN_k, J) == kp_byte(IN_w, J), "C02 snapshot.get_shared_length: agreement below the result");
  if (s < kp_len(IN_w)) __CPROVER_assert(kp_byte(IN_k, s) != kp_byte(IN_w, s), "C02 snapshot.get_shared_length: difference at the result");
  __CPROVER_assert(SNAP_LEN((SNAP_LEN_a0)&snobj) == kp_len(IN_w), "snapshot.length");
  VERIF_CANARY("snapshot members return");
}
