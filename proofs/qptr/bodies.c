/* C17, second half ("in assertion-enabled builds a thread's quiescent state, pause or resume is rejected precisely when at least one non-null wrapper
 * created on that thread is still alive, and accepted otherwise"): the REAL bodies of qsbr_per_thread::quiescent / qsbr_pause / qsbr_resume
 * (assertion-enabled extraction).  The registry invariant (registry size == number of live non-null wrappers) is proved in qptr.* / qptr.registry.*;
 * here std::unordered_multiset::empty() is replaced by its contract over that ghost size, every other callee by a recording stub, and the library's
 * assertion hook RECORDS which assertion fired instead of being an obligation:
 *   requires  the paused flag is what the function documents (quiescent / pause: not paused; resume: paused)
 *   ensures   the assertion `active_ptrs.empty()` fires  <=>  the registry is non-empty;
 *             when it fires NOTHING has happened yet: no callee ran (no epoch advance, no (un)registration, no allocation), the object is unchanged;
 *             when the registry is empty neither it nor the paused-flag assertion fires (the call is accepted and goes on to its protocol work). */
#include "x_types.h"
static int G_fired_registry, G_fired_paused, G_fired_other; static unsigned G_effects;
static void fired_(const char *t) {
  const char r[] = "active_ptrs.empty()"; _Bool isr = 1; for (unsigned i = 0; i < sizeof r; i++) if (t[i] != r[i]) { isr = 0; break; }
  if (isr) { G_fired_registry++; return; }
  if ((t[0] == '!' && t[1] == 'p' && t[2] == 'a' && t[7] == 0) || (t[0] == 'p' && t[1] == 'a' && t[6] == 0)) { G_fired_paused++; return; }
  G_fired_other++; }
#undef VERIF_ASSERT_FAIL
#define VERIF_ASSERT_FAIL(text, line) fired_(text)
#include "x_body.h"
#include "verif_models.h"
#include "layout.h"
#define VERIF_CANARY(name) __CPROVER_assert(0, "canary: " name)
static uint64_t CNT; static uint8_t *G_t; static uint8_t G_qsbr_obj[1024];
_Bool MS_EMPTY(MS_EMPTY_a0 self) { __CPROVER_assert((uint8_t *)self == G_t + LAY_PERTHREAD_ACTIVE_PTRS, "empty() of this thread's registry"); return CNT == 0; }
QSBR_INSTANCE_ret QSBR_INSTANCE(void) { return (QSBR_INSTANCE_ret)G_qsbr_obj; }
#ifdef HAVE_ADVANCE
void ADVANCE(ADVANCE_a0 self, ADVANCE_a1 single, ADVANCE_a2 epoch, ADVANCE_a3 vec) { G_effects++; }
#endif
#ifdef HAVE_EXEC_PREV
void EXEC_PREV(EXEC_PREV_a0 self, EXEC_PREV_a1 single, EXEC_PREV_a2 epoch, EXEC_PREV_a3 vec) { G_effects++; }
#endif
#ifdef HAVE_REG_STATS
void REG_STATS(REG_STATS_a0 self, REG_STATS_a1 n) { G_effects++; }
#endif
uint8_t X__ZN5unodb4qsbr33remove_thread_from_previous_epochENS_10qsbr_epochES1_(QSBR_INSTANCE_ret self, uint8_t a, uint8_t b) { G_effects++; uint8_t e = nondet_u8(); __CPROVER_assume(e <= 3); return e; }
void X__ZN5unodb4qsbr17unregister_threadEmNS_10qsbr_epochERNS_15qsbr_per_threadE(QSBR_INSTANCE_ret self, uint64_t q, uint8_t e, void *t) { G_effects++; }
uint8_t X__ZN5unodb4qsbr15register_threadEv(QSBR_INSTANCE_ret self) { G_effects++; uint8_t e = nondet_u8(); __CPROVER_assume(e <= 3); return e; }
uint8_t *X__Znwm(uint64_t n) { G_effects++; uint8_t *p = malloc(n); __CPROVER_assume(p != 0); return p; }
void X__ZdlPv(uint8_t *p) { G_effects++; free(p); }
void harness(void) {
  uint8_t *t = calloc(1, LAY_PT_SIZE); __CPROVER_assume(t != 0); G_t = t;
  CNT = nondet_u64();
  *(uint8_t *)(t + LAY_PT_LSQE) = nondet_u8() & 3; *(uint8_t *)(t + LAY_PT_LSE) = nondet_u8() & 3; *(uint64_t *)(t + LAY_PT_QSTATES) = nondet_u64();
  *(uint64_t *)(G_qsbr_obj + LAY_QSBR_STATE) = nondet_u64();
#ifdef FN_RESUME
  *(uint8_t *)(t + LAY_PT_PAUSED) = 1;
#endif
  uint8_t img0[LAY_PT_SIZE]; __CPROVER_array_copy(img0, t);
  FN((FN_a0)t);
  __CPROVER_assert((G_fired_registry != 0) == (CNT != 0), "C17: the registry-empty assertion fires precisely when a non-null wrapper of this thread is still alive");
  __CPROVER_assert(G_fired_paused == 0, "the paused-flag precondition assertion stays silent under the documented precondition");
  if (CNT != 0) {
    _Bool same = 1; for (unsigned i = 0; i < LAY_PT_SIZE; i++) if (t[i] != img0[i]) same = 0;
    __CPROVER_assert(G_fired_registry == 1 && G_effects == 0 && same, "C17: the call is rejected before anything happened (no callee ran, the per-thread object is unchanged)");
    VERIF_CANARY("rejected call reachable");
  } else {
    __CPROVER_assert(G_effects >= 1, "C17: with an empty registry the call is accepted and goes on to its protocol work");
    VERIF_CANARY("accepted call reachable");
  }
}
