/* C17: every member of the REAL qsbr_ptr<const std::byte> / qsbr_ptr_span<const std::byte>.
 * (1) raw-pointer equivalence: each result equals the corresponding operation on the wrapped raw pointer (all pointers into a buffer, null incl.)
 * (2) liveness tracking (assertion-enabled extraction): qsbr_ptr_base::register/unregister_active_ptr are replaced by a ghost registry; for an
 *     ARBITRARY witness address A the invariant   registry(A) == number of live wrappers holding A (non-null) + E   (E = wrappers elsewhere)
 *     is preserved by every operation, over all live wrappers incl. returned temporaries; unregister is only ever called for a registered address.
 *     Hence the registry is empty iff no non-null wrapper is alive.   NDEBUG extraction: the registry functions are never called (frame). */
#include "x_types.h"
#include "x_body.h"
#include "verif_models.h"
#define VERIF_CANARY(name) __CPROVER_assert(0, "canary: " name)
static const uint8_t *A; static int64_t REG; static unsigned G_calls;     /* ghost registry count for the witness address */
#ifndef VERIF_CFG_NDEBUG
void REGISTER(REGISTER_a0 p) { G_calls++; if (p != 0 && (const uint8_t *)p == A) REG++; }
void UNREGISTER(UNREGISTER_a0 p) { G_calls++;
  if (p != 0 && (const uint8_t *)p == A) { __CPROVER_assert(REG > 0, "C17: unregister only of an address that is registered"); REG--; } }
#endif
static uint8_t *BUF; static uint64_t N; int64_t IN_i1, IN_i2, IN_n, IN_E; _Bool IN_null1, IN_null2;
static const uint8_t *P1, *P2;
typedef struct { const uint8_t *p; } W;         /* a wrapper object: exactly one pointer */
static int64_t live(const uint8_t *p) { return (p != 0 && p == A) ? 1 : 0; }
static W w1, w2, res;
static void setup(void) {
  N = nondet_u64(); __CPROVER_assume(N >= 1 && N <= (1ULL << 20)); BUF = malloc(N); __CPROVER_assume(BUF != 0);
  IN_i1 = nondet_u64(); IN_i2 = nondet_u64(); IN_n = nondet_u64(); __CPROVER_assume(IN_i1 >= 0 && IN_i1 <= (int64_t)N && IN_i2 >= 0 && IN_i2 <= (int64_t)N);
  IN_null1 = nondet_bool(); IN_null2 = nondet_bool();
  P1 = IN_null1 ? 0 : BUF + IN_i1; P2 = IN_null2 ? 0 : BUF + IN_i2; w1.p = P1; w2.p = P2; res.p = 0;
  int64_t ai = nondet_u64(); __CPROVER_assume(ai >= 0 && ai <= (int64_t)N); A = BUF + ai;
  IN_E = nondet_u64(); __CPROVER_assume(IN_E >= 0 && IN_E < (1LL << 40));
  REG = live(w1.p) + live(w2.p) + IN_E;            /* invariant holds initially for the two live wrappers */
  __CPROVER_assert(sizeof(W) == sizeof(*(GET_a0)0), "a wrapper is exactly one pointer");
}
#ifdef VERIF_CFG_NDEBUG
#define INV(expr) __CPROVER_assert(G_calls == 0, "NDEBUG: no registry traffic")
#else
#define INV(expr) __CPROVER_assert(REG == (expr) + IN_E, "C17: registry(A) == number of live non-null wrappers holding A")
#endif
#define IDX_OK(i) ((i) >= 0 && (i) <= (int64_t)N)
void h_ctor(void) { setup(); W r; CTOR_P((CTOR_P_a0)&r, (CTOR_P_a1)P1); __CPROVER_assert(r.p == P1, "qsbr_ptr(p).get() == p"); INV(live(w1.p) + live(w2.p) + live(r.p)); VERIF_CANARY("ctor"); }
void h_copy(void) { setup(); W r; CTOR_COPY((CTOR_COPY_a0)&r, (CTOR_COPY_a1)&w1); __CPROVER_assert(r.p == P1 && w1.p == P1, "copy: both hold the pointer"); INV(live(w1.p) + live(w2.p) + live(r.p)); VERIF_CANARY("copy"); }
void h_move(void) { setup(); W r; CTOR_MOVE((CTOR_MOVE_a0)&r, (CTOR_MOVE_a1)&w1); __CPROVER_assert(r.p == P1 && w1.p == 0, "move: the source is left null"); INV(live(w1.p) + live(w2.p) + live(r.p)); VERIF_CANARY("move"); }
void h_dtor(void) { setup(); DTOR((DTOR_a0)&w1); INV(live(w2.p)); VERIF_CANARY("dtor"); }
void h_assign_copy(void) { setup(); _Bool self = nondet_bool(); ASSIGN_COPY_ret r = ASSIGN_COPY((ASSIGN_COPY_a0)&w1, (ASSIGN_COPY_a1)(self ? &w1 : &w2)); __CPROVER_assert((void *)r == (void *)&w1 && w1.p == (self ? P1 : P2) && w2.p == P2, "copy assignment (self-assignment included)"); INV(live(w1.p) + live(w2.p)); VERIF_CANARY("assign copy"); }
void h_assign_move(void) { setup(); ASSIGN_MOVE_ret r = ASSIGN_MOVE((ASSIGN_MOVE_a0)&w1, (ASSIGN_MOVE_a1)&w2); __CPROVER_assert((void *)r == (void *)&w1 && w1.p == P2 && w2.p == 0, "move assignment between distinct objects"); INV(live(w1.p) + live(w2.p)); VERIF_CANARY("assign move"); }
void h_deref(void) { setup(); __CPROVER_assume(!IN_null1 && IN_i1 < (int64_t)N && IN_i1 + IN_n >= 0 && IN_i1 + IN_n < (int64_t)N);
  __CPROVER_assert((const uint8_t *)DEREF((DEREF_a0)&w1) == P1 && (const uint8_t *)INDEX((INDEX_a0)&w1, IN_n) == P1 + IN_n && (const uint8_t *)ARROW((ARROW_a0)&w1) == P1 && (const uint8_t *)GET((GET_a0)&w1) == P1, "*, [], ->, get() designate the same bytes as the raw pointer"); INV(live(w1.p) + live(w2.p)); VERIF_CANARY("deref"); }
void h_preinc(void) { setup(); __CPROVER_assume(!IN_null1 && IN_i1 < (int64_t)N); PREINC_ret r = PREINC((PREINC_a0)&w1); __CPROVER_assert((void *)r == (void *)&w1 && w1.p == P1 + 1, "++p"); INV(live(w1.p) + live(w2.p)); VERIF_CANARY("preinc"); }
void h_postinc(void) { setup(); __CPROVER_assume(!IN_null1 && IN_i1 < (int64_t)N); POSTINC((POSTINC_a0)&res, (POSTINC_a1)&w1, 0); __CPROVER_assert(res.p == P1 && w1.p == P1 + 1, "p++ returns the old value"); INV(live(w1.p) + live(w2.p) + live(res.p)); VERIF_CANARY("postinc"); }
void h_predec(void) { setup(); __CPROVER_assume(!IN_null1 && IN_i1 > 0); PREDEC_ret r = PREDEC((PREDEC_a0)&w1); __CPROVER_assert((void *)r == (void *)&w1 && w1.p == P1 - 1, "--p"); INV(live(w1.p) + live(w2.p)); VERIF_CANARY("predec"); }
void h_postdec(void) { setup(); __CPROVER_assume(!IN_null1 && IN_i1 > 0); POSTDEC((POSTDEC_a0)&res, (POSTDEC_a1)&w1, 0); __CPROVER_assert(res.p == P1 && w1.p == P1 - 1, "p-- returns the old value"); INV(live(w1.p) + live(w2.p) + live(res.p)); VERIF_CANARY("postdec"); }
void h_addeq(void) { setup(); __CPROVER_assume(!IN_null1 && IDX_OK(IN_i1 + IN_n) && IN_n > -(1LL << 30) && IN_n < (1LL << 30)); ADDEQ_ret r = ADDEQ((ADDEQ_a0)&w1, IN_n); __CPROVER_assert((void *)r == (void *)&w1 && w1.p == P1 + IN_n, "p += n"); INV(live(w1.p) + live(w2.p)); VERIF_CANARY("addeq"); }
void h_subeq(void) { setup(); __CPROVER_assume(!IN_null1 && IDX_OK(IN_i1 - IN_n) && IN_n > -(1LL << 30) && IN_n < (1LL << 30)); SUBEQ_ret r = SUBEQ((SUBEQ_a0)&w1, IN_n); __CPROVER_assert((void *)r == (void *)&w1 && w1.p == P1 - IN_n, "p -= n"); INV(live(w1.p) + live(w2.p)); VERIF_CANARY("subeq"); }
void h_add(void) { setup(); __CPROVER_assume(!IN_null1 && IDX_OK(IN_i1 + IN_n) && IN_n > -(1LL << 30) && IN_n < (1LL << 30)); ADD((ADD_a0)&res, (ADD_a1)&w1, IN_n); __CPROVER_assert(res.p == P1 + IN_n && w1.p == P1, "p + n leaves p alone"); INV(live(w1.p) + live(w2.p) + live(res.p)); VERIF_CANARY("add"); }
void h_sub(void) { setup(); __CPROVER_assume(!IN_null1 && IDX_OK(IN_i1 - IN_n) && IN_n > -(1LL << 30) && IN_n < (1LL << 30)); SUB((SUB_a0)&res, (SUB_a1)&w1, IN_n); __CPROVER_assert(res.p == P1 - IN_n && w1.p == P1, "p - n leaves p alone"); INV(live(w1.p) + live(w2.p) + live(res.p)); VERIF_CANARY("sub"); }
void h_friend_add(void) { setup(); __CPROVER_assume(!IN_null1 && IDX_OK(IN_i1 + IN_n) && IN_n > -(1LL << 30) && IN_n < (1LL << 30)); FRIEND_ADD((FRIEND_ADD_a0)&res, IN_n, (FRIEND_ADD_a2)&w1); __CPROVER_assert(res.p == P1 + IN_n && w1.p == P1, "n + p"); INV(live(w1.p) + live(w2.p) + live(res.p)); VERIF_CANARY("friend add"); }
void h_cmp(void) { setup(); __CPROVER_assume(!IN_null1 && !IN_null2);
  __CPROVER_assert((int64_t)DIFF((DIFF_a0)&w1, (DIFF_a1)&w2) == IN_i1 - IN_i2, "p - q is the raw pointer difference");
  __CPROVER_assert(EQ((EQ_a0)&w1, (EQ_a1)&w2) == (IN_i1 == IN_i2) && LE((LE_a0)&w1, (LE_a1)&w2) == (IN_i1 <= IN_i2) && GE((GE_a0)&w1, (GE_a1)&w2) == (IN_i1 >= IN_i2) && LT((LT_a0)&w1, (LT_a1)&w2) == (IN_i1 < IN_i2) && GT((GT_a0)&w1, (GT_a1)&w2) == (IN_i1 > IN_i2), "every comparison has the result of the raw pointer comparison");
  __CPROVER_assert(w1.p == P1 && w2.p == P2, "comparisons modify nothing"); INV(live(w1.p) + live(w2.p)); VERIF_CANARY("cmp"); }
void h_span(void) { setup(); struct { const uint8_t *p; uint64_t n; } sp = {P1, nondet_u64()}; __CPROVER_assume(IN_null1 ? sp.n == 0 : (int64_t)sp.n <= (int64_t)N - IN_i1);
  struct { W start; uint64_t len; } s; SPAN_CTOR((SPAN_CTOR_a0)&s, (SPAN_CTOR_a1)&sp); W b, e; SPAN_BEGIN((SPAN_BEGIN_a0)&b, (SPAN_BEGIN_a1)&s); SPAN_END((SPAN_END_a0)&e, (SPAN_END_a1)&s);
  __CPROVER_assert(b.p == P1 && e.p == P1 + sp.n && SPAN_SIZE((SPAN_SIZE_a0)&s) == sp.n && s.start.p == P1, "qsbr_ptr_span yields the same first element, end and size as the span it was built from");
  INV(live(w1.p) + live(w2.p) + live(s.start.p) + live(b.p) + live(e.p)); VERIF_CANARY("span"); }
