/* C17 liveness registry (assertion-enabled build only): the REAL qsbr_per_thread::register_active_ptr / unregister_active_ptr (qsbr.cpp) and the
 * REAL qsbr_ptr_base::register/unregister_active_ptr (qsbr_ptr.cpp), with std::unordered_multiset replaced by its contract over the ghost count
 * of an arbitrary witness address A:   insert(p): count(p) += 1;  find(p): an iterator to an element equal to p, end() iff count(p) == 0;
 * erase(iterator): removes exactly that one element;  erase(key): removes EVERY element equal to key.
 *   register(p)    requires p != null, thread not paused      ensures count(A) += (p == A)
 *   unregister(p)  requires p registered                        ensures count(A) -= (p == A)   -- exactly one registration is dropped
 *   base wrappers: null is filtered, everything else is forwarded exactly once to the calling thread's registry */
#include "x_types.h"
#include "x_body.h"
#include "verif_models.h"
#include "layout.h"
#define VERIF_CANARY(name) __CPROVER_assert(0, "canary: " name)
static const uint8_t *A; static int64_t CNT_A, CNT_P; const uint8_t *IN_p;   /* ghost: registrations of A and of the argument p */
static void *G_ms;
#ifdef PER_THREAD
#ifdef HAVE_MS_INSERT
MS_INSERT_ret MS_INSERT(MS_INSERT_a0 self, MS_INSERT_a1 key) { __CPROVER_assert((void *)self == G_ms && *key == IN_p, "insert into this thread's registry, of the argument"); CNT_P++; if (IN_p == A) CNT_A++; return (MS_INSERT_ret)1; }
#endif
#ifdef HAVE_MS_FIND
MS_FIND_ret MS_FIND(MS_FIND_a0 self, MS_FIND_a1 key) { __CPROVER_assert(*key == IN_p, "find of the argument"); return (MS_FIND_ret)(uintptr_t)(CNT_P > 0 ? 16 : 0); }
#endif
#ifdef HAVE_MS_END
MS_END_ret MS_END(MS_END_a0 self) { return (MS_END_ret)0; }
#endif
#ifdef HAVE_MS_ERASE_IT
MS_ERASE_IT_ret MS_ERASE_IT(MS_ERASE_IT_a0 self, MS_ERASE_IT_a1 it) { __CPROVER_assert((uintptr_t)it == 16, "erase of the iterator returned by find"); CNT_P--; if (IN_p == A) CNT_A--; return (MS_ERASE_IT_ret)0; }
#endif
#ifdef HAVE_MS_ERASE_KEY
uint64_t MS_ERASE_KEY(MS_ERASE_KEY_a0 self, MS_ERASE_KEY_a1 key) { uint64_t n = (uint64_t)CNT_P; if (*key == A) CNT_A -= CNT_P; CNT_P = 0; return n; }   /* erase by key removes all equal elements */
#endif
_Bool PAUSED(PAUSED_a0 self) { return 0; }
static PT_REG_a0 mk(void) { PT_REG_a0 t = malloc(sizeof(*t)); __CPROVER_assume(t != 0); G_ms = (uint8_t *)t + LAY_PERTHREAD_ACTIVE_PTRS; return t; }
static void setup(void) { IN_p = nondet_ptr(); A = nondet_ptr(); __CPROVER_assume(IN_p != 0 && A != 0); CNT_P = nondet_u64(); __CPROVER_assume(CNT_P >= 0 && CNT_P < (1LL << 40)); CNT_A = (IN_p == A) ? CNT_P : nondet_u64(); __CPROVER_assume(CNT_A >= 0 && CNT_A < (1LL << 40)); }
void h_register(void) { setup(); int64_t a0 = CNT_A; PT_REG(mk(), (PT_REG_a1)IN_p); __CPROVER_assert(CNT_A == a0 + (IN_p == A ? 1 : 0), "C17: register adds exactly one registration of the argument and touches no other address"); VERIF_CANARY("register returns"); }
void h_unregister(void) { setup(); __CPROVER_assume(CNT_P >= 1); int64_t a0 = CNT_A; PT_UNREG(mk(), (PT_UNREG_a1)IN_p);
  __CPROVER_assert(CNT_A == a0 - (IN_p == A ? 1 : 0), "C17: unregister drops exactly ONE registration of the argument (other live wrappers on the same address stay tracked) and touches no other address"); VERIF_CANARY("unregister returns"); }
#else
static unsigned G_fwd; static const void *G_fwd_arg; static uint8_t G_thread[8];
THIS_THREAD_ret THIS_THREAD(void) { return (THIS_THREAD_ret)G_thread; }
void X__ZN5unodb15qsbr_per_thread19register_active_ptrEPKv(void *self, uint8_t *p) { __CPROVER_assert((void *)self == (void *)G_thread, "the calling thread's registry"); G_fwd++; G_fwd_arg = p; }
void X__ZN5unodb15qsbr_per_thread21unregister_active_ptrEPKv(void *self, uint8_t *p) { __CPROVER_assert((void *)self == (void *)G_thread, "the calling thread's registry"); G_fwd += 16; G_fwd_arg = p; }
void h_base(void) { IN_p = nondet_ptr();
  BASE_REG((BASE_REG_a0)IN_p); __CPROVER_assert(IN_p == 0 ? G_fwd == 0 : (G_fwd == 1 && G_fwd_arg == IN_p), "C17: a null wrapper is not tracked; any other address is registered exactly once with this thread");
  G_fwd = 0; BASE_UNREG((BASE_UNREG_a0)IN_p); __CPROVER_assert(IN_p == 0 ? G_fwd == 0 : (G_fwd == 16 && G_fwd_arg == IN_p), "C17: ... and unregistered exactly once");
  VERIF_CANARY("base wrappers return"); }
#endif
