# C17: qsbr_ptr / qsbr_ptr_span
Q = r'^unodb::qsbr_ptr<std::byte const>::'
QP = r'unodb::qsbr_ptr<std::byte const>'
ROOTS = {'CTOR_P': Q + r'qsbr_ptr\(std::byte const\*\)', 'CTOR_COPY': Q + r'qsbr_ptr\(%s const&\)' % QP, 'CTOR_MOVE': Q + r'qsbr_ptr\(%s&&\)' % QP, 'DTOR': Q + r'~qsbr_ptr\(\)',
         'ASSIGN_COPY': Q + r'operator=\(%s const&\)' % QP, 'ASSIGN_MOVE': Q + r'operator=\(%s&&\)' % QP, 'DEREF': Q + r'operator\*\(\) const', 'INDEX': Q + r'operator\[\]\(long\) const', 'ARROW': Q + r'operator->\(\) const',
         'PREINC': Q + r'operator\+\+\(\)', 'POSTINC': Q + r'operator\+\+\(int\)', 'PREDEC': Q + r'operator--\(\)', 'POSTDEC': Q + r'operator--\(int\)', 'ADDEQ': Q + r'operator\+=\(long\)', 'ADD': Q + r'operator\+\(long\) const',
         'SUBEQ': Q + r'operator-=\(long\)', 'SUB': Q + r'operator-\(long\) const', 'DIFF': Q + r'operator-\(%s\) const' % QP, 'GET': Q + r'get\(\) const', 'EQ': Q + r'operator==\(', 'LE': Q + r'operator<=\(', 'GE': Q + r'operator>=\(',
         'LT': Q + r'operator<\(', 'GT': Q + r'operator>\(', 'FRIEND_ADD': r'^unodb::operator\+\(long, ' + QP,
         'SPAN_CTOR': r'^unodb::qsbr_ptr_span<std::byte const>::qsbr_ptr_span\(std::span', 'SPAN_BEGIN': r'^unodb::qsbr_ptr_span<std::byte const>::begin\(\) const', 'SPAN_END': r'^unodb::qsbr_ptr_span<std::byte const>::end\(\) const',
         'SPAN_SIZE': r'^unodb::qsbr_ptr_span<std::byte const>::size\(\) const'}
STUBS = {'REGISTER': r'^unodb::detail::qsbr_ptr_base::register_active_ptr\(', 'UNREGISTER': r'^unodb::detail::qsbr_ptr_base::unregister_active_ptr\('}
for h in ('ctor', 'copy', 'move', 'dtor', 'assign_copy', 'assign_move', 'deref', 'preinc', 'postinc', 'predec', 'postdec', 'addeq', 'subeq', 'add', 'sub', 'friend_add', 'cmp', 'span'):
    for cfg in (DEBUG, BASE):
        job('qptr.%s.%s' % (h, 'debug' if cfg == DEBUG else 'ndebug'), ['C17'], 'u_qsbrptr', 'proofs/qptr/qptr.c', entry='h_' + h, roots=ROOTS, stubs=(STUBS if cfg == DEBUG else {}), cfgs=(cfg,),
            unwind=4, floor=3, timeout=300, under_contract=['qsbr_ptr<const std::byte>: ' + h])
MS = r'^std::unordered_multiset<void const\*, .*>::'
for h in ('h_register', 'h_unregister'):
    job('qptr.registry.%s' % h[2:], ['C17'], 'repo:qsbr.cpp', 'proofs/qptr/registry.c', entry=h, defines=['PER_THREAD'], cfgs=(DEBUG,),
        roots={'PT_REG': r'^unodb::qsbr_per_thread::register_active_ptr\(', 'PT_UNREG': r'^unodb::qsbr_per_thread::unregister_active_ptr\('},
        stubs={'MS_INSERT?': MS + r'insert\(void const\* const&\)', 'MS_FIND?': MS + r'find\(void const\* const&\)$', 'MS_END?': MS + r'end\(\)$', 'MS_ERASE_IT?': MS + r'erase\(std::__detail::_Node_iterator',
               'MS_ERASE_KEY?': MS + r'erase\(void const\* const&\)', 'PAUSED': r'^unodb::qsbr_per_thread::is_qsbr_paused\(\) const'},
        unwind=4, floor=3, timeout=300, under_contract=['qsbr_per_thread::%s_active_ptr' % h[2:]], trusted=['std::unordered_multiset::{insert,find,end,erase} replaced by an assumed contract'])
job('qptr.registry.base', ['C17'], 'u_qsbrptr', 'proofs/qptr/registry.c', entry='h_base', cfgs=(DEBUG,),
    roots={'BASE_REG': r'^unodb::detail::qsbr_ptr_base::register_active_ptr\(', 'BASE_UNREG': r'^unodb::detail::qsbr_ptr_base::unregister_active_ptr\('},
    stubs={'THIS_THREAD': r'^unodb::this_thread\(\)'},
    unwind=4, floor=2, timeout=300, under_contract=['qsbr_ptr_base::register_active_ptr', 'qsbr_ptr_base::unregister_active_ptr'])

job('qptr.registry.asserted', ['C17'], 'u_qsbr_api', 'proofs/qptr/registry.c', cfgs=(DEBUG,), floor=3,
    irfacts=[(r'^unodb::qsbr_per_thread::quiescent\(\)', 'active_ptrs.empty()'), (r'^unodb::qsbr_per_thread::qsbr_pause\(\)', 'active_ptrs.empty()'), (r'^unodb::qsbr_per_thread::qsbr_resume\(\)', 'active_ptrs.empty()')],
    under_contract=['qsbr_per_thread::quiescent / qsbr_pause / qsbr_resume: the registry-empty assertion is present (static IR fact, supporting)'])
PTQ = r'^unodb::qsbr_per_thread::'
for fn, rx in (('quiescent', r'quiescent\(\)'), ('pause', r'qsbr_pause\(\)'), ('resume', r'qsbr_resume\(\)')):
    job('qptr.body.' + fn, ['C17'], 'u_qsbr_api', 'proofs/qptr/bodies.c', defines=['FN_' + fn.upper()], cfgs=(DEBUG,), roots={'FN': PTQ + rx},
        stubs={'MS_EMPTY': MS + r'empty\(\) const', 'QSBR_INSTANCE': r'^unodb::qsbr::instance\(\)', 'ADVANCE?': PTQ + r'advance_last_seen_epoch\(', 'EXEC_PREV?': PTQ + r'execute_previous_requests\(',
               'REG_STATS?': r'^unodb::qsbr::register_quiescent_states_per_thread_between_epoch_changes\('},
        unwind=200, floor=3, timeout=300, under_contract=['qsbr_per_thread::%s: registry-empty assertion fires iff the registry is non-empty, before any effect' % rx.split('\\')[0]],
        trusted=['std::unordered_multiset::empty replaced by its contract over the ghost registry size', 'all other callees are recording stubs; the protocol assertions of these functions are not decided here'])
