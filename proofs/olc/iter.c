/* C14 / C16 for the OLC iterator: try_seek, try_left_most_traversal, try_right_most_traversal, try_next, try_prior, try_first, try_last - REAL
 * code of each (lock coupling through the real read_critical_section objects, section hand-over by move assignment, unlock_and_return), one
 * thread, with
 *   - the optimistic_lock primitives replaced by sequential contracts over ghost state per lock (try_read_lock: may report obsolete; check /
 *     unlock: may fail; rehydrate_read_lock: opens a counted section), every restart path explored;
 *   - the OTHER iterator functions replaced by the contract proved for them in their own job of this file (SECTION CONTRACT below);
 *   - stack / key-buffer operations (try_push*, pop, top, empty, invalidate) and the node readers (begin/last/next/prior/find_child/gte/lte/
 *     get_child dispatchers, leaf cmp) replaced by "arbitrary result, no lock operation" (their functional contracts: C02 jobs).
 * SECTION CONTRACT of every function F (pcs = the section parameter, if any):
 *   requires  no write lock held; the read_lock_count of every lock == its baseline + the number of live section objects on it
 *             (on entry: only pcs, open on its lock)
 *   ensures   the same on EVERY return: no write lock held, counted sections == live section objects (pcs still open on its lock, or empty);
 *             nothing but pcs survives the call, so a caller that closes / destroys pcs is balanced again            (C16, assertion-enabled)
 *   and no read lock is taken while a write lock is held (C14; the closure takes no write lock at all: job olc.readers.no-write-locks).
 * Loops are cut at the head.  Invariant (seek, traversals): node != null, the parent's section is open on its lock and is the only counted
 * section.  (next, prior): nothing is open.  KIND 0 proves entry -> loop head, KIND >= 1 one arbitrary iteration (1: leaf, 2: inner node). */
#include "verif_rt.h"
struct rcs { void *lock; uint64_t ver; };
static void base_(void *node_p, void *pcs); static void head_(void *node_p, void *pcs, void *ncs); static void back_(void *node_p, void *pcs);
#define HEAD2_(A) do { base_(&m_node, m_PCS); VERIF_LOOP_HAVOC_##A##_while_2econd; head_(&m_node, m_PCS, &m_node_critical_section); } while (0)
#define HEAD2B_(A) do { base_(&m_node, m_PCS); VERIF_LOOP_HAVOC_##A##_while_2ebody; head_(&m_node, m_PCS, &m_node_critical_section); } while (0)
#if defined(FUNC_SEEK)
#define m_PCS (&m_parent_critical_section)
#define VERIF_LOOP_HEAD_TRY_SEEK_while_2econd HEAD2_(TRY_SEEK)
#define VERIF_LOOP_BACK_TRY_SEEK_while_2econd back_(&m_node, m_PCS)
#elif defined(FUNC_LMT)
#define m_PCS ((void *)m_parent_critical_section_2eaddr)
#define VERIF_LOOP_HEAD_TRY_LMT_while_2ebody HEAD2B_(TRY_LMT)
#define VERIF_LOOP_BACK_TRY_LMT_while_2ebody back_(&m_node, m_PCS)
#elif defined(FUNC_RMT)
#define m_PCS ((void *)m_parent_critical_section_2eaddr)
#define VERIF_LOOP_HEAD_TRY_RMT_while_2ebody HEAD2B_(TRY_RMT)
#define VERIF_LOOP_BACK_TRY_RMT_while_2ebody back_(&m_node, m_PCS)
#elif defined(FUNC_NEXT)
#define VERIF_LOOP_HEAD_TRY_NEXT_while_2econd do { base_(0, 0); VERIF_LOOP_HAVOC_TRY_NEXT_while_2econd; head_(0, 0, 0); } while (0)
#define VERIF_LOOP_BACK_TRY_NEXT_while_2econd back_(0, 0)
#elif defined(FUNC_PRIOR)
#define VERIF_LOOP_HEAD_TRY_PRIOR_while_2econd do { base_(0, 0); VERIF_LOOP_HAVOC_TRY_PRIOR_while_2econd; head_(0, 0, 0); } while (0)
#define VERIF_LOOP_BACK_TRY_PRIOR_while_2econd back_(0, 0)
#endif
#include "x_types.h"
#include "x_body.h"
#include "verif_models.h"
#define SUB_ANS_CLASSES 2
#include "../tree/tree_common.h"
PTR_FOREACH(ADT_DEF_PTR)
uint32_t X_memcmp(uint8_t *a, uint8_t *b, uint64_t n) { __CPROVER_assert(n <= 8, "memcmp of at most one 8-byte key"); return (uint32_t)memcmp(a, b, n); }
#ifdef VERIF_CFG_DEBUG
#define LAY_IS_DEBUG 1
#else
#define LAY_IS_DEBUG 0
#endif
/* ---- ghost lock state: 0 root lock, 1 parent's lock, 2 node's lock, 3 another node's lock (child handed to a callee) */
#define NLOCKS 4
static uint8_t *LK[NLOCKS]; static int64_t RLC0[NLOCKS];
static int lk_idx(const void *l) { for (int i = 0; i < NLOCKS; i++) if (LK[i] && LK[i] == (const uint8_t *)l) return i; __CPROVER_assert(0, "lock operations only on the root lock, the parent's or the node's lock"); return 0; }
#ifdef VERIF_CFG_DEBUG
#define RLC(l) (*(int64_t *)((uint8_t *)(l) + LAY_LOCK_RLC))
#else
static int64_t G_rlc[NLOCKS];
#define RLC(l) G_rlc[lk_idx(l)]
#endif
static void lock_init(int i, uint8_t *l) { LK[i] = l; RLC0[i] = nondet_u64(); __CPROVER_assume(RLC0[i] >= 0 && RLC0[i] < (1LL << 40)); RLC(l) = RLC0[i]; }
void L_TRY_READ_LOCK(L_TRY_READ_LOCK_a0 out, L_TRY_READ_LOCK_a1 l) {
  (void)lk_idx(l);                                                    /* C14: the closure takes no write lock (static fact), so nothing is held at this waiting point */
  if (nondet_bool()) { *(void **)out = 0; *(uint64_t *)((uint8_t *)out + 8) = 0; return; }
  RLC(l)++; *(void **)out = l; *(uint64_t *)((uint8_t *)out + 8) = nondet_u64() & ~3ULL;
}
_Bool L_CHECK(L_CHECK_a0 l, L_CHECK_a1 ver) { (void)lk_idx(l);
#ifdef VERIF_CFG_DEBUG
  __CPROVER_assert(RLC(l) > 0, "UNODB_DETAIL_ASSERT(read_lock_count > 0) holds: check / unlock only inside an open read section");
#endif
  _Bool ok = nondet_bool(); if (!ok) RLC(l)--; return ok; }
#ifdef HAVE_L_REHYDRATE
void L_REHYDRATE(L_REHYDRATE_a0 out, L_REHYDRATE_a1 l, L_REHYDRATE_a2 ver) { (void)lk_idx(l); RLC(l)++; *(void **)out = l; *(uint64_t *)((uint8_t *)out + 8) = ver; }
#endif
/* ---- balance: counted sections == live section objects (s1, s2 may be null) */
static void balanced(const struct rcs *s1, const struct rcs *s2, const char *unused) {
#ifdef VERIF_CFG_DEBUG
  for (int i = 0; i < NLOCKS; i++) if (LK[i])
    __CPROVER_assert(RLC(LK[i]) - RLC0[i] == (s1 && s1->lock == (void *)LK[i]) + (s2 && s2->lock == (void *)LK[i]), "C16: every counted read section belongs to a live section object (no leaked or double-closed section)");
#endif
  if (s1) __CPROVER_assert(s1->lock == 0 || lk_idx(s1->lock) >= 0, "a section object is on a known lock or empty");
}
/* ---- callee contracts: the other iterator functions */
static void maybe_close(struct rcs *s) { if (s->lock && nondet_bool()) { RLC(s->lock)--; if (LAY_IS_DEBUG || nondet_bool()) s->lock = 0; } }
static unsigned G_calls;
static _Bool traversal_contract(uint64_t node, struct rcs *pcs) {
  __CPROVER_assert(node != 0, "contract requires: a node to descend into");
  __CPROVER_assert(pcs->lock != 0 && lk_idx(pcs->lock) >= 0 && (!LAY_IS_DEBUG || RLC(pcs->lock) > 0), "contract requires: the parent's section is open");
  G_calls++;
  _Bool r = nondet_bool();
  if (r || nondet_bool()) { RLC(pcs->lock)--; if (LAY_IS_DEBUG || nondet_bool()) pcs->lock = 0; }       /* true => every section it was given or opened is closed */
  if (!r && nondet_bool() && LK[3] == 0 && (LAY_IS_DEBUG ? pcs->lock == 0 : 1)) {                       /* false: the object may have been re-seated on a deeper node's section, left to the caller */
    uint8_t *l = malloc(LAY_LOCK_SIZE); __CPROVER_assume(l != 0); lock_init(3, l); RLC(l)++; pcs->lock = l; pcs->ver = nondet_u64() & ~3ULL; }
  return r;
}
static _Bool G_closed_before_step = 1;
static _Bool step_contract(void) {                                   /* try_next / try_prior: work from the saved stack, require and leave nothing open */
#ifdef VERIF_CFG_DEBUG
  for (int i = 0; i < NLOCKS; i++) if (LK[i] && RLC(LK[i]) != RLC0[i]) G_closed_before_step = 0;
#endif
  G_calls++; return nondet_bool();
}
#if defined(HAVE_TRY_LMT) && !defined(FUNC_LMT)
_Bool TRY_LMT(TRY_LMT_a0 it, TRY_LMT_a1 node, TRY_LMT_a2 pcs) { return traversal_contract(*(uint64_t *)&node, (struct rcs *)pcs); }
#endif
#if defined(HAVE_TRY_RMT) && !defined(FUNC_RMT)
_Bool TRY_RMT(TRY_RMT_a0 it, TRY_RMT_a1 node, TRY_RMT_a2 pcs) { return traversal_contract(*(uint64_t *)&node, (struct rcs *)pcs); }
#endif
#if defined(HAVE_TRY_NEXT) && !defined(FUNC_NEXT)
_Bool TRY_NEXT(TRY_NEXT_a0 it) { return step_contract(); }
#endif
#if defined(HAVE_TRY_PRIOR) && !defined(FUNC_PRIOR)
_Bool TRY_PRIOR(TRY_PRIOR_a0 it) { return step_contract(); }
#endif
/* ---- stack / key buffer and node readers: arbitrary results, no lock operation */
static uint8_t *G_obj, *G_dbp; static uint64_t G_nodew, G_childw; static _Bool G_head_seen, G_stack_empty;
#ifdef HAVE_TRY_PUSH4
_Bool TRY_PUSH4(TRY_PUSH4_a0 it, TRY_PUSH4_a1 n, TRY_PUSH4_a2 kb, TRY_PUSH4_a3 ci, TRY_PUSH4_a4 pfx, TRY_PUSH4_a5 rcs) { return nondet_bool(); }
#endif
#ifdef HAVE_TRY_PUSH2
_Bool TRY_PUSH2(TRY_PUSH2_a0 it, TRY_PUSH2_a1 e, TRY_PUSH2_a2 rcs) { return nondet_bool(); }
#endif
#ifdef HAVE_TRY_PUSH_LEAF
_Bool TRY_PUSH_LEAF(TRY_PUSH_LEAF_a0 it, TRY_PUSH_LEAF_a1 n, TRY_PUSH_LEAF_a2 rcs) { return nondet_bool(); }
#endif
#ifdef HAVE_INVALIDATE
INVALIDATE_ret INVALIDATE(INVALIDATE_a0 it) { return it; }
#endif
#ifdef HAVE_POP
void POP(POP_a0 it) { G_stack_empty = nondet_bool(); }
#endif
#ifdef HAVE_EMPTY
_Bool EMPTY(EMPTY_a0 it) { return G_stack_empty; }
#endif
#ifdef HAVE_TOP
typedef __typeof__(*(TOP_ret)0) ENTRY_T;
static ENTRY_T G_entry;
TOP_ret TOP(TOP_a0 it) { return &G_entry; }
#endif
static uint64_t some_child(void) { G_childw = nondet_u64(); __CPROVER_assume(G_childw != 0); return G_childw; }
#ifdef HAVE_N_BEGIN
void N_BEGIN(N_BEGIN_a0 out, N_BEGIN_a1 n, N_BEGIN_a2 t) { __typeof__(*out) r; *out = r; *(uint64_t *)out = some_child(); }
#endif
#ifdef HAVE_N_LAST
void N_LAST(N_LAST_a0 out, N_LAST_a1 n, N_LAST_a2 t) { __typeof__(*out) r; *out = r; *(uint64_t *)out = some_child(); }
#endif
#ifdef HAVE_N_NEXT
void N_NEXT(N_NEXT_a0 out, N_NEXT_a1 n, N_NEXT_a2 t, N_NEXT_a3 ci) { __typeof__(*out) r; *out = r; *(uint64_t *)out = some_child(); }
#endif
#ifdef HAVE_N_PRIOR
void N_PRIOR(N_PRIOR_a0 out, N_PRIOR_a1 n, N_PRIOR_a2 t, N_PRIOR_a3 ci) { __typeof__(*out) r; *out = r; *(uint64_t *)out = some_child(); }
#endif
#ifdef HAVE_N_GTE
void N_GTE(N_GTE_a0 out, N_GTE_a1 n, N_GTE_a2 t, N_GTE_a3 b) { __typeof__(*out) r; *out = r; *(uint64_t *)out = some_child(); }
#endif
#ifdef HAVE_N_LTE
void N_LTE(N_LTE_a0 out, N_LTE_a1 n, N_LTE_a2 t, N_LTE_a3 b) { __typeof__(*out) r; *out = r; *(uint64_t *)out = some_child(); }
#endif
#ifdef HAVE_N_FIND
N_FIND_ret N_FIND(N_FIND_a0 n, N_FIND_a1 t, N_FIND_a2 b) { N_FIND_ret r; uint64_t **pp = (uint64_t **)((uint8_t *)&r + 8); if (nondet_bool()) *pp = 0; else { *pp = (uint64_t *)(G_obj + n_off_children(4)); **pp = some_child(); } return r; }
#endif
#ifdef HAVE_N_GETCHILD
N_GETCHILD_ret N_GETCHILD(N_GETCHILD_a0 n, N_GETCHILD_a1 t, N_GETCHILD_a2 ci) { return some_child(); }
#endif
#ifdef HAVE_LEAF_CMP
LEAF_CMP_ret LEAF_CMP(LEAF_CMP_a0 l, LEAF_CMP_a1 k) { return nondet_uint(); }
#endif
void X__ZN5unodb6detail13qsbr_ptr_base19register_active_ptrEPKv(uint8_t *p) {}
void X__ZN5unodb6detail13qsbr_ptr_base21unregister_active_ptrEPKv(uint8_t *p) {}
/* ---- a node of the kind under proof */
static void mk_node(void) {
#if KIND == 1
  G_obj = mk_leaf_obj(3); G_nodew = adt_tag(G_obj, T_LEAF);
#else
  G_obj = malloc(NLAY(POL, I256, SIZE)); __CPROVER_assume(G_obj != 0); __CPROVER_assume(N_PREFIX_LEN(G_obj, 1) <= 7);
  G_nodew = adt_tag(G_obj, 1 + nondet_uint() % 4);
#endif
}
#if defined(FUNC_SEEK) || defined(FUNC_LMT) || defined(FUNC_RMT)
static struct rcs *G_pcs;
static void base_(void *node_p, void *pcs_) {
  struct rcs *pcs = pcs_;
  __CPROVER_assert(*(uint64_t *)node_p != 0, "invariant on entry (base): node is not null");
  __CPROVER_assert(pcs->lock != 0 && lk_idx(pcs->lock) >= 0, "invariant on entry (base): the parent's section is open");
  balanced(pcs, 0, 0);
#if KIND == 0
  VERIF_CANARY("loop head reachable from the entry");
  __CPROVER_assume(0);
#endif
}
static void head_(void *node_p, void *pcs_, void *ncs_) {
  struct rcs *pcs = pcs_, *ncs = ncs_;
  G_head_seen = 1; G_pcs = pcs; G_calls = 0; G_closed_before_step = 1;
  mk_node(); *(uint64_t *)node_p = G_nodew;
  lock_init(0, G_dbp + NLAY(POL, DB, ROOTLOCK)); lock_init(1, malloc(LAY_LOCK_SIZE)); __CPROVER_assume(LK[1] != 0); lock_init(2, G_obj); LK[3] = 0;
  pcs->lock = LK[1]; pcs->ver = nondet_u64() & ~3ULL; RLC(LK[1])++;
  ncs->lock = 0; ncs->ver = 0;
}
static void back_(void *node_p, void *pcs_) {
  struct rcs *pcs = pcs_;
  __CPROVER_assert(KIND == 2, "invariant preserved (step): only an inner node continues the descent");
  __CPROVER_assert(*(uint64_t *)node_p == G_childw && G_childw != 0, "invariant preserved (step): the cursor moves to the (non-null) child read from the node");
  __CPROVER_assert(pcs->lock == (void *)LK[2], "lock coupling invariant (step): the node's section becomes the parent section");
  balanced(pcs, 0, 0);                                              /* in particular: the OLD parent's section has been closed */
#if KIND == 2
  VERIF_CANARY("descent reachable");
#endif
  __CPROVER_assume(0);
}
#else
static void base_(void *a, void *b) {
  balanced(0, 0, 0);
#if KIND == 0
  VERIF_CANARY("loop head reachable from the entry");
  __CPROVER_assume(0);
#endif
}
static void head_(void *a, void *b, void *c) {
  G_head_seen = 1; G_calls = 0; G_stack_empty = nondet_bool();
  /* the stack top: an arbitrary saved entry for a leaf or an inner node */
  if (nondet_bool()) { G_obj = mk_leaf_obj(3); G_nodew = adt_tag(G_obj, T_LEAF); }
  else { G_obj = malloc(NLAY(POL, I256, SIZE)); __CPROVER_assume(G_obj != 0); G_nodew = adt_tag(G_obj, 1 + nondet_uint() % 4); }
#ifdef HAVE_TOP
  *(uint64_t *)&G_entry = G_nodew;
#endif
  lock_init(0, G_dbp + NLAY(POL, DB, ROOTLOCK)); LK[1] = 0; lock_init(2, G_obj); LK[3] = 0;
}
static void back_(void *a, void *b) {
  balanced(0, 0, 0);                                                /* invariant preserved: nothing stays open across iterations */
#if KIND != 0
  VERIF_CANARY("next iteration reachable");
#endif
  __CPROVER_assume(0);
}
#endif
void harness(void) {
  uint8_t *db = malloc(NLAY(POL, DB, SIZE)); __CPROVER_assume(db != 0); G_dbp = db;
#if defined(FUNC_SEEK)
  typedef __typeof__(*(TRY_SEEK_a0)0) ITER_T;
#elif defined(FUNC_LMT)
  typedef __typeof__(*(TRY_LMT_a0)0) ITER_T;
#elif defined(FUNC_RMT)
  typedef __typeof__(*(TRY_RMT_a0)0) ITER_T;
#elif defined(FUNC_NEXT)
  typedef __typeof__(*(TRY_NEXT_a0)0) ITER_T;
#elif defined(FUNC_PRIOR)
  typedef __typeof__(*(TRY_PRIOR_a0)0) ITER_T;
#elif defined(FUNC_FIRST)
  typedef __typeof__(*(TRY_FIRST_a0)0) ITER_T;
#else
  typedef __typeof__(*(TRY_LAST_a0)0) ITER_T;
#endif
  ITER_T *it = malloc(sizeof(ITER_T)); __CPROVER_assume(it != 0); *(void **)((uint8_t *)it + LAY_OLCITERATOR_DB) = (void *)db;
  uint64_t root = nondet_u64(); *(uint64_t *)(db + NLAY(POL, DB, ROOT)) = root;
  lock_init(0, db + NLAY(POL, DB, ROOTLOCK)); G_stack_empty = nondet_bool();
  _Bool r;
#if defined(FUNC_SEEK)
  uint8_t match = nondet_u8() & 1;
  r = TRY_SEEK(it, nondet_u64(), &match, nondet_bool());
  balanced(0, 0, 0);
#elif defined(FUNC_LMT) || defined(FUNC_RMT)
  /* entry: called with a non-null node and the parent's open section */
  struct rcs pcs; mk_node(); lock_init(1, malloc(LAY_LOCK_SIZE)); __CPROVER_assume(LK[1] != 0); lock_init(2, G_obj);
  pcs.lock = LK[1]; pcs.ver = nondet_u64() & ~3ULL; RLC(LK[1])++;
#if defined(FUNC_LMT)
  r = TRY_LMT(it, *(TRY_LMT_a1 *)&G_nodew, (TRY_LMT_a2)&pcs);
#else
  r = TRY_RMT(it, *(TRY_RMT_a1 *)&G_nodew, (TRY_RMT_a2)&pcs);
#endif
  if (r) { balanced(0, 0, 0);
#if KIND == 1
    VERIF_CANARY("success return reachable");
#endif
  }            /* ensures: true => everything is closed */
  else balanced(G_head_seen ? G_pcs : &pcs, 0, 0);                                     /* ensures: false => only the caller's section object may still hold a counted section */
#elif defined(FUNC_NEXT)
  r = TRY_NEXT(it); balanced(0, 0, 0);
#elif defined(FUNC_PRIOR)
  r = TRY_PRIOR(it); balanced(0, 0, 0);
#elif defined(FUNC_FIRST)
  r = TRY_FIRST(it); balanced(0, 0, 0);
#else
  r = TRY_LAST(it); balanced(0, 0, 0);
#endif
  __CPROVER_assert(G_closed_before_step, "contract of try_next / try_prior requires: no section of this operation is open when they are called");
  __CPROVER_assert(!verif_exc_pending, "no exception");
#if !((defined(FUNC_NEXT) || defined(FUNC_PRIOR)) && KIND == 0)
  VERIF_CANARY("the function returns");
#endif
}
