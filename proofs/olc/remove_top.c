/* C14 (+ C16 debug accounting): olc_db<uint64_t>::try_remove, REAL code (root cases, descent loop, section hand-over, real read_critical_section /
 * write_guard objects), one thread, optimistic_lock primitives replaced by sequential contracts (as proofs/olc/rocs.c), and the per-class
 * olc_impl_helpers::remove_or_choose_subtree<olc_inode_N> calls REPLACED BY THEIR CONTRACT - the postcondition proved for the real bodies in rocs.c:
 *   requires  parent's and node's sections open on their locks, child section empty, no write lock held
 *   ensures   no write lock held; each section object is still open on its own lock or empty, counted sections == live section objects;
 *             restart | false | true+done (child_in_parent == 0) | true+descent (node's and child's sections open, parent's closed,
 *             child_in_parent != 0, child word and type handed out)
 * The descent loop is cut at its head.  Invariant: node is an inner node, parent_critical_section is open on the parent's lock (root lock or an
 * inner node's), node_critical_section is open on node's lock, nothing is write-locked.
 *   KIND 0: entry up to the loop head (empty tree, leaf root incl. removal of the last key, inner root: invariant established)
 *   KIND 1: one arbitrary iteration from the invariant (every outcome of the contract), invariant re-established on the back edge
 * Obligations on EVERY return of try_remove: no write lock held (C14); assertion-enabled extraction: read_lock_count of every lock back at its
 * entry value (C16); a leaf root that is removed is made obsolete and retired, never freed directly. */
#include "verif_rt.h"
static void base_(void *node_p, void *pcs, void *ncs, void *nip); static void head_(void *node_p, void *ntype_p, void *pcs, void *ncs, void *nip_p); static void back_(void *node_p, void *ntype_p, void *pcs, void *ncs, void *nip_p);
#define VERIF_LOOP_HEAD_TRY_REMOVE_while_2econd do { base_(&m_node, &m_parent_critical_section, &m_node_critical_section, &m_node_in_parent); VERIF_LOOP_HAVOC_TRY_REMOVE_while_2econd; head_(&m_node, &m_node_type, &m_parent_critical_section, &m_node_critical_section, &m_node_in_parent); } while (0)
#define VERIF_LOOP_BACK_TRY_REMOVE_while_2econd back_(&m_node, &m_node_type, &m_parent_critical_section, &m_node_critical_section, &m_node_in_parent)
#include "x_types.h"
#include "x_body.h"
static unsigned G_direct_frees;
#define VERIF_ON_FREE(p) (G_direct_frees++)
#include "verif_models.h"
#define SUB_ANS_CLASSES 2
#include "../tree/tree_common.h"
PTR_FOREACH(ADT_DEF_PTR)
#ifdef HAVE_TAG_PTR
TAG_PTR_ret TAG_PTR(TAG_PTR_a0 p, TAG_PTR_a1 t) { return adt_tag((const uint8_t *)p, t); }
#endif
uint32_t X_memcmp(uint8_t *a, uint8_t *b, uint64_t n) { __CPROVER_assert(n <= 8, "memcmp of at most one 8-byte key"); return (uint32_t)memcmp(a, b, n); }
uint64_t X_pthread_self(void) { return 1; }
/* ---- ghost lock state: 0 root lock, 1 parent's lock (loop iterations), 2 node's lock, 3 child's lock */
#define NLOCKS 4
#ifdef VERIF_CFG_DEBUG
#define LAY_IS_DEBUG 1
#else
#define LAY_IS_DEBUG 0
#endif
static uint8_t *LK[NLOCKS]; static _Bool WHELD[NLOCKS], OBS[NLOCKS]; static int64_t RLC0[NLOCKS];
static int lk_idx(const void *l) { for (int i = 0; i < NLOCKS; i++) if (LK[i] && LK[i] == (const uint8_t *)l) return i; __CPROVER_assert(0, "lock operations only on the root lock, the parent's, the node's or the child's lock"); return 0; }
#ifdef VERIF_CFG_DEBUG
#define RLC(l) (*(int64_t *)((uint8_t *)(l) + LAY_LOCK_RLC))
#else
static int64_t G_rlc[NLOCKS];
#define RLC(l) G_rlc[lk_idx(l)]
#endif
static void lock_init(int i, uint8_t *l) { LK[i] = l; WHELD[i] = 0; OBS[i] = 0; RLC0[i] = nondet_u64(); __CPROVER_assume(RLC0[i] >= 0 && RLC0[i] < (1LL << 40)); RLC(l) = RLC0[i]; }
static void no_write_lock_held(void) { for (int i = 0; i < NLOCKS; i++) __CPROVER_assert(!WHELD[i], "C14: no write lock is held (at a waiting point / at return)"); }
void L_TRY_READ_LOCK(L_TRY_READ_LOCK_a0 out, L_TRY_READ_LOCK_a1 l) {
  (void)lk_idx(l); no_write_lock_held();
  if (nondet_bool()) { *(void **)out = 0; *(uint64_t *)((uint8_t *)out + 8) = 0; return; }
  RLC(l)++; *(void **)out = l; *(uint64_t *)((uint8_t *)out + 8) = nondet_u64() & ~3ULL;
}
_Bool L_CHECK(L_CHECK_a0 l, L_CHECK_a1 ver) { (void)lk_idx(l);
#ifdef VERIF_CFG_DEBUG
  __CPROVER_assert(RLC(l) > 0, "UNODB_DETAIL_ASSERT(read_lock_count > 0) holds: check / unlock only inside an open read section");
#endif
  _Bool ok = nondet_bool(); if (!ok) RLC(l)--; return ok; }
_Bool L_UPGRADE(L_UPGRADE_a0 l, L_UPGRADE_a1 ver) {
  int i = lk_idx(l); RLC(l)--;
  if (nondet_bool()) return 0;
  __CPROVER_assert(!WHELD[i], "C14: no second write guard on a lock already held");
  for (int j = i + 1; j < NLOCKS; j++) __CPROVER_assert(!WHELD[j], "C14: write locks are taken in root-to-leaf order");
  WHELD[i] = 1; return 1;
}
void L_WUNLOCK(L_WUNLOCK_a0 l) { int i = lk_idx(l); __CPROVER_assert(WHELD[i], "write_unlock only by the holder"); WHELD[i] = 0; }
void L_WOBSOLETE(L_WOBSOLETE_a0 l) { int i = lk_idx(l); __CPROVER_assert(WHELD[i], "write_unlock_and_obsolete only by the holder"); WHELD[i] = 0; OBS[i] = 1; }
#ifdef HAVE_L_IS_WLOCKED
_Bool L_IS_WLOCKED(L_IS_WLOCKED_a0 l) { return WHELD[lk_idx(l)]; }
#endif
#ifdef HAVE_L_IS_OBS_ME
_Bool L_IS_OBS_ME(L_IS_OBS_ME_a0 l) { return OBS[lk_idx(l)]; }
#endif
static uint8_t G_thread[8]; static unsigned G_nret; static uint8_t *G_ret[4];
THIS_THREAD_ret THIS_THREAD(void) { return (THIS_THREAD_ret)G_thread; }
#ifdef VERIF_CFG_STATS
#define RETIRE_SIZE , RETIRE_a2 size
#define RETIRE_CBT RETIRE_a3
#else
#define RETIRE_SIZE
#define RETIRE_CBT RETIRE_a2
#endif
#ifdef VERIF_CFG_DEBUG
#define RETIRE_EXTRA , RETIRE_CBT dbg_callback
#else
#define RETIRE_EXTRA
#endif
void RETIRE(RETIRE_a0 self, RETIRE_a1 p RETIRE_SIZE RETIRE_EXTRA) { __CPROVER_assert(G_nret < 4, "ledger large enough"); if (G_nret < 4) G_ret[G_nret] = p; G_nret++; }
struct rcs { void *lock; uint64_t ver; };
static uint8_t *G_dbp, *G_obj, *G_childobj, *G_rootleaf; static uint64_t *G_slot, *G_cip; static uint64_t G_childw; static _Bool G_head_seen; static unsigned G_rocs_calls; static int G_outcome = -1;
uint64_t IN_K;
/* ---- the contract of remove_or_choose_subtree (proved for the real bodies in proofs/olc/rocs.c), used in place of all four instantiations */
static void maybe_close(struct rcs *s) { if (s->lock && nondet_bool()) { RLC(s->lock)--; if (LAY_IS_DEBUG || nondet_bool()) s->lock = 0; } }
static uint16_t rocs_contract(void *inode, void *db, struct rcs *pcs, struct rcs *ncs, uint64_t *nip, void **cip, struct rcs *ccs, uint8_t *ctype, uint64_t *child) {
  __CPROVER_assert(G_head_seen && G_rocs_calls == 0, "one call per iteration");
  G_rocs_calls++;
  no_write_lock_held();
  __CPROVER_assert(inode == (void *)G_obj && db == (void *)G_dbp && nip == G_slot, "contract requires: the node under the cursor, its slot in the parent, this index");
  __CPROVER_assert(pcs->lock == (void *)LK[1] && ncs->lock == (void *)LK[2] && ccs->lock == 0, "contract requires: the parent's and the node's sections are open on their locks, the child section is empty");
  G_outcome = nondet_int(); __CPROVER_assume(G_outcome >= 0 && G_outcome <= 3);
  if (G_outcome == 3) {                                              /* true + descent */
    RLC(pcs->lock)--; if (LAY_IS_DEBUG || nondet_bool()) pcs->lock = 0;
    G_childobj = malloc(NLAY(POL, I256, SIZE)); __CPROVER_assume(G_childobj != 0); lock_init(3, G_childobj);
    unsigned t = 1 + nondet_uint() % 4; G_childw = adt_tag(G_childobj, t);
    ccs->lock = LK[3]; ccs->ver = nondet_u64() & ~3ULL; RLC(LK[3])++;
    G_cip = (uint64_t *)(G_obj + n_off_children(4)); *cip = G_cip; *ctype = (uint8_t)t; *child = G_childw;
    return 0x0101;
  }
  /* restart / false / done: any subset of the sections closed or consumed by guards; a child section may have been opened and closed */
  maybe_close(pcs); maybe_close(ncs);
  if (nondet_bool()) { G_childobj = malloc(NLAY(POL, I256, SIZE)); __CPROVER_assume(G_childobj != 0); lock_init(3, G_childobj); ccs->lock = LK[3]; RLC(LK[3])++; maybe_close(ccs); }
  *ctype = nondet_u8(); *child = nondet_u64();
  if (G_outcome == 0) { *cip = nondet_ptr(); return nondet_u8(); }   /* restart: disengaged (high byte 0), everything else unspecified */
  if (G_outcome == 1) { *cip = nondet_ptr(); return 0x0100; }       /* false */
  *cip = 0; return 0x0101;                                           /* true, done */
}
#define DEF_ROCS(A) A##_ret A(A##_a0 inode, A##_a1 kb, A##_a2 k, A##_a3 db, A##_a4 pcs, A##_a5 ncs, A##_a6 nip, A##_a7 cip, A##_a8 ccs, A##_a9 ct, A##_a10 ch) { \
  return rocs_contract((void *)inode, (void *)db, (struct rcs *)pcs, (struct rcs *)ncs, (uint64_t *)nip, (void **)cip, (struct rcs *)ccs, (uint8_t *)ct, (uint64_t *)ch); }
ROCS_FOREACH(DEF_ROCS)
static int live(const struct rcs *s, int i) { return s->lock == (void *)LK[i]; }
static void base_(void *node_p, void *pcs_, void *ncs_, void *nip_p) {
  struct rcs *pcs = pcs_, *ncs = ncs_;
  uint64_t w = *(uint64_t *)node_p;
  __CPROVER_assert(w == adt_tag(G_obj, w & 7) && (w & 7) != T_LEAF, "invariant on entry (base): node is the inner root node");
  __CPROVER_assert(pcs->lock == (void *)LK[0] && ncs->lock == (void *)LK[2], "invariant on entry (base): the root pointer's section and the root node's section are open");
  __CPROVER_assert(*(void **)nip_p == (void *)(G_dbp + NLAY(POL, DB, ROOT)), "invariant on entry (base): node_in_parent is the root pointer");
  no_write_lock_held();
#ifdef VERIF_CFG_DEBUG
  __CPROVER_assert(RLC(LK[0]) == RLC0[0] + 1 && RLC(LK[2]) == RLC0[2] + 1, "C16 (base): exactly these two sections are counted");
#endif
#if KIND == 0
  VERIF_CANARY("loop head reachable from the entry");
  __CPROVER_assume(0);
#endif
}
static void head_(void *node_p, void *ntype_p, void *pcs_, void *ncs_, void *nip_p) {
  struct rcs *pcs = pcs_, *ncs = ncs_;
  G_head_seen = 1;
  unsigned t = 1 + nondet_uint() % 4;
  G_obj = malloc(NLAY(POL, I256, SIZE)); __CPROVER_assume(G_obj != 0);                /* only the header and the key prefix are read here */
  __CPROVER_assume(N_PREFIX_LEN(G_obj, 1) <= 7);
  *(uint64_t *)node_p = adt_tag(G_obj, t); *(uint8_t *)ntype_p = (uint8_t)t;
  lock_init(0, G_dbp + NLAY(POL, DB, ROOTLOCK)); lock_init(1, malloc(LAY_LOCK_SIZE)); __CPROVER_assume(LK[1] != 0); lock_init(2, G_obj); LK[3] = 0;
  pcs->lock = LK[1]; pcs->ver = nondet_u64() & ~3ULL; RLC(LK[1])++;
  ncs->lock = LK[2]; ncs->ver = nondet_u64() & ~3ULL; RLC(LK[2])++;
  G_slot = malloc(8); __CPROVER_assume(G_slot != 0); *G_slot = adt_tag(G_obj, t); *(uint64_t **)nip_p = G_slot;
}
static void back_(void *node_p, void *ntype_p, void *pcs_, void *ncs_, void *nip_p) {
  struct rcs *pcs = pcs_, *ncs = ncs_;
  __CPROVER_assert(G_rocs_calls == 1 && G_outcome == 3, "invariant preserved (step): the loop continues only after a 'descend' outcome");
  __CPROVER_assert(*(uint64_t *)node_p == G_childw && *(uint8_t *)ntype_p == (G_childw & 7) && *(uint64_t **)nip_p == G_cip, "invariant preserved (step): the cursor moves to exactly the child handed out, with its slot");
  __CPROVER_assert(pcs->lock == (void *)LK[2] && ncs->lock == (void *)LK[3], "lock coupling invariant (step): the node's section becomes the parent section, the child's section the node section");
  no_write_lock_held();
#ifdef VERIF_CFG_DEBUG
  __CPROVER_assert(RLC(LK[0]) == RLC0[0] && RLC(LK[1]) == RLC0[1] && RLC(LK[2]) == RLC0[2] + 1 && RLC(LK[3]) == RLC0[3] + 1, "C16 (step): the old parent section is closed, exactly the two live sections are counted");
#endif
#if KIND == 1
  VERIF_CANARY("descent reachable");
#endif
  __CPROVER_assume(0);
}
void harness(void) {
  TRY_REMOVE_a0 db = malloc(sizeof(*db)); __CPROVER_assume(db != 0); G_dbp = (uint8_t *)db;
  IN_K = nondet_u64();
  uint64_t root = 0; unsigned shape = nondet_uint() % 3;                                 /* 0 empty, 1 leaf root, 2 inner root */
  lock_init(0, G_dbp + NLAY(POL, DB, ROOTLOCK));
  if (shape == 1) { G_rootleaf = mk_leaf_obj(3); root = adt_tag(G_rootleaf, T_LEAF); lock_init(2, G_rootleaf); }
  if (shape == 2) { G_obj = malloc(NLAY(POL, I256, SIZE)); __CPROVER_assume(G_obj != 0); root = adt_tag(G_obj, 1 + nondet_uint() % 4); lock_init(2, G_obj); }
  *(uint64_t *)(G_dbp + NLAY(POL, DB, ROOT)) = root;
#if defined(VERIF_CFG_STATS)
  { uint64_t *mem = (uint64_t *)(G_dbp + NLAY(POL, DB, MEM)), *lc = (uint64_t *)(G_dbp + NLAY(POL, DB, NODECOUNTS)); __CPROVER_assume(*mem >= LEAF_ALLOC_SIZE(3) && *mem < (1ULL << 60) && *lc >= 1 && *lc < (1ULL << 60)); }
#endif
  uint16_t r = TRY_REMOVE(db, IN_K);
  _Bool engaged = (r >> 8) & 1, val = r & 1;
  /* ------------------------------------------------------------------ every return of try_remove */
  no_write_lock_held();
  __CPROVER_assert(!verif_exc_pending, "try_remove itself allocates nothing");
#ifdef VERIF_CFG_DEBUG
  for (int i = 0; i < NLOCKS; i++) if (LK[i]) __CPROVER_assert(RLC(LK[i]) == RLC0[i], "C16: every read section opened by the operation is closed again on every exit path (restart or not)");
#endif
  __CPROVER_assert(G_direct_frees == 0, "C04-seq: a published node is never freed directly");
#if KIND == 0
  __CPROVER_assert(G_rocs_calls == 0, "entry proof: the loop body is not entered");
  _Bool removed = engaged && val;
  if (engaged) { __CPROVER_assert(val == (shape == 1 && LEAF_KEY(G_rootleaf) == IN_K), "single-threaded result at a leaf / empty root: true iff the root leaf holds the key"); VERIF_CANARY("non-restart return reachable"); }
  else VERIF_CANARY("restart return reachable");
  if (removed) { __CPROVER_assert(G_nret == 1 && G_ret[0] == G_rootleaf && OBS[2] && *(uint64_t *)(G_dbp + NLAY(POL, DB, ROOT)) == 0, "removing the last key: the leaf is made obsolete and retired once, the root becomes null"); VERIF_CANARY("root leaf removal reachable"); }
  else __CPROVER_assert(G_nret == 0 && !OBS[0] && !OBS[2] && *(uint64_t *)(G_dbp + NLAY(POL, DB, ROOT)) == root, "otherwise nothing is retired or made obsolete and the root is unchanged");
#else
  if (!G_head_seen) return;                                                       /* returns before the loop: covered by the entry proof */
  if (G_rocs_calls == 1) {
    __CPROVER_assert(G_outcome != 3, "a 'descend' outcome continues the loop");
    __CPROVER_assert(engaged == (G_outcome != 0) && (!engaged || val == (G_outcome == 2)), "the step's outcome is passed on: restart -> restart, false -> false, done -> true");
    VERIF_CANARY("return after the step reachable");
  } else { __CPROVER_assert(!engaged || !val, "without a step only a key-prefix mismatch returns: 'not found', or a restart when a section fails to validate"); VERIF_CANARY("prefix mismatch return reachable"); }
  __CPROVER_assert(G_nret == 0, "try_remove itself retires nothing in the loop (the step does)");
#endif
  VERIF_CANARY("try_remove returns");
}
