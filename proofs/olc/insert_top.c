/* C14 (+ C16 debug accounting, C08 lock state at a throw): olc_db<uint64_t>::try_insert, REAL code (empty tree, leaf split incl. creation and
 * initialisation of the new N4, key-prefix split incl. the in-place prefix cut under the node's write lock, section hand-over, the real
 * read_critical_section / write_guard objects), one thread, optimistic_lock primitives replaced by sequential contracts (as proofs/olc/aocs.c),
 * allocator failing nondeterministically, and the per-class olc_impl_helpers::add_or_choose_subtree<olc_inode_N> calls REPLACED BY THEIR
 * CONTRACT - the postcondition proved for the real bodies in aocs.c:
 *   requires  parent's and node's sections open on their locks, no write lock held
 *   ensures   no write lock held; each section object still open on its own lock or empty, counted sections == live section objects;
 *             restart | done (nullptr) | descend (both sections still open, slot of a non-null child inside the node) | exception
 * The loop is cut at its head.  Invariant: node is a non-null node word read from *node_in_parent, parent_critical_section is open on the
 * parent's lock, no node section is open, nothing is write-locked, cached_leaf is empty or a leaf made for this key.
 *   KIND 0: entry up to the loop head (empty tree: the leaf becomes the root under the root pointer's write lock)
 *   KIND 1: one iteration at a LEAF (key exists / leaf split)       KIND 2: one iteration at an INNER node (prefix split / step by contract)
 * Obligations on EVERY exit of try_insert, return or throw: no write lock held (C14); assertion-enabled extraction: read_lock_count of every
 * lock back at its entry value (C16); nothing is retired or made obsolete by try_insert itself. */
#include "verif_rt.h"
static void base_(void *node_p, void *pcs, void *nip_p); static void head_(void *node_p, void *pcs, void *ncs, void *nip_p, void *depth_p, void *rk_p, void *k_p, void *v_p); static void back_(void *node_p, void *pcs, void *nip_p);
#define VERIF_LOOP_HEAD_TRY_INSERT_while_2econd do { base_(&m_node, &m_parent_critical_section, &m_node_in_parent); VERIF_LOOP_HAVOC_TRY_INSERT_while_2econd; head_(&m_node, &m_parent_critical_section, &m_node_critical_section, &m_node_in_parent, &m_depth, &m_remaining_key, &m_k, &m_v); } while (0)
#define VERIF_LOOP_BACK_TRY_INSERT_while_2econd back_(&m_node, &m_parent_critical_section, &m_node_in_parent)
#include "x_types.h"
#include "x_body.h"
uint64_t W;                                   /* ghost witness index into the value bytes */
static void verif_memcpy_w(uint8_t *d, const uint8_t *s, uint64_t n) {
  if (n == 0) return;
  if (n <= 8) { for (unsigned i = 0; i < 8; i++) if (i < n) d[i] = s[i]; return; }
  if (W < n) d[W] = s[W];
}
#undef VERIF_MEMCPY
#define VERIF_MEMCPY(d, s, n) verif_memcpy_w((uint8_t *)(d), (const uint8_t *)(s), (n))
static void lg_on_alloc(uint8_t *p, uint64_t n); static void lg_on_free(uint8_t *p);
#define VERIF_ON_ALLOC(p, n) lg_on_alloc((uint8_t *)(p), (n))
#define VERIF_ON_FREE(p) lg_on_free((uint8_t *)(p))
#define VERIF_ALLOC_MAY_FAIL 1
#include "verif_models.h"
#define SUB_ANS_CLASSES 2
#include "../tree/tree_common.h"
PTR_FOREACH(ADT_DEF_PTR)
#ifdef HAVE_TAG_PTR
TAG_PTR_ret TAG_PTR(TAG_PTR_a0 p, TAG_PTR_a1 t) { return adt_tag((const uint8_t *)p, t); }
#endif
uint32_t X_memcmp(uint8_t *a, uint8_t *b, uint64_t n) { __CPROVER_assert(n <= 8, "memcmp of at most one 8-byte key"); return (uint32_t)memcmp(a, b, n); }
uint64_t X_pthread_self(void) { return 1; }
void X__ZNSt12length_errorC1EPKc(void *self, uint8_t *what) { }
#ifdef VERIF_CFG_DEBUG
#define LAY_IS_DEBUG 1
#else
#define LAY_IS_DEBUG 0
#endif
/* ---- ghost lock state: 0 root lock, 1 parent's lock (loop iterations), 2 node's lock */
#define NLOCKS 3
static uint8_t *LK[NLOCKS]; static _Bool WHELD[NLOCKS], OBS[NLOCKS]; static int64_t RLC0[NLOCKS];
static int lk_idx(const void *l) { for (int i = 0; i < NLOCKS; i++) if (LK[i] && LK[i] == (const uint8_t *)l) return i; __CPROVER_assert(0, "lock operations only on the root lock, the parent's or the node's lock"); return 0; }
#ifdef VERIF_CFG_DEBUG
#define RLC(l) (*(int64_t *)((uint8_t *)(l) + LAY_LOCK_RLC))
#else
static int64_t G_rlc[NLOCKS];
#define RLC(l) G_rlc[lk_idx(l)]
#endif
static void lock_init(int i, uint8_t *l) { LK[i] = l; WHELD[i] = 0; OBS[i] = 0; RLC0[i] = nondet_u64(); __CPROVER_assume(RLC0[i] >= 0 && RLC0[i] < (1LL << 40)); RLC(l) = RLC0[i]; }
static void no_write_lock_held(void) { for (int i = 0; i < NLOCKS; i++) __CPROVER_assert(!WHELD[i], "C14: no write lock is held (at a waiting point / at return / at a throw)"); }
void L_TRY_READ_LOCK(L_TRY_READ_LOCK_a0 out, L_TRY_READ_LOCK_a1 l) {
  (void)lk_idx(l); no_write_lock_held();
  if (nondet_bool()) { *(void **)out = 0; *(uint64_t *)((uint8_t *)out + 8) = 0; return; }
  RLC(l)++; *(void **)out = l; *(uint64_t *)((uint8_t *)out + 8) = nondet_u64() & ~3ULL;
}
_Bool L_CHECK(L_CHECK_a0 l, L_CHECK_a1 ver) { (void)lk_idx(l);
#ifdef VERIF_CFG_DEBUG
  __CPROVER_assert(RLC(l) > 0, "UNODB_DETAIL_ASSERT(read_lock_count > 0) holds: check / unlock only inside an open read section");
#endif
  _Bool ok = nondet_bool(); if (!ok) RLC(l)--; return ok; }
static _Bool G_alloc_under_wlock;
_Bool L_UPGRADE(L_UPGRADE_a0 l, L_UPGRADE_a1 ver) {
  int i = lk_idx(l); RLC(l)--;
  if (nondet_bool()) return 0;
  __CPROVER_assert(!WHELD[i], "C14: no second write guard on a lock already held");
  for (int j = i + 1; j < NLOCKS; j++) __CPROVER_assert(!WHELD[j], "C14: write locks are taken in root-to-leaf order");
  WHELD[i] = 1; return 1;
}
void L_WUNLOCK(L_WUNLOCK_a0 l) { int i = lk_idx(l); __CPROVER_assert(WHELD[i], "write_unlock only by the holder"); WHELD[i] = 0; }
void L_WOBSOLETE(L_WOBSOLETE_a0 l) { int i = lk_idx(l); __CPROVER_assert(WHELD[i], "write_unlock_and_obsolete only by the holder"); WHELD[i] = 0; OBS[i] = 1; }
#ifdef HAVE_L_IS_WLOCKED
_Bool L_IS_WLOCKED(L_IS_WLOCKED_a0 l) { return WHELD[lk_idx(l)]; }
#endif
#ifdef HAVE_L_IS_OBS_ME
_Bool L_IS_OBS_ME(L_IS_OBS_ME_a0 l) { return OBS[lk_idx(l)]; }
#endif
static uint8_t G_thread[8]; static unsigned G_nret;
THIS_THREAD_ret THIS_THREAD(void) { return (THIS_THREAD_ret)G_thread; }
#ifdef VERIF_CFG_STATS
#define RETIRE_SIZE , RETIRE_a2 size
#define RETIRE_CBT RETIRE_a3
#else
#define RETIRE_SIZE
#define RETIRE_CBT RETIRE_a2
#endif
#ifdef VERIF_CFG_DEBUG
#define RETIRE_EXTRA , RETIRE_CBT dbg_callback
#else
#define RETIRE_EXTRA
#endif
void RETIRE(RETIRE_a0 self, RETIRE_a1 p RETIRE_SIZE RETIRE_EXTRA) { G_nret++; }
struct rcs { void *lock; uint64_t ver; };
static uint8_t *G_dbp, *G_obj, *G_val, *G_cached0; static uint64_t *G_slot, *G_cip; static uint64_t G_childw, G_old; static _Bool G_head_seen; static unsigned G_aocs_calls; static int G_outcome = -1;
uint64_t IN_K, IN_vlen; unsigned IN_depth;
static uint8_t G_up[LAY_LEAFUP_SIZE]; static uint64_t G_prefix0;
/* number of leading bytes on which a and b agree, at most lim */
static unsigned shared_bytes(uint64_t a, uint64_t b, unsigned lim) { unsigned s = 0; for (unsigned i = 0; i < 8; i++) { if (i < lim && s == i && (uint8_t)(a >> (8 * i)) == (uint8_t)(b >> (8 * i))) s = i + 1; } return s; }
/* C01 for a split: the slot now holds a well-formed N4 with prefix = the s shared bytes of K from depth on, exactly two children: `oldw` under byte `ob`, a leaf for K under K's byte */
static void split_post2(uint8_t *np, uint8_t *lp, uint64_t neww, unsigned s_, uint8_t ob, uint64_t oldw) {
  __CPROVER_assert(neww == adt_tag(np, T_I4), "split: the slot holds the node allocated by this step");
  struct nview nn; nv_load(&nn, np, 1);
  __CPROVER_assert(nv_wf_small(&nn) && nn.count == 2, "C01/C10 split: the new node is a well-formed N4 with exactly two children");
  __CPROVER_assert(NV_PREFIX_LEN(&nn) == s_ && prefix_matches(nn.prefix, IN_depth, IN_K), "C01 split: its key prefix is exactly the bytes the two keys share from this depth on");
  uint8_t kb = kbyte(IN_K, IN_depth + s_);
  __CPROVER_assert(ob != kb && nv_child(&nn, ob) == oldw, "C01 split: the old subtree hangs under its own next key byte");
  __CPROVER_assert(nv_child(&nn, kb) == adt_tag(lp, T_LEAF) && LEAF_KEY(lp) == IN_K && LEAF_VLEN(lp) == IN_vlen, "C01 split: the new key's leaf hangs under the new key's next byte, with the given value length");
}
static void split_post(uint64_t neww, unsigned s_, uint8_t ob, uint64_t oldw) {
#ifdef FUNCPOST      /* the functional postcondition reads the new node and leaf: proved in the variant with short values (the long-value variant keeps the lock / ledger obligations) */
  /* the new node is the last block allocated, the leaf the cached one or the first block allocated (pointers from the ledger; one branch per case so that each is a plain object) */
  __CPROVER_assert(lg_allocs == (G_cached0 ? 1u : 2u), "split: allocates the node, and the leaf unless one was cached");
  if (G_cached0 && lg_allocs == 1) split_post2(lg_alloc_p[0], G_cached0, neww, s_, ob, oldw);
  else if (!G_cached0 && lg_allocs == 2) split_post2(lg_alloc_p[1], lg_alloc_p[0], neww, s_, ob, oldw);
#endif
}
/* ---- the contract of add_or_choose_subtree (proved for the real bodies in proofs/olc/aocs.c), used in place of all four instantiations */
static void maybe_close(struct rcs *s) { if (s->lock && nondet_bool()) { RLC(s->lock)--; if (LAY_IS_DEBUG || nondet_bool()) s->lock = 0; } }
struct aocs_ret { uint64_t *cip; uint8_t engaged; };
static struct aocs_ret aocs_contract(void *inode, void *db, struct rcs *ncs, uint64_t *nip, struct rcs *pcs, void *cached) {
  struct aocs_ret r = {0, 0};
  __CPROVER_assert(G_head_seen && G_aocs_calls == 0, "one call per iteration");
  G_aocs_calls++;
  no_write_lock_held();
  __CPROVER_assert(inode == (void *)G_obj && db == (void *)G_dbp && nip == G_slot && cached == (void *)G_up, "contract requires: the node under the cursor, its slot in the parent, this index, the caller's cached leaf");
  __CPROVER_assert(pcs->lock == (void *)LK[1] && ncs->lock == (void *)LK[2], "contract requires: the parent's and the node's sections are open on their locks");
  G_outcome = nondet_int(); __CPROVER_assume(G_outcome >= 0 && G_outcome <= 3);
  if (G_outcome == 2) {                                              /* descend: nothing changed, both sections open */
    G_childw = nondet_u64(); __CPROVER_assume(G_childw != 0);
    G_cip = (uint64_t *)(G_obj + n_off_children(4)); *G_cip = G_childw; r.cip = G_cip; r.engaged = 1; return r;
  }
  maybe_close(pcs); maybe_close(ncs);
  uint8_t **cp = (uint8_t **)(G_up + LAY_LEAFUP_PTR);
  if (G_outcome == 1) { *cp = 0; r.engaged = 1; return r; }          /* done: the leaf went into the tree */
  if (*cp == 0 && nondet_bool()) { __CPROVER_assume(IN_vlen <= 3); *cp = mk_leaf_obj(3); }   /* restart / exception: a leaf may have been created and cached for the retry */
  if (G_outcome == 3) verif_exc_pending = 1;                         /* bad_alloc / length_error */
  r.cip = (uint64_t *)nondet_ptr(); return r;
}
#define DEF_AOCS(A) A##_ret A(A##_a0 inode, A##_a1 kb, A##_a2 k, A##_a3 vp, A##_a4 vn, A##_a5 db, A##_a6 depth, A##_a7 ncs, A##_a8 nip, A##_a9 pcs, A##_a10 cached) { \
  struct aocs_ret r = aocs_contract((void *)inode, (void *)db, (struct rcs *)ncs, (uint64_t *)nip, (struct rcs *)pcs, (void *)cached); \
  A##_ret o; *(uint64_t **)&o = r.cip; *((uint8_t *)&o + 8) = r.engaged; return o; }
AOCS_FOREACH(DEF_AOCS)
static void base_(void *node_p, void *pcs_, void *nip_p) {
  struct rcs *pcs = pcs_;
  uint64_t w = *(uint64_t *)node_p;
  __CPROVER_assert(w != 0 && w == *(uint64_t *)(G_dbp + NLAY(POL, DB, ROOT)), "invariant on entry (base): node is the non-null root");
  __CPROVER_assert(pcs->lock == (void *)LK[0] && *(void **)nip_p == (void *)(G_dbp + NLAY(POL, DB, ROOT)), "invariant on entry (base): the root pointer's section is open, node_in_parent is the root pointer");
  no_write_lock_held();
#ifdef VERIF_CFG_DEBUG
  __CPROVER_assert(RLC(LK[0]) == RLC0[0] + 1, "C16 (base): exactly this section is counted");
#endif
#if KIND == 0
  VERIF_CANARY("loop head reachable from the entry");
  __CPROVER_assume(0);
#endif
}
static void stats_assumptions(void) {
#if defined(VERIF_CFG_STATS)
  struct stats s; stats_load(&s, G_dbp);
  __CPROVER_assume(s.mem >= n_size(4) + 2 * LEAF_ALLOC_SIZE(3) && s.mem < (1ULL << 60));
  for (unsigned i = 0; i < 5; i++) __CPROVER_assume(s.cnt[i] >= 1 && s.cnt[i] < (1ULL << 60));
  for (unsigned i = 0; i < 4; i++) __CPROVER_assume(s.grow[i] < (1ULL << 60) && s.shrink[i] <= s.grow[i] && s.grow[i] - s.shrink[i] >= s.cnt[i + 1]);
  __CPROVER_assume(*(uint64_t *)(G_dbp + NLAY(POL, DB, SPLITS)) < (1ULL << 60));
#endif
}
static void head_(void *node_p, void *pcs_, void *ncs_, void *nip_p, void *depth_p, void *rk_p, void *k_p, void *v_p) {
  struct rcs *pcs = pcs_, *ncs = ncs_;
  G_head_seen = 1;
  *(uint64_t *)k_p = IN_K; *(uint8_t **)v_p = G_val; *(uint64_t *)((uint8_t *)v_p + 8) = IN_vlen;
  IN_depth = nondet_uint(); __CPROVER_assume(IN_depth < 8); *(uint32_t *)depth_p = IN_depth; *(uint64_t *)rk_p = IN_K >> (8 * IN_depth);
#if KIND == 1
  G_obj = mk_leaf_obj(3); __CPROVER_assume(((LEAF_KEY(G_obj) ^ IN_K) & lowmask(IN_depth)) == 0);      /* path consistency: the leaf lies on K's path */
  G_old = adt_tag(G_obj, T_LEAF);
#else
  G_obj = malloc(NLAY(POL, I256, SIZE)); __CPROVER_assume(G_obj != 0);                                  /* only the header and the key prefix are touched here */
  __CPROVER_assume(N_PREFIX_LEN(G_obj, 1) <= 7 && IN_depth + N_PREFIX_LEN(G_obj, 1) < 8);
  G_old = adt_tag(G_obj, 1 + nondet_uint() % 4); G_prefix0 = N_PREFIX(G_obj, 1);
#endif
  *(uint64_t *)node_p = G_old;
  lock_init(0, G_dbp + NLAY(POL, DB, ROOTLOCK)); lock_init(1, malloc(LAY_LOCK_SIZE)); __CPROVER_assume(LK[1] != 0); lock_init(2, G_obj);
  pcs->lock = LK[1]; pcs->ver = nondet_u64() & ~3ULL; RLC(LK[1])++;
  ncs->lock = 0; ncs->ver = 0;
  G_slot = malloc(8); __CPROVER_assume(G_slot != 0); *G_slot = G_old; *(uint64_t **)nip_p = G_slot;
  *(void **)(G_up + LAY_LEAFUP_DB) = (void *)G_dbp; G_cached0 = 0;
  if (nondet_bool()) { __CPROVER_assume(IN_vlen <= 3); G_cached0 = mk_leaf_obj(3); __CPROVER_assume(LEAF_KEY(G_cached0) == IN_K && LEAF_VLEN(G_cached0) == IN_vlen); }
  *(uint8_t **)(G_up + LAY_LEAFUP_PTR) = G_cached0;
  lg_allocs = 0; lg_frees = 0; G_nret = 0;
  stats_assumptions();
}
static void back_(void *node_p, void *pcs_, void *nip_p) {
  struct rcs *pcs = pcs_;
  __CPROVER_assert(KIND == 2 && G_aocs_calls == 1 && G_outcome == 2, "invariant preserved (step): the loop continues only after a 'descend' outcome at an inner node");
  __CPROVER_assert(*(uint64_t *)node_p == G_childw && *(uint64_t **)nip_p == G_cip && G_childw != 0, "invariant preserved (step): the cursor moves to exactly the non-null child read from the slot handed out");
  __CPROVER_assert(pcs->lock == (void *)LK[2], "lock coupling invariant (step): the node's section becomes the parent section");
  no_write_lock_held();
#ifdef VERIF_CFG_DEBUG
  __CPROVER_assert(RLC(LK[0]) == RLC0[0] && RLC(LK[1]) == RLC0[1] && RLC(LK[2]) == RLC0[2] + 1, "C16 (step): the old parent section is closed, exactly the new parent section is counted");
#endif
  { uint8_t *c = *(uint8_t **)(G_up + LAY_LEAFUP_PTR); __CPROVER_assert(c == G_cached0, "invariant preserved (step): a descent leaves the cached leaf alone"); }
#if KIND == 2
  VERIF_CANARY("descent reachable");
#endif
  __CPROVER_assume(0);
}
void harness(void) {
  TRY_INSERT_a0 db = malloc(sizeof(*db)); __CPROVER_assume(db != 0); G_dbp = (uint8_t *)db;
  IN_K = nondet_u64(); IN_vlen = nondet_u64(); W = nondet_u64(); __CPROVER_assume(IN_vlen <= (1ULL << 33));
#ifdef FUNCPOST
  IN_vlen = 1;                 /* a constant: the leaf is then an object of constant size (all lengths: aocs / leafmk jobs) */
#endif
  G_val = malloc(IN_vlen); __CPROVER_assume(G_val != 0);
  uint64_t root = nondet_u64();
#if KIND != 0
  __CPROVER_assume(root != 0);
#endif
  lock_init(0, G_dbp + NLAY(POL, DB, ROOTLOCK));
  *(uint64_t *)(G_dbp + NLAY(POL, DB, ROOT)) = root;
  *(void **)(G_up + LAY_LEAFUP_DB) = (void *)G_dbp; G_cached0 = 0;
  if (nondet_bool()) { __CPROVER_assume(IN_vlen <= 3); G_cached0 = mk_leaf_obj(3); __CPROVER_assume(LEAF_KEY(G_cached0) == IN_K && LEAF_VLEN(G_cached0) == IN_vlen); }
  *(uint8_t **)(G_up + LAY_LEAFUP_PTR) = G_cached0;
  stats_assumptions();
  uint16_t r = TRY_INSERT(db, IN_K, (TRY_INSERT_a2)G_val, IN_vlen, (TRY_INSERT_a4)G_up);
  _Bool engaged = (r >> 8) & 1, val = r & 1;
  uint8_t *cached1 = *(uint8_t **)(G_up + LAY_LEAFUP_PTR);
  /* ------------------------------------------------------------------ every exit of try_insert, return or throw */
  no_write_lock_held();
#ifdef VERIF_CFG_DEBUG
  for (int i = 0; i < NLOCKS; i++) if (LK[i]) __CPROVER_assert(RLC(LK[i]) == RLC0[i], "C16: every read section opened by the operation is closed again on every exit path (restart, result or throw)");
#endif
  __CPROVER_assert(G_nret == 0 && !OBS[0] && !OBS[1] && !OBS[2], "try_insert itself retires nothing and makes nothing obsolete (the step does, on growth)");
  if (verif_exc_pending) {
    __CPROVER_assert(G_outcome == 3 || IN_vlen > 0xFFFFFFFFull || verif_alloc_calls >= 1, "an exception is the step's, a length error or a failed allocation");
    if (G_aocs_calls == 0) __CPROVER_assert((G_head_seen ? *G_slot == G_old : *(uint64_t *)(G_dbp + NLAY(POL, DB, ROOT)) == root), "C08: a throw leaves the slot unchanged");
    VERIF_CANARY("exceptional exit reachable");
    return;
  }
#if KIND == 0
  __CPROVER_assert(!G_head_seen && (root == 0 || !engaged), "entry proof: only the empty-tree path and restarts return before the loop");
  if (engaged) {
    uint64_t nr = *(uint64_t *)(G_dbp + NLAY(POL, DB, ROOT));
    __CPROVER_assert(root == 0 && val && (nr & 7) == T_LEAF && nr != 0 && cached1 == 0 && LEAF_KEY(adt_ptr(nr)) == IN_K, "insert into the empty tree: a leaf with the key becomes the root, the cached leaf's ownership moved");
    VERIF_CANARY("empty-tree insert reachable");
  } else { __CPROVER_assert(*(uint64_t *)(G_dbp + NLAY(POL, DB, ROOT)) == root, "restart: root unchanged"); VERIF_CANARY("restart return reachable"); }
#else
  if (!G_head_seen) return;                                                       /* exits before the loop: covered by the entry proof */
#if KIND == 1
  _Bool exists = LEAF_KEY(G_obj) == IN_K;
  if (engaged) {
    __CPROVER_assert(val == !exists, "single-threaded result at a leaf: false iff the key exists");
    if (exists) { __CPROVER_assert(*G_slot == G_old && cached1 == 0 && lg_allocs == 0 && (G_cached0 == 0 ? lg_frees == 0 : (lg_frees == 1 && lg_freed(G_cached0))), "key exists: nothing changes; a cached (never published) leaf is released"); VERIF_CANARY("exists reachable"); }
    else { __CPROVER_assert((*G_slot & 7) == T_I4 && adt_known(*G_slot) && lg_allocated(adt_ptr(*G_slot)) && cached1 == 0 && lg_frees == 0, "leaf split: a new N4 takes the slot, the cached leaf's ownership moved into it, nothing freed");
      { uint64_t ek = LEAF_KEY(G_obj); unsigned s_ = shared_bytes(ek >> (8 * IN_depth), IN_K >> (8 * IN_depth), 8 - IN_depth); split_post(*G_slot, s_, kbyte(ek, IN_depth + s_), G_old); }
      VERIF_CANARY("leaf split reachable"); }
  } else { __CPROVER_assert(*G_slot == G_old, "restart: slot unchanged"); VERIF_CANARY("restart return reachable"); }
#else
  if (G_aocs_calls == 1) {
    __CPROVER_assert(!(engaged && G_outcome == 0) && (G_outcome != 1 || (engaged && val)), "the step's outcome is passed on: restart -> restart, done -> true (a descend may still end in a restart)");
    VERIF_CANARY("return after the step reachable");
  } else if (engaged) {
    __CPROVER_assert(val && (*G_slot & 7) == T_I4 && adt_known(*G_slot) && lg_allocated(adt_ptr(*G_slot)) && cached1 == 0 && lg_frees == 0, "prefix split: a new N4 takes the slot, the leaf's ownership moved into it, nothing freed");
    { unsigned L0 = kp_len(G_prefix0), s_ = shared_bytes(G_prefix0, IN_K >> (8 * IN_depth), L0);
      __CPROVER_assert(s_ < L0, "a prefix split happens only on a proper mismatch inside the prefix");
      split_post(*G_slot, s_, kp_byte(G_prefix0, s_), G_old);
      { uint64_t r_ = N_PREFIX(G_obj, 1); unsigned L1 = L0 - s_ - 1;
        __CPROVER_assert(kp_len(r_) == L1 && ((r_ ^ (G_prefix0 >> (8 * (s_ + 1)))) & lowmask(L1)) == 0, "C01 prefix split: the old node keeps exactly the prefix bytes after the split byte"); } }
    VERIF_CANARY("prefix split reachable");
  } else { __CPROVER_assert(*G_slot == G_old, "restart: slot unchanged"); VERIF_CANARY("restart return reachable"); }
#endif
#endif
  VERIF_CANARY("try_insert returns");
}
