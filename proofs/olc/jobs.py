# C14 / C01 (olc sequential) / C16: OLC operations with the lock primitives replaced by sequential contracts
SPAN = r'std::span<std::byte const, \d+ul>'
O64 = r'^unodb::olc_db<unsigned long, %s >::' % SPAN
L = r'^unodb::optimistic_lock::'
ADT = {'PTR*': r'^auto\* unodb::detail::basic_node_ptr<unodb::detail::olc_node_header>::ptr<', 'TAG_PTR?': r'^unodb::detail::basic_node_ptr<unodb::detail::olc_node_header>::tag_ptr\('}
def onode_rx(n): return r'^unodb::detail::(basic_inode_%d<unodb::detail::basic_art_policy<unsigned long, %s, unodb::olc_db, .*>|olc_inode_%d<unsigned long, %s >)::' % (n, SPAN, n, SPAN)
CLSN = {1: 4, 2: 16, 3: 48, 4: 256}
for kind in range(5):
    n = CLSN.get(kind, 4)
    stubs = dict(ADT); stubs.update({'L_TRY_READ_LOCK': L + r'try_read_lock\(\)', 'L_CHECK': L + r'check\(unodb::optimistic_lock::version_type\) const'})
    job('olc.get.k%d' % kind, ['C14', 'C01', 'C16'], 'u_olc', 'proofs/olc/get.c', defines=['KIND=%d' % kind, 'POL=OLC64'],
        roots={'TRY_GET': O64 + r'try_get\(', 'NODE_FIND': ((r'^unodb::detail::olc_inode_16<unsigned long, %s >::' % SPAN) if n == 16 else onode_rx(n)) + r'find_child\(std::byte\)'}, stubs=stubs, cut=['TRY_GET/while_2econd'], cfgs=(BASE, DEBUG), thorough_cfgs=ALL_CFGS,
        unwind=(258 if kind >= 3 else 40), floor=30, timeout=900, memsafe=False,
        under_contract=['olc_db<uint64_t>::try_get (descent step at node kind %d, lock coupling)' % kind],
        trusted=['sequential contracts of the optimistic_lock primitives (their concurrent semantics: C07)', 'one thread only: no claim about interleavings'])
# remove_or_choose_subtree: the lock-coupled removal step (write guards parent -> node -> child, obsolete + retire)
LW = {'L_TRY_READ_LOCK': L + r'try_read_lock\(\)', 'L_CHECK': L + r'check\(unodb::optimistic_lock::version_type\) const',
      'L_UPGRADE': L + r'try_upgrade_to_write_lock\(', 'L_WUNLOCK': L + r'write_unlock\(\)', 'L_WOBSOLETE': L + r'write_unlock_and_obsolete\(\)',
      'L_IS_WLOCKED?': L + r'is_write_locked\(\) const', 'L_IS_OBS_ME?': L + r'is_obsoleted_by_this_thread\(\) const',
      'RETIRE': r'^unodb::qsbr_per_thread::on_next_epoch_deallocate\(', 'THIS_THREAD': r'^unodb::this_thread\(\)'}
SPEC_LOOPS = {'nv_load.0': 260, 'nv_load.1': 260, 'nv_child.0': 18, 'nv_wf_small.0': 18, 'nv_wf_48_full.0': 50, 'nv_wf_48_full.1': 260, 'nv_wf_256_full.0': 260, 'node_wf.0': 50, 'adt_tag.0': 10,
              'lk_idx.0': 6, 'no_write_lock_held.0': 6, 'retired.0': 6, 'lg_freed.0': 6, 'lg_on_free.0': 6, 'stats_load.0': 7, 'stats_load.1': 6, 'stats_check.0': 7, 'stats_check.1': 6, 'memcmp.0': 10}
UNW = {1: 10, 2: 19, 3: 258, 4: 258}
def copy_rx(dst, src, tail): return onode_rx(dst) + r'init\(unodb::olc_db<.*>&, unodb::detail::olc_inode_%d<[^()]*>&, %s' % (src, tail)
for kind in (1, 2, 3, 4):
    n = CLSN[kind]; stubs = dict(ADT); stubs.update(LW)
    if kind >= 3: stubs['P_INIT'] = copy_rx(CLSN[kind - 1], n, r'unsigned char\)')
    job('olc.rocs.k%d' % kind, ['C14', 'C16', 'C10', 'C08'], 'u_olc', 'proofs/olc/rocs.c', defines=['KIND=%d' % kind, 'POL=OLC64'],
        roots={'ROCS': r'unodb::detail::olc_impl_helpers::remove_or_choose_subtree<[^(]*olc_inode_%d<' % n}, stubs=stubs, cfgs=(BASE, DEBUG), thorough_cfgs=ALL_CFGS,
        unwind=UNW[kind], unwindset_raw=SPEC_LOOPS, floor=30, timeout=1800, mem_gb=(12 if kind <= 2 else 20), memsafe=False, objbits=14,
        under_contract=['olc_impl_helpers::remove_or_choose_subtree<olc_inode_%d> (lock-coupled removal step incl. write guards, obsolete, QSBR retire)' % n],
        trusted=['sequential contracts of the optimistic_lock primitives (their concurrent semantics: C07)', 'one thread only: no claim about interleavings',
                 'qsbr_per_thread::on_next_epoch_deallocate is a ledger event'] + (['basic_inode_%d::init(db, inode_%d&, child_to_delete) (shrink copy routine): no lock operation (IR fact olc.copy-routines.no-locks); memory / statistics / retire effects not modelled, shrink postconditions C10/C04-seq not claimed for this class' % (CLSN[kind - 1], n)] if kind >= 3 else []))
QS = {'RETIRE': LW['RETIRE'], 'THIS_THREAD': LW['THIS_THREAD']}
job('olc.copy-routines.no-locks', ['C14'], 'u_olc', 'proofs/olc/rocs.c', cfgs=(BASE, DEBUG), thorough_cfgs=ALL_CFGS, floor=2,
    irfacts=[('closure-free-of', copy_rx(48, 16, r'std::unique_ptr<'), r'^unodb::optimistic_lock::(try_|write_|check\(|inc_|dec_|write_guard::|read_critical_section::)', QS),
             ('closure-free-of', copy_rx(256, 48, r'std::unique_ptr<'), r'^unodb::optimistic_lock::(try_|write_|check\(|inc_|dec_|write_guard::|read_critical_section::)', QS),
             ('closure-free-of', copy_rx(16, 48, r'unsigned char\)'), r'^unodb::optimistic_lock::(try_|write_|check\(|inc_|dec_|write_guard::|read_critical_section::)', QS), ('closure-free-of', copy_rx(48, 256, r'unsigned char\)'), r'^unodb::optimistic_lock::(try_|write_|check\(|inc_|dec_|write_guard::|read_critical_section::)', QS)],
    under_contract=['basic_inode_16::init(db, inode_48&, uint8_t), basic_inode_48::init(db, inode_256&, uint8_t): call closure free of lock primitives (static IR fact, supporting)'])

# try_remove: entry + one loop iteration, with the four remove_or_choose_subtree instantiations replaced by the contract proved in olc.rocs.k1..k4
for kind in (0, 1):
    stubs = dict(ADT); stubs.update(LW); stubs['ROCS*'] = r'unodb::detail::olc_impl_helpers::remove_or_choose_subtree<[^(]*olc_inode_\d+<'
    job('olc.remove.top%d' % kind, ['C14', 'C16'], 'u_olc', 'proofs/olc/remove_top.c', defines=['KIND=%d' % kind, 'POL=OLC64'],
        roots={'TRY_REMOVE': O64 + r'try_remove\('}, stubs=stubs, cut=['TRY_REMOVE/while_2econd'], cfgs=(BASE, DEBUG), thorough_cfgs=ALL_CFGS,
        unwind=10, floor=20, timeout=900, memsafe=False, objbits=14,
        under_contract=['olc_db<uint64_t>::try_remove (%s)' % ('entry: empty / leaf root / inner root up to the loop head' if kind == 0 else 'one descent-loop iteration, callee remove_or_choose_subtree by contract')],
        trusted=['sequential contracts of the optimistic_lock primitives (their concurrent semantics: C07)', 'one thread only: no claim about interleavings'])
# add_or_choose_subtree: the lock-coupled insertion step (write guards parent -> node; growth to the next larger class)
for kind, fp in ((1, 0), (2, 0), (3, 0), (4, 0), (1, 1), (2, 1)):
    n = CLSN[kind]; stubs = dict(ADT); stubs.update(LW)
    if kind in (3,): stubs['P_GROW'] = copy_rx(CLSN[kind + 1], n, r'std::unique_ptr<')
    job('olc.aocs.k%d%s' % (kind, 'f' if fp else ''), (['C01', 'C10', 'C16'] if fp else ['C14', 'C16', 'C10', 'C08']), 'u_olc', 'proofs/olc/aocs.c', defines=['KIND=%d' % kind, 'POL=OLC64'] + (['FUNCPOST=1'] if fp else []),
        roots=dict({'AOCS': r'unodb::detail::olc_impl_helpers::add_or_choose_subtree<[^(]*olc_inode_%d<' % n}, **({'N48_ADD': onode_rx(48) + r'add_to_nonfull\('} if kind == 3 else {})), stubs=stubs, cfgs=(BASE, DEBUG), thorough_cfgs=ALL_CFGS,
        unwind={1: 19, 2: 50, 3: 258, 4: 258}[kind], unwindset_raw=SPEC_LOOPS, unwindset=({'N48_ADD': 8} if kind == 3 else None), floor=30, timeout=1800, mem_gb=(12 if kind == 1 else 20), memsafe=False, objbits=14,
        under_contract=['olc_impl_helpers::add_or_choose_subtree<olc_inode_%d> (lock-coupled insertion step incl. write guards, growth, allocation failure)' % n],
        trusted=['sequential contracts of the optimistic_lock primitives (their concurrent semantics: C07)', 'one thread only: no claim about interleavings',
                 'qsbr_per_thread::on_next_epoch_deallocate is a ledger event'] + (['basic_inode_%d::init(db, inode_%d&, leaf, depth) (growth copy routine): no lock operation (IR fact olc.copy-routines.no-locks), takes the leaf; memory / statistics / retire effects not modelled, growth postconditions C10/C04-seq not claimed for this class' % (CLSN[kind + 1], n)] if kind in (3,) else []))
# try_insert: entry + one loop iteration at a leaf / at an inner node, with the four add_or_choose_subtree instantiations replaced by the contract proved in olc.aocs.k1..k4
for kind, fp in ((0, 0), (1, 0), (2, 0), (1, 1), (2, 1)):
    stubs = dict(ADT); stubs.update(LW); stubs['AOCS*'] = r'unodb::detail::olc_impl_helpers::add_or_choose_subtree<[^(]*olc_inode_\d+<'
    job('olc.insert.top%d%s' % (kind, 'f' if fp else ''), (['C01', 'C10', 'C16'] if fp else ['C14', 'C16', 'C08']), 'u_olc', 'proofs/olc/insert_top.c', defines=['KIND=%d' % kind, 'POL=OLC64'] + (['FUNCPOST=1'] if fp else []),
        roots={'TRY_INSERT': O64 + r'try_insert\('}, stubs=stubs, cut=['TRY_INSERT/while_2econd'], cfgs=(BASE, DEBUG), thorough_cfgs=ALL_CFGS,
        unwind=10, floor=20, timeout=900, memsafe=False, objbits=14,
        under_contract=['olc_db<uint64_t>::try_insert (%s)' % ('entry: empty tree, non-empty up to the loop head' if kind == 0 else 'one loop iteration at a leaf (exists / leaf split)' if kind == 1 else 'one loop iteration at an inner node (prefix split / callee add_or_choose_subtree by contract)')],
        trusted=['sequential contracts of the optimistic_lock primitives (their concurrent semantics: C07)', 'one thread only: no claim about interleavings'])
# read-only operations never take a write lock: static fact over the call closure of each entry point (supporting C14 for get and the scans,
# whose per-step lock coupling is otherwise only proved for try_get)
NOWR = r'^unodb::optimistic_lock::(try_upgrade_to_write_lock|try_lock|write_unlock|write_unlock_and_obsolete|write_guard::)'
CUTQ = {'THIS_THREAD?': LW['THIS_THREAD'], 'REG?': r'^unodb::detail::qsbr_ptr_base::register_active_ptr\(', 'UNREG?': r'^unodb::detail::qsbr_ptr_base::unregister_active_ptr\('}
job('olc.readers.no-write-locks', ['C14'], 'u_olc', 'proofs/olc/get.c', cfgs=(BASE, DEBUG), thorough_cfgs=ALL_CFGS, floor=5,
    irfacts=[('closure-free-of', O64 + r'get_internal\(', NOWR, CUTQ)] +
            [('closure-free-of', O64 + r'iterator::%s\(' % f, NOWR, CUTQ) for f in ('first', 'last', 'next', 'prior', 'seek')] +
            [('closure-free-of', r'^void unodb::olc_db<unsigned long, %s >::%s<' % (SPAN, f), NOWR, CUTQ) for f in ('scan', 'scan_from', 'scan_range')],
    under_contract=['olc_db::get_internal, iterator::first/last/next/prior/seek, scan/scan_from/scan_range: call closure free of write-lock primitives (static IR fact, supporting)'])
# ---- OLC iterator: lock coupling of seek / traversals / next / prior (read sections only), node readers and stack operations by contract
IT = O64 + r'iterator::'
INODE = r'^unodb::detail::basic_inode_impl<.*unodb::olc_db.*>::'
ITSTUBS = {'L_TRY_READ_LOCK': L + r'try_read_lock\(\)', 'L_CHECK': L + r'check\(unodb::optimistic_lock::version_type\) const', 'L_REHYDRATE?': L + r'rehydrate_read_lock\(',
           'PTR*': ADT['PTR*'], 'TRY_PUSH4?': IT + r'try_push\(unodb::detail::basic_node_ptr', 'TRY_PUSH2?': IT + r'try_push\(unodb::detail::iter_result', 'TRY_PUSH_LEAF?': IT + r'try_push_leaf\(',
           'INVALIDATE?': IT + r'invalidate\(\)', 'TOP?': IT + r'top\(\)', 'EMPTY?': IT + r'empty\(\) const', 'POP?': IT + r'pop\(\)',
           'N_BEGIN?': INODE + r'begin\(unodb::node_type\)', 'N_LAST?': INODE + r'last\(unodb::node_type\)', 'N_NEXT?': INODE + r'next\(unodb::node_type, unsigned char\)', 'N_PRIOR?': INODE + r'prior\(unodb::node_type, unsigned char\)',
           'N_FIND?': INODE + r'find_child\(unodb::node_type, std::byte\)', 'N_GTE?': INODE + r'gte_key_byte\(unodb::node_type, std::byte\)', 'N_LTE?': INODE + r'lte_key_byte\(unodb::node_type, std::byte\)',
           'N_GETCHILD?': INODE + r'get_child\(unodb::node_type, unsigned char\)', 'LEAF_CMP?': r'^unodb::detail::basic_leaf<unsigned long, unodb::detail::olc_node_header>::cmp\('}
ITFUNCS = {'seek': ('TRY_SEEK', r'try_seek\(', 3), 'lmt': ('TRY_LMT', r'try_left_most_traversal\(', 3), 'rmt': ('TRY_RMT', r'try_right_most_traversal\(', 3),
           'next': ('TRY_NEXT', r'try_next\(\)', 2), 'prior': ('TRY_PRIOR', r'try_prior\(\)', 2), 'first': ('TRY_FIRST', r'try_first\(\)', 1), 'last': ('TRY_LAST', r'try_last\(\)', 1)}
for f, (alias, rx, nk) in ITFUNCS.items():
    for kind in range(nk):
        stubs = dict(ITSTUBS)
        for g, (a2, rx2, _) in ITFUNCS.items():
            if g != f and g in ('lmt', 'rmt', 'next', 'prior'): stubs[a2 + '?'] = IT + rx2
        job('olc.iter.%s.k%d' % (f, kind), ['C14', 'C16'], 'u_olc', 'proofs/olc/iter.c', defines=['KIND=%d' % kind, 'POL=OLC64', 'FUNC_%s=1' % f.upper()],
            roots={alias: IT + rx}, stubs=stubs, cut=([] if f in ('first', 'last') else ['%s/%s' % (alias, 'while_2econd' if f in ('seek', 'next', 'prior') else 'while_2ebody')]), cfgs=(BASE, DEBUG), thorough_cfgs=ALL_CFGS,
            unwind=10, floor=5, timeout=900, memsafe=False, objbits=14, replay=('replay/olc_seek_rcs_debug_scenario.cpp' if f == 'seek' else None),
            under_contract=['olc_db<uint64_t>::iterator::%s (read-section coupling; %s)' % (rx.split('\\')[0], 'straight-line' if nk == 1 else 'entry' if kind == 0 else 'loop iteration, case %d' % kind)],
            trusted=['sequential contracts of the optimistic_lock primitives (their concurrent semantics: C07)', 'one thread only', 'iterator stack / key buffer operations and the per-class node readers by contract: arbitrary results, no lock operation'])
