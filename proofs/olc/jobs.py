# C14 / C01 (olc sequential) / C16: OLC operations with the lock primitives replaced by sequential contracts
SPAN = r'std::span<std::byte const, \d+ul>'
O64 = r'^unodb::olc_db<unsigned long, %s >::' % SPAN
L = r'^unodb::optimistic_lock::'
ADT = {'PTR*': r'^auto\* unodb::detail::basic_node_ptr<unodb::detail::olc_node_header>::ptr<', 'TAG_PTR?': r'^unodb::detail::basic_node_ptr<unodb::detail::olc_node_header>::tag_ptr\('}
def onode_rx(n): return r'^unodb::detail::(basic_inode_%d<unodb::detail::basic_art_policy<unsigned long, %s, unodb::olc_db, .*>|olc_inode_%d<unsigned long, %s >)::' % (n, SPAN, n, SPAN)
CLSN = {1: 4, 2: 16, 3: 48, 4: 256}
for kind in range(5):
    n = CLSN.get(kind, 4)
    stubs = dict(ADT); stubs.update({'L_TRY_READ_LOCK': L + r'try_read_lock\(\)', 'L_CHECK': L + r'check\(unodb::optimistic_lock::version_type\) const'})
    job('olc.get.k%d' % kind, ['C14', 'C01', 'C16'], 'u_olc', 'proofs/olc/get.c', defines=['KIND=%d' % kind, 'POL=OLC64'],
        roots={'TRY_GET': O64 + r'try_get\(', 'NODE_FIND': ((r'^unodb::detail::olc_inode_16<unsigned long, %s >::' % SPAN) if n == 16 else onode_rx(n)) + r'find_child\(std::byte\)'}, stubs=stubs, cut=['TRY_GET/while_2econd'], cfgs=(BASE, DEBUG),
        unwind=(258 if kind >= 3 else 40), floor=30, timeout=900, memsafe=False,
        under_contract=['olc_db<uint64_t>::try_get (descent step at node kind %d, lock coupling)' % kind],
        trusted=['sequential contracts of the optimistic_lock primitives (their concurrent semantics: C07)', 'one thread only: no claim about interleavings'])
