/* C14 (+ C16 debug accounting, C08 at allocation failure, C10 shape/accounting of the step): olc_impl_helpers::add_or_choose_subtree<olc_inode_N>,
 * REAL code (find_child, create_leaf_if_needed, creation + initialisation of the next larger class, add_to_nonfull, the real read_critical_section /
 * write_guard objects, inode QSBR deleter), one thread, optimistic_lock primitives replaced by sequential contracts over ghost state per lock,
 * allocator failing nondeterministically at every allocation, value length beyond the 2^32-1 limit included.
 *   requires  the parent's and the node's read sections are open, no write lock held, node is a well-formed node of class KIND,
 *             key_byte == the key's byte at `depth`, cached_leaf empty or a leaf made for this key by an earlier attempt
 *   ensures on EVERY exit (restart, done, descend, exception):
 *     C14  no write lock is held; write locks only by upgrade of a section on the same lock, parent before node; nothing waits while holding one
 *     C16  (assertion-enabled extraction) counted read sections == live section objects
 *     descend (child present): nothing changed, both sections still open, the slot of the child is handed out
 *     done (absent): non-full: child added in place under the node's write lock; full: replaced by a node of the next larger class, the old node
 *          made obsolete and retired once (never freed directly); statistics move by exactly this
 *     restart / exception: parent slot, child count and statistics (up to a cached leaf created for the retry) unchanged, nothing retired or
 *          made obsolete; a never-published larger node is freed again; the cached leaf stays owned by the caller */
#include "verif_rt.h"
#include "x_types.h"
#include "x_body.h"
static void lg_on_alloc(uint8_t *p, uint64_t n); static void lg_on_free(uint8_t *p);
#define VERIF_ON_ALLOC(p, n) lg_on_alloc((uint8_t *)(p), (n))
#define VERIF_ON_FREE(p) lg_on_free((uint8_t *)(p))
#define VERIF_ALLOC_MAY_FAIL 1
#include "verif_models.h"
#define SUB_ANS_CLASSES 2
#include "../tree/tree_common.h"
PTR_FOREACH(ADT_DEF_PTR)
#ifdef HAVE_TAG_PTR
TAG_PTR_ret TAG_PTR(TAG_PTR_a0 p, TAG_PTR_a1 t) { return adt_tag((const uint8_t *)p, t); }
#endif
uint64_t X_pthread_self(void) { return 1; }
void X__ZNSt12length_errorC1EPKc(void *self, uint8_t *what) { }
/* ---- ghost lock state */
#define NLOCKS 2                                  /* 0 parent, 1 node */
static uint8_t *LK[NLOCKS]; static _Bool WHELD[NLOCKS], OBS[NLOCKS]; static int64_t RLC0[NLOCKS];
static int lk_idx(const void *l) { for (int i = 0; i < NLOCKS; i++) if (LK[i] && LK[i] == (const uint8_t *)l) return i; __CPROVER_assert(0, "lock operations only on the parent's or the node's lock"); return 0; }
#ifdef VERIF_CFG_DEBUG
#define RLC(l) (*(int64_t *)((uint8_t *)(l) + LAY_LOCK_RLC))
#else
static int64_t G_rlc[NLOCKS];
#define RLC(l) G_rlc[lk_idx(l)]
#endif
static void no_write_lock_held(void) { for (int i = 0; i < NLOCKS; i++) __CPROVER_assert(!WHELD[i], "C14: no write lock is held (at a waiting point / at return / at a throw)"); }
void L_TRY_READ_LOCK(L_TRY_READ_LOCK_a0 out, L_TRY_READ_LOCK_a1 l) {
  (void)lk_idx(l); no_write_lock_held();
  if (nondet_bool()) { *(void **)out = 0; *(uint64_t *)((uint8_t *)out + 8) = 0; return; }
  RLC(l)++; *(void **)out = l; *(uint64_t *)((uint8_t *)out + 8) = nondet_u64() & ~3ULL;
}
_Bool L_CHECK(L_CHECK_a0 l, L_CHECK_a1 ver) { (void)lk_idx(l);
#ifdef VERIF_CFG_DEBUG
  __CPROVER_assert(RLC(l) > 0, "UNODB_DETAIL_ASSERT(read_lock_count > 0) holds: check / unlock only inside an open read section");
#endif
  _Bool ok = nondet_bool(); if (!ok) RLC(l)--; return ok; }
_Bool L_UPGRADE(L_UPGRADE_a0 l, L_UPGRADE_a1 ver) {
  int i = lk_idx(l); RLC(l)--;
  if (nondet_bool()) return 0;
  __CPROVER_assert(!WHELD[i], "C14: no second write guard on a lock already held");
  for (int j = i + 1; j < NLOCKS; j++) __CPROVER_assert(!WHELD[j], "C14: write locks are taken in root-to-leaf order (parent, node)");
  WHELD[i] = 1; return 1;
}
void L_WUNLOCK(L_WUNLOCK_a0 l) { int i = lk_idx(l); __CPROVER_assert(WHELD[i], "write_unlock only by the holder"); WHELD[i] = 0; }
void L_WOBSOLETE(L_WOBSOLETE_a0 l) { int i = lk_idx(l); __CPROVER_assert(WHELD[i], "write_unlock_and_obsolete only by the holder"); WHELD[i] = 0; OBS[i] = 1; }
#ifdef HAVE_L_IS_WLOCKED
_Bool L_IS_WLOCKED(L_IS_WLOCKED_a0 l) { return WHELD[lk_idx(l)]; }
#endif
#ifdef HAVE_L_IS_OBS_ME
_Bool L_IS_OBS_ME(L_IS_OBS_ME_a0 l) { return OBS[lk_idx(l)]; }
#endif
static uint8_t G_thread[8]; static unsigned G_nret; static uint8_t *G_ret[4]; static _Bool G_alloc_under_wlock;
THIS_THREAD_ret THIS_THREAD(void) { return (THIS_THREAD_ret)G_thread; }
#ifdef VERIF_CFG_STATS
#define RETIRE_SIZE , RETIRE_a2 size
#define RETIRE_CBT RETIRE_a3
#else
#define RETIRE_SIZE
#define RETIRE_CBT RETIRE_a2
#endif
#ifdef VERIF_CFG_DEBUG
#define RETIRE_EXTRA , RETIRE_CBT dbg_callback
#else
#define RETIRE_EXTRA
#endif
void RETIRE(RETIRE_a0 self, RETIRE_a1 p RETIRE_SIZE RETIRE_EXTRA) { __CPROVER_assert(G_nret < 4, "ledger large enough"); for (unsigned i = 0; i < 4; i++) __CPROVER_assert(!(i < G_nret && G_ret[i] == p), "C04-seq: nothing is retired twice"); if (G_nret < 4) G_ret[G_nret] = p; G_nret++; }
static _Bool retired(const uint8_t *p) { for (unsigned i = 0; i < 4; i++) if (i < G_nret && G_ret[i] == p) return 1; return 0; }
typedef __typeof__(*(AOCS_a0)0) NODE_T;
uint64_t IN_K, IN_vlen; unsigned IN_depth; _Bool IN_cached;
static uint8_t *G_obj, *G_db, *G_val, *G_cached0; static struct nview GV0, GV1; static uint8_t G_b; static struct stats S0, S1;
#ifdef HAVE_P_GROW
/* KIND 2, 3 at capacity: the data-copy routine basic_inode_N::init(db, smaller source node, leaf, depth) is OUTSIDE this proof (its loops over the
 * 256-entry index do not close here within the budget).  What this proof needs from it: no lock operation - a static fact checked on the IR on
 * every run (job olc.copy-routines.no-locks) - and that it takes the leaf's ownership (the by-value unique_ptr is released).  Its effects on
 * node memory, statistics and the retire ledger are NOT modelled: the C10 / C04-seq postconditions of the growth are not claimed for these classes. */
static unsigned G_pgrow;
void P_GROW(P_GROW_a0 self, P_GROW_a1 db, P_GROW_a2 src, P_GROW_a3 child_up, P_GROW_a4 depth) {
  __CPROVER_assert((uint8_t *)src == G_obj && OBS[1] && !WHELD[1] && WHELD[0], "C04-seq: the replaced node is obsolete (and unlocked), the parent still write-locked, when the routine that hands it to reclamation runs");
  *(uint8_t **)((uint8_t *)child_up + LAY_LEAFUP_PTR) = 0; G_pgrow++;
}
#endif
static _Bool node_wf(const struct nview *v) {
#if KIND <= 2
  return nv_wf_small(v);
#elif KIND == 3
  static uint8_t owner[48]; static _Bool used[48];
  for (int j = 0; j < 48; j++) { owner[j] = nondet_u8(); used[j] = nondet_bool(); }
  return nv_wf_48_full(v, owner, used);
#else
  return nv_wf_256_full(v);
#endif
}
struct rcs { void *lock; uint64_t ver; };
void harness(void) {
  AOCS_a5 dbt = malloc(sizeof(*dbt)); __CPROVER_assume(dbt != 0); G_db = (uint8_t *)dbt;
  static const int Z5[5] = {0, 0, 0, 0, 0}, Z4[4] = {0, 0, 0, 0};
  IN_K = nondet_u64(); IN_vlen = nondet_u64(); __CPROVER_assume(IN_vlen <= (1ULL << 33));
#ifdef FUNCPOST
  IN_vlen = 1;                 /* a constant: the leaf is then an object of constant size (all lengths: the base variant and the leafmk jobs) */
#endif
  G_val = malloc(IN_vlen); __CPROVER_assume(G_val != 0);
  IN_depth = nondet_uint(); __CPROVER_assume(IN_depth < 8); G_b = kbyte(IN_K, IN_depth);
  { NODE_T *t = malloc(sizeof(NODE_T)); __CPROVER_assume(t != 0); G_obj = (uint8_t *)t; }
  nv_load(&GV0, G_obj, KIND); __CPROVER_assume(node_wf(&GV0));
  const uint64_t ch = nv_child(&GV0, G_b); const uint8_t Qb = nondet_u8(); const uint64_t qch = nv_child(&GV0, Qb);   /* Qb: arbitrary witness key byte */
#if KIND == 4
  __CPROVER_assume(nv_count(&GV0) < 256 || ch != 0);                             /* a full N256 holds every key byte */
#endif
  uint8_t up[LAY_LEAFUP_SIZE]; *(void **)(up + LAY_LEAFUP_DB) = (void *)dbt; *(void **)(up + LAY_LEAFUP_PTR) = 0;
  IN_cached = nondet_bool();
  if (IN_cached) { __CPROVER_assume(IN_vlen <= 3); G_cached0 = mk_leaf_obj(3); __CPROVER_assume(LEAF_KEY(G_cached0) == IN_K && LEAF_VLEN(G_cached0) == IN_vlen); *(uint8_t **)(up + LAY_LEAFUP_PTR) = G_cached0; }
  stats_load(&S0, G_db);
#ifdef VERIF_CFG_STATS
  __CPROVER_assume(S0.mem < (1ULL << 60) && S0.mem >= n_size(KIND) + (IN_cached ? LEAF_ALLOC_SIZE(IN_vlen) : 0) && S0.cnt[KIND] >= 1 && S0.cnt[0] >= (IN_cached ? 1 : 0));
  for (unsigned i = 0; i < 5; i++) __CPROVER_assume(S0.cnt[i] < (1ULL << 60));
  for (unsigned i = 0; i < 4; i++) __CPROVER_assume(S0.grow[i] < (1ULL << 60) && S0.shrink[i] <= S0.grow[i] && S0.grow[i] - S0.shrink[i] >= S0.cnt[i + 1]);
#endif
  LK[0] = malloc(LAY_LOCK_SIZE); __CPROVER_assume(LK[0] != 0); LK[1] = G_obj;
  for (int i = 0; i < NLOCKS; i++) { RLC0[i] = nondet_u64(); __CPROVER_assume(RLC0[i] >= 0 && RLC0[i] < (1LL << 40)); RLC(LK[i]) = RLC0[i] + 1; }   /* entry: both sections open */
  struct rcs pcs = {LK[0], nondet_u64() & ~3ULL}, ncs = {LK[1], nondet_u64() & ~3ULL};
  uint64_t *slot_in_parent = malloc(8); __CPROVER_assume(slot_in_parent != 0); const uint64_t self_w = adt_tag(G_obj, KIND); *slot_in_parent = self_w;
  AOCS_ret r = AOCS((AOCS_a0)G_obj, G_b, IN_K, (AOCS_a3)G_val, IN_vlen, dbt, IN_depth, (AOCS_a7)&ncs, (AOCS_a8)slot_in_parent, (AOCS_a9)&pcs, (AOCS_a10)up);
  _Bool engaged = (*(uint8_t *)((uint8_t *)&r + 8)) & 1; uint64_t *cip = *(uint64_t **)&r;
  stats_load(&S1, G_db); nv_load(&GV1, G_obj, KIND);
  uint8_t *cached1 = *(uint8_t **)(up + LAY_LEAFUP_PTR);
  const uint64_t leafsz = LEAF_ALLOC_SIZE(IN_vlen);
  /* ------------------------------------------------------------------ C14: on every exit, normal or exceptional */
  no_write_lock_held();
  /* ------------------------------------------------------------------ C16 */
#ifdef VERIF_CFG_DEBUG
  for (int i = 0; i < NLOCKS; i++)
    __CPROVER_assert(RLC(LK[i]) - RLC0[i] == (pcs.lock == (void *)LK[i]) + (ncs.lock == (void *)LK[i]), "C16: every counted read section belongs to a live section object (no leaked or double-closed section)");
#endif
  __CPROVER_assert((pcs.lock == 0 || pcs.lock == (void *)LK[0]) && (ncs.lock == 0 || ncs.lock == (void *)LK[1]), "contract: a section object is on its own lock or empty");
  __CPROVER_assert(!OBS[0], "the parent is never made obsolete by this step");
  /* a leaf created by this call (for this or a later attempt): first allocation, of the leaf's size */
  const _Bool made_leaf = !IN_cached && lg_allocs >= 1 && lg_alloc_sz[0] == leafsz && ch == 0 && IN_vlen <= 0xFFFFFFFFull;
  const _Bool full = nv_count(&GV0) == n_capacity(KIND);
  int d5[5] = {0, 0, 0, 0, 0}, g4[4] = {0, 0, 0, 0};
  if (verif_exc_pending || !engaged || ch != 0) {
    /* ---------------------------------------------------------------- exception / restart / descend: nothing published, nothing retired */
    __CPROVER_assert(G_nret == 0 && !OBS[1] && *slot_in_parent == self_w && GV1.count == GV0.count && GV1.prefix == GV0.prefix && nv_child(&GV1, G_b) == ch && nv_child(&GV1, Qb) == qch, "exception / restart / descend: nothing retired or made obsolete; parent slot, child count, prefix and the child for the key byte unchanged");
    if (ch != 0 && !verif_exc_pending && engaged) {
      __CPROVER_assert(cip != 0 && __CPROVER_same_object(cip, G_obj) && *cip == ch, "descend: the slot inside this node that holds the child for the key byte is handed out");
      __CPROVER_assert(pcs.lock == (void *)LK[0] && ncs.lock == (void *)LK[1] && lg_allocs == 0 && cached1 == G_cached0, "descend: both sections stay open, nothing allocated, the cached leaf untouched");
      VERIF_CANARY("descend reachable");
    }
    if (ch != 0) __CPROVER_assert(!verif_exc_pending && engaged, "a present child: neither restart nor exception");
    /* ledger: only a leaf kept for the retry stays allocated; a never-published larger node is freed directly */
    __CPROVER_assert(cached1 == (IN_cached ? G_cached0 : made_leaf ? lg_alloc_p[0] : (uint8_t *)0), "the cached leaf stays owned by the caller (kept for the retry)");
    __CPROVER_assert(lg_allocs == (made_leaf ? 1u : 0u) + lg_frees && lg_frees <= 1 && (lg_frees == 0 || (KIND <= 3 && full && lg_freed(lg_alloc_p[lg_allocs - 1]) && lg_alloc_sz[lg_allocs - 1] == n_size(KIND <= 3 ? KIND + 1 : 4))), "only a never-published larger node is freed directly");
    if (made_leaf) d5[0] = 1;
    stats_check(&S0, &S1, made_leaf ? (int64_t)leafsz : 0, d5, Z4, Z4, 0);
    if (verif_exc_pending) {
      __CPROVER_assert(IN_vlen > 0xFFFFFFFFull || verif_alloc_calls >= 1, "an exception is a length error (value longer than 2^32-1) or a failed allocation");
      VERIF_CANARY("exceptional exit reachable");
    } else if (!engaged) VERIF_CANARY("restart reachable");
    return;
  }
  /* ------------------------------------------------------------------ done: the key byte was absent and the leaf went in */
  __CPROVER_assert(cip == 0 && cached1 == 0, "done: 'no further descent', the leaf's ownership moved into the tree");
  uint8_t *leaf = IN_cached ? G_cached0 : lg_alloc_p[0];
  __CPROVER_assert(IN_cached || made_leaf, "done: the leaf is the cached one or was created by this call");
  if (!IN_cached) d5[0] = 1;
  if (!full) {
    __CPROVER_assert(G_nret == 0 && !OBS[1] && *slot_in_parent == self_w && lg_frees == 0 && lg_allocs == (IN_cached ? 0u : 1u), "C10: below capacity the child is added in place: nothing replaced, retired or freed");
    __CPROVER_assert(nv_count(&GV1) == nv_count(&GV0) + 1 && GV1.prefix == GV0.prefix && nv_child(&GV1, G_b) == adt_tag(leaf, T_LEAF), "C10: one more child, same prefix, the key byte now leads to the new leaf");
    if (Qb != G_b) __CPROVER_assert(nv_child(&GV1, Qb) == qch, "C01: every other key byte leads where it led before (arbitrary witness byte)");
    stats_check(&S0, &S1, IN_cached ? 0 : (int64_t)leafsz, d5, Z4, Z4, 0);
    VERIF_CANARY("in-place add reachable");
  } else {
#if KIND <= 3
    uint8_t *bigger = lg_alloc_p[lg_allocs - 1];
    __CPROVER_assert(lg_allocs == (IN_cached ? 1u : 2u) && lg_alloc_sz[lg_allocs - 1] == n_size(KIND + 1) && *slot_in_parent == adt_tag(bigger, KIND + 1), "C10: at capacity the node is replaced by a new node of the next larger class");
#ifdef HAVE_P_GROW
    __CPROVER_assert(G_pgrow == 1 && OBS[1] && lg_frees == 0, "the replaced node is made obsolete, nothing is freed directly (its retirement is inside the copy routine, not modelled)");
#else
    __CPROVER_assert(G_nret == 1 && retired(G_obj) && OBS[1] && lg_frees == 0, "C04-seq: the replaced node is made obsolete and retired once, nothing is freed directly");
#if !defined(HAVE_P_GROW) && defined(FUNCPOST)      /* reads the new node: proved in the variant with a constant value length (see jobs.py) */
    { static struct nview GVN; nv_load(&GVN, bigger, KIND + 1);
      __CPROVER_assert(nv_count(&GVN) == nv_count(&GV0) + 1 && GVN.prefix == GV0.prefix && nv_child(&GVN, G_b) == adt_tag(leaf, T_LEAF), "C01/C10: the new node has one more child, the same prefix, and the key byte leads to the new leaf");
      if (Qb != G_b) __CPROVER_assert(nv_child(&GVN, Qb) == qch, "C01: every other key byte leads where it led before (arbitrary witness byte)"); }
#endif
    d5[KIND] = -1; d5[KIND + 1] = 1; g4[KIND] = 1;
    stats_check(&S0, &S1, (IN_cached ? 0 : (int64_t)leafsz) + (int64_t)n_size(KIND + 1) - (int64_t)n_size(KIND), d5, g4, Z4, 0);
#endif
    VERIF_CANARY("growth reachable");
#else
    __CPROVER_assert(0, "a full N256 has a child for every key byte");
#endif
  }
  VERIF_CANARY("add_or_choose_subtree returns");
}
