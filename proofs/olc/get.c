/* C01 + C14 (+ C16 debug read-section accounting): olc_db<uint64_t>::try_get run by ONE thread, REAL code (descent, lock coupling through the real
 * read_critical_section objects), with the optimistic_lock primitives replaced by SEQUENTIAL contracts over ghost state per lock:
 *   try_read_lock   : the only waiting point - obligation: this thread holds NO write lock when it is called; may report "obsolete" (invalid section)
 *   check / unlock  : may fail nondeterministically (a concurrent writer) -> every restart path is explored
 * Obligations: every return, restart or not, leaves no write lock held (C14) and, in the assertion-enabled extraction, the read_lock_count of
 * every lock exactly as it was (C16: no leaked read section); a non-restart return gives exactly M(K) as for db (C01, single-threaded OLC path).
 * Original header of the db proof follows.
 * C01: db<uint64_t>::get_internal, REAL code (whole closure: leaf::matches, key_prefix, find_child of the class under proof incl. SIMD).
 * The descent loop is cut at its head with the invariant
 *     node is a well-formed subtree root reached along K's path at depth d,  remaining_key == K >> 8d,
 *     the answer of the whole tree for K  ==  M(node, d, K)
 * One iteration is proved for ALL node images of kind KIND (0 leaf, 1..4 inner classes), all keys and depths:
 *   it returns exactly M(node, d, K)  (value view of the matching leaf / nothing), or continues in exactly the child that defines M
 *   with remaining_key shifted by prefix length + 1.  Empty tree: returns nothing.  Frame: nothing is written. */
#include "verif_rt.h"
static void lockhead_(void *pcs); static void lockback_(void *pcs);
static void base_(void *node_p, void *rk_p); static void head_(void *node_p, void *rk_p); static void back_(uint64_t node, uint64_t rk);
#define VERIF_LOOP_HEAD_TRY_GET_while_2econd do { base_(&m_node, &m_remaining_key); VERIF_LOOP_HAVOC_TRY_GET_while_2econd; head_(&m_node, &m_remaining_key); lockhead_(&m_parent_critical_section); } while (0)
#define VERIF_LOOP_BACK_TRY_GET_while_2econd do { lockback_(&m_parent_critical_section); back_(*(uint64_t *)&m_node, *(uint64_t *)&m_remaining_key); } while (0)
#include "x_types.h"
#include "x_body.h"
#include "verif_models.h"
#include "../tree/tree_common.h"
#ifdef VERIF_CFG_DEBUG
#define LAY_LOCK_DEBUG 1
#else
#define LAY_LOCK_DEBUG 0
#endif
PTR_FOREACH(ADT_DEF_PTR)
/* ---- sequential contracts of the optimistic lock over ghost state (locks are identified by address: root lock, parent lock, node lock) */
#define NLOCKS 3
static uint8_t *LK[NLOCKS]; static _Bool WHELD[NLOCKS]; static int64_t RLC0[NLOCKS]; static unsigned G_waits;
static int lk_idx(const void *l) { for (int i = 0; i < NLOCKS; i++) if (LK[i] == (const uint8_t *)l) return i; __CPROVER_assert(0, "lock operations only on the root lock, the parent's lock or the node's lock"); return 0; }
#ifdef VERIF_CFG_DEBUG
#define RLC(l) (*(int64_t *)((uint8_t *)(l) + LAY_LOCK_RLC))
#else
static int64_t G_rlc_dummy; 
#define RLC(l) G_rlc_dummy
#endif
static void no_write_lock_held(const char *unused) { for (int i = 0; i < NLOCKS; i++) __CPROVER_assert(!WHELD[i], "C14: no write lock is held (at a waiting point / at return)"); }
void L_TRY_READ_LOCK(L_TRY_READ_LOCK_a0 out, L_TRY_READ_LOCK_a1 l) {
  (void)lk_idx(l); no_write_lock_held(0); G_waits++;                       /* C14: a thread that may wait holds nothing */
  if (nondet_bool()) { *(void **)out = 0; *(uint64_t *)((uint8_t *)out + 8) = 0; return; }   /* obsolete: invalid section */
  RLC(l)++; *(void **)out = l; *(uint64_t *)((uint8_t *)out + 8) = nondet_u64() & ~3ULL;
}
_Bool L_CHECK(L_CHECK_a0 l, L_CHECK_a1 ver) { (void)lk_idx(l); __CPROVER_assert(RLC(l) > 0 || !LAY_LOCK_DEBUG, "debug: check only inside an open read section"); _Bool ok = nondet_bool(); if (!ok) RLC(l)--; return ok; }

TAG_PTR_ret TAG_PTR(TAG_PTR_a0 p, TAG_PTR_a1 t) { return adt_tag((const uint8_t *)p, t); }
uint32_t X_memcmp(uint8_t *a, uint8_t *b, uint64_t n) { __CPROVER_assert(n <= 8, "memcmp of at most one 8-byte key"); return (uint32_t)memcmp(a, b, n); }
uint64_t IN_K; unsigned IN_depth;
static uint64_t G_root; static struct ans G_M;          /* ghost: M(tree, K), fixed before the call */
static _Bool G_head_seen, G_descends; static uint64_t G_child; static unsigned G_next_depth;
static uint8_t *G_obj;
typedef __typeof__(*(NODE_FIND_a0)0) NODE_T;
static struct nview GV0, GV1; static unsigned Wi;
static void base_(void *node_p, void *rk_p) {
  uint64_t *node = node_p, *rk = rk_p;
  __CPROVER_assert(*node == G_root && *rk == IN_K, "loop invariant holds on entry (base): node = root, remaining key = K, depth 0"); G_head_seen = 1;
}
static void head_(void *node_p, void *rk_p) {
  uint64_t *node = node_p, *rk = rk_p;
  /* arbitrary state satisfying the invariant */
  IN_depth = nondet_uint(); __CPROVER_assume(IN_depth < 8);
  *rk = IN_K >> (8 * IN_depth);
  G_descends = 0;
#if KIND == 0
  G_obj = mk_leaf_obj(3);
  *node = adt_tag(G_obj, T_LEAF);
  __CPROVER_assume(ans_eq(G_M, leaf_ans(G_obj, IN_K)));                    /* invariant: tree answer == M(node, d, K) */
#else
  { NODE_T *t = malloc(sizeof(NODE_T)); __CPROVER_assume(t != 0); G_obj = (uint8_t *)t; }
  nv_load(&GV0, G_obj, KIND);
#define v GV0
  __CPROVER_assume(nv_wf_global(&v) && IN_depth + NV_PREFIX_LEN(&v) < 8);   /* well-formed, and the path fits the 8-byte key */
  uint8_t b = kbyte(IN_K, IN_depth + NV_PREFIX_LEN(&v)); __CPROVER_assume(nv_wf_at(&v, b));
  *node = adt_tag(G_obj, KIND);
  uint64_t ch = prefix_matches(v.prefix, IN_depth, IN_K) ? nv_child(&v, b) : 0;
  if (ch == 0) __CPROVER_assume(!G_M.has);                                 /* M(node, d, K) = none */
  else { G_descends = 1; G_child = ch; G_next_depth = IN_depth + NV_PREFIX_LEN(&v) + 1; } /* M(node, d, K) = M(child, d', K): the induction hypothesis */
#undef v
#endif
  Wi = nondet_uint(); __CPROVER_assume(Wi < 256);
}
static void frame_(void) {
#if KIND == 0
  (void)0;
#else
  nv_load(&GV1, G_obj, KIND);
  __CPROVER_assert(GV1.count == GV0.count && GV1.prefix == GV0.prefix && GV1.keys[Wi] == GV0.keys[Wi] && GV1.slots[Wi] == GV0.slots[Wi], "frame: get does not modify the node (count, prefix, arbitrary witness key/slot)");
#endif
}
static void back_(uint64_t node, uint64_t rk) {
  __CPROVER_assert(G_descends, "loop invariant preserved (step): the loop continues only when the unfolding says the answer lies below a child");
  __CPROVER_assert(node == G_child, "loop invariant preserved (step): it continues in exactly the child that defines M(node, d, K)");
  __CPROVER_assert(rk == (G_next_depth >= 8 ? 0 : IN_K >> (8 * G_next_depth)), "loop invariant preserved (step): remaining key = K shifted by the new depth");
  __CPROVER_assert(G_next_depth > IN_depth, "variant: the depth strictly increases (bounded by the key length)");
  frame_();
#if KIND >= 1
  VERIF_CANARY("descent reachable");
#endif
  __CPROVER_assume(0);
}
static uint8_t *G_dbp;
static void lockhead_(void *pcs) {      /* invariant: exactly the parent's read section is open, nothing is write-locked */
  LK[0] = G_dbp + NLAY(POL, DB, ROOTLOCK);
  LK[1] = malloc(LAY_LOCK_SIZE); __CPROVER_assume(LK[1] != 0); LK[2] = G_obj;       /* the node's lock is the first member of its header */
  for (int i = 0; i < NLOCKS; i++) { WHELD[i] = 0; RLC0[i] = nondet_u64(); __CPROVER_assume(RLC0[i] >= 0 && RLC0[i] < (1LL << 40)); RLC(LK[i]) = RLC0[i]; }
  RLC(LK[1]) = RLC0[1] + 1; *(void **)pcs = LK[1]; *(uint64_t *)((uint8_t *)pcs + 8) = nondet_u64() & ~3ULL;
}
static void lockback_(void *pcs) {
  __CPROVER_assert(*(void **)pcs == (void *)LK[2], "lock coupling invariant (step): the node's read section becomes the parent section");
  no_write_lock_held(0);
#ifdef VERIF_CFG_DEBUG
  __CPROVER_assert(RLC(LK[1]) == RLC0[1] && RLC(LK[2]) == RLC0[2] + 1 && RLC(LK[0]) == RLC0[0], "C16 (step): the old parent section is closed, exactly the node's section stays open");
#endif
}
void X__ZN5unodb6detail13qsbr_ptr_base19register_active_ptrEPKv(uint8_t *p) {}
void X__ZN5unodb6detail13qsbr_ptr_base21unregister_active_ptrEPKv(uint8_t *p) {}
void harness(void) {
  TRY_GET_a1 db = malloc(sizeof(*db)); __CPROVER_assume(db != 0); G_dbp = (uint8_t *)db;
  IN_K = nondet_u64(); G_root = nondet_u64(); *(uint64_t *)((uint8_t *)db + NLAY(POL, DB, ROOT)) = G_root;
  G_M.has = nondet_bool(); G_M.n = nondet_u64(); G_M.p = nondet_u64();
  if (G_root == 0) __CPROVER_assume(!G_M.has);
  LK[0] = G_dbp + NLAY(POL, DB, ROOTLOCK); LK[1] = 0; LK[2] = 0; RLC0[0] = nondet_u64(); __CPROVER_assume(RLC0[0] >= 0 && RLC0[0] < (1LL << 40)); RLC(LK[0]) = RLC0[0];
  uint8_t r[LAY_TRYGET_SIZE];
  TRY_GET((TRY_GET_a0)r, db, IN_K);
  no_write_lock_held(0);
#ifdef VERIF_CFG_DEBUG
  for (int i = 0; i < NLOCKS; i++) if (LK[i]) __CPROVER_assert(RLC(LK[i]) == RLC0[i], "C16: every read section opened by the operation is closed again on every exit path (restart or not)");
#endif
  if (r[LAY_TRYGET_OUTER_ENGAGED]) {                                  /* not a restart: the single-threaded answer must be M(K) */
    __CPROVER_assert((r[LAY_TRYGET_INNER_ENGAGED] != 0) == G_M.has, "C01 try_get: a key is found iff the abstract map holds it");
    if (G_M.has) __CPROVER_assert(*(uint64_t *)r == G_M.p && *(uint64_t *)(r + 8) == G_M.n, "C01 try_get: the returned view is exactly the stored value bytes");
    VERIF_CANARY("non-restart return reachable");
  } else VERIF_CANARY("restart return reachable");
  if (G_head_seen && G_obj) frame_();
  VERIF_CANARY("try_get returns");
}
