/* C14 (+ C16 debug accounting, + the sequential halves of C04 that ride on it): olc_impl_helpers::remove_or_choose_subtree<olc_inode_4>, REAL code
 * (find_child, lock coupling through the real read_critical_section / write_guard objects, in-place remove, N4 collapse with leave_last_child,
 * QSBR deleters down to qsbr_per_thread::on_next_epoch_deallocate), run by ONE thread with the optimistic_lock primitives replaced by sequential
 * contracts over ghost state per lock; upgrades, checks and read locks fail nondeterministically so that every restart path is explored.
 *   requires  the parent's and the node's read sections are open, no write lock held, node is a well-formed N4, child for the key byte: absent /
 *             inner node / leaf (matching or not); at min_size the survivor is a leaf or an inner node
 *   ensures on EVERY return (restart, false, true):
 *     C14  no write lock is held; write locks were only taken by upgrading a section on the same lock, parent before node before child;
 *          try_read_lock (the only waiting point) was only called while holding nothing
 *     C16  (assertion-enabled extraction) read_lock_count(l) - entry value == number of live section objects {parent, node, child} on l: no leak
 *     C04-seq  nothing is freed directly; exactly the removed leaf (and the dissolved N4 on collapse) is retired, once each, and only on success;
 *          every retired node was made obsolete before */
#include "verif_rt.h"
#include "x_types.h"
#include "x_body.h"
static void lg_on_alloc(uint8_t *p, uint64_t n); static void lg_on_free(uint8_t *p);
#define VERIF_ON_ALLOC(p, n) lg_on_alloc((uint8_t *)(p), (n))
#define VERIF_ON_FREE(p) lg_on_free((uint8_t *)(p))
#define VERIF_ALLOC_MAY_FAIL 1
#include "verif_models.h"
#define SUB_ANS_CLASSES 2
#include "../tree/tree_common.h"
#include "spec_prefix.h"
PTR_FOREACH(ADT_DEF_PTR)
#ifdef HAVE_TAG_PTR
TAG_PTR_ret TAG_PTR(TAG_PTR_a0 p, TAG_PTR_a1 t) { return adt_tag((const uint8_t *)p, t); }
#endif
uint32_t X_memcmp(uint8_t *a, uint8_t *b, uint64_t n) { __CPROVER_assert(n <= 8, "memcmp of at most one 8-byte key"); return (uint32_t)memcmp(a, b, n); }
/* ---- ghost lock state */
#define NLOCKS 4                                  /* 0 parent, 1 node, 2 child, 3 survivor */
static uint8_t *LK[NLOCKS]; static _Bool WHELD[NLOCKS], OBS[NLOCKS]; static int64_t RLC0[NLOCKS]; static unsigned G_order; static unsigned ACQ_AT[NLOCKS];
static int lk_idx(const void *l) { for (int i = 0; i < NLOCKS; i++) if (LK[i] && LK[i] == (const uint8_t *)l) return i; __CPROVER_assert(0, "lock operations only on the parent's, the node's, the child's or the survivor's lock"); return 0; }
#ifdef VERIF_CFG_DEBUG
#define RLC(l) (*(int64_t *)((uint8_t *)(l) + LAY_LOCK_RLC))
#else
static int64_t G_rlc[NLOCKS];
#define RLC(l) G_rlc[lk_idx(l)]
#endif
static void no_write_lock_held(void) { for (int i = 0; i < NLOCKS; i++) __CPROVER_assert(!WHELD[i], "C14: no write lock is held (at a waiting point / at return)"); }
void L_TRY_READ_LOCK(L_TRY_READ_LOCK_a0 out, L_TRY_READ_LOCK_a1 l) {
  (void)lk_idx(l); no_write_lock_held();
  if (nondet_bool()) { *(void **)out = 0; *(uint64_t *)((uint8_t *)out + 8) = 0; return; }
  RLC(l)++; *(void **)out = l; *(uint64_t *)((uint8_t *)out + 8) = nondet_u64() & ~3ULL;
}
_Bool L_CHECK(L_CHECK_a0 l, L_CHECK_a1 ver) { (void)lk_idx(l);
#ifdef VERIF_CFG_DEBUG
  __CPROVER_assert(RLC(l) > 0, "UNODB_DETAIL_ASSERT(read_lock_count > 0) holds: check / unlock only inside an open read section");
#endif
  _Bool ok = nondet_bool(); if (!ok) RLC(l)--; return ok; }
_Bool L_UPGRADE(L_UPGRADE_a0 l, L_UPGRADE_a1 ver) {
  int i = lk_idx(l); RLC(l)--;                                                   /* the read section is consumed either way */
  if (nondet_bool()) return 0;
  __CPROVER_assert(!WHELD[i], "C14: no second write guard on a lock already held");
  for (int j = i + 1; j < NLOCKS; j++) __CPROVER_assert(!WHELD[j], "C14: write locks are taken in root-to-leaf order (parent, node, child)");
  WHELD[i] = 1; return 1;
}
void L_WUNLOCK(L_WUNLOCK_a0 l) { int i = lk_idx(l); __CPROVER_assert(WHELD[i], "write_unlock only by the holder"); WHELD[i] = 0; }
void L_WOBSOLETE(L_WOBSOLETE_a0 l) { int i = lk_idx(l); __CPROVER_assert(WHELD[i], "write_unlock_and_obsolete only by the holder"); WHELD[i] = 0; OBS[i] = 1; }
#ifdef HAVE_L_IS_WLOCKED
_Bool L_IS_WLOCKED(L_IS_WLOCKED_a0 l) { return WHELD[lk_idx(l)]; }
#endif
#ifdef HAVE_L_IS_OBS_ME
_Bool L_IS_OBS_ME(L_IS_OBS_ME_a0 l) { return OBS[lk_idx(l)]; }
#endif
/* ---- QSBR: retiring is a ledger event (the deferred free itself is C05/C06 territory) */
static uint8_t G_thread[8]; static unsigned G_nret; static uint8_t *G_ret[4];
THIS_THREAD_ret THIS_THREAD(void) { return (THIS_THREAD_ret)G_thread; }
uint64_t X_pthread_self(void) { return 1; }
#ifdef VERIF_CFG_STATS
#define RETIRE_SIZE , RETIRE_a2 size
#define RETIRE_CBT RETIRE_a3
#else
#define RETIRE_SIZE
#define RETIRE_CBT RETIRE_a2
#endif
#ifdef VERIF_CFG_DEBUG
#define RETIRE_EXTRA , RETIRE_CBT dbg_callback
#else
#define RETIRE_EXTRA
#endif
void RETIRE(RETIRE_a0 self, RETIRE_a1 p RETIRE_SIZE RETIRE_EXTRA) { __CPROVER_assert(G_nret < 4, "ledger large enough"); for (unsigned i = 0; i < 4; i++) __CPROVER_assert(!(i < G_nret && G_ret[i] == p), "C04-seq: nothing is retired twice"); if (G_nret < 4) G_ret[G_nret] = p; G_nret++; }
static _Bool retired(const uint8_t *p) { for (unsigned i = 0; i < 4; i++) if (i < G_nret && G_ret[i] == p) return 1; return 0; }
typedef __typeof__(*(ROCS_a0)0) NODE_T;
uint64_t IN_K; unsigned IN_shape; _Bool IN_surv_leaf;
static uint64_t G_survprefix0;
static uint8_t *G_obj, *G_child, *G_surv, *G_db; static struct nview GV0; static uint8_t G_b; static struct stats S0, S1;
static void set_slot(unsigned off, uint64_t w) { *(uint64_t *)(G_obj + off) = w; }
static uint8_t *mk_lock_obj(void) { uint8_t *l = malloc(LAY_LOCK_SIZE); __CPROVER_assume(l != 0); return l; }
#ifdef HAVE_P_INIT
/* KIND >= 3 at min_size: the data-copy routine basic_inode_N::init(db, larger source node, child_to_delete) is OUTSIDE this proof (its 256-step
 * loops do not close here).  What this proof needs from it: it performs no lock operation - a static fact checked on the IR on every run (job
 * olc.copy-routines.no-locks) - and it cannot reach the section / guard objects (it is handed none).  Its effects on node memory, statistics and
 * the retire ledger are NOT modelled: the C10 / C04-seq postconditions of the shrink are therefore not claimed for KIND >= 3. */
static unsigned G_pinit;
void P_INIT(P_INIT_a0 self, P_INIT_a1 db, P_INIT_a2 src, P_INIT_a3 c) {
  __CPROVER_assert((uint8_t *)src == G_obj && OBS[1] && OBS[2] && !WHELD[1] && !WHELD[2], "C04-seq: the replaced node and the removed leaf are obsolete (and unlocked) before the routine that hands them to reclamation runs");
  G_pinit++;
}
#endif
static _Bool node_wf(const struct nview *v) {
#if KIND <= 2
  return nv_wf_small(v);
#elif KIND == 3
  static uint8_t owner[48]; static _Bool used[48];
  for (int j = 0; j < 48; j++) { owner[j] = nondet_u8(); used[j] = nondet_bool(); }
  return nv_wf_48_full(v, owner, used);
#else
  return nv_wf_256_full(v);
#endif
}
void harness(void) {
  ROCS_a3 dbt = malloc(sizeof(*dbt)); __CPROVER_assume(dbt != 0); G_db = (uint8_t *)dbt;
  static const int Z5[5] = {0, 0, 0, 0, 0}, Z4[4] = {0, 0, 0, 0};
  stats_load(&S0, G_db);
#ifdef VERIF_CFG_STATS
  __CPROVER_assume(S0.mem < (1ULL << 60) && S0.mem >= n_size(KIND) + LEAF_ALLOC_SIZE(3) && S0.cnt[KIND] >= 1 && S0.cnt[0] >= 1);     /* statistics invariant instances: the materialised nodes are accounted for */
  for (unsigned i = 0; i < 5; i++) __CPROVER_assume(S0.cnt[i] < (1ULL << 60));
  for (unsigned i = 0; i < 4; i++) __CPROVER_assume(S0.grow[i] < (1ULL << 60) && S0.shrink[i] <= S0.grow[i] && S0.grow[i] - S0.shrink[i] >= S0.cnt[i + 1]);
#endif
  { NODE_T *t = malloc(sizeof(NODE_T)); __CPROVER_assume(t != 0); G_obj = (uint8_t *)t; }
  IN_K = nondet_u64(); G_b = nondet_u8();
  IN_shape = nondet_uint(); __CPROVER_assume(IN_shape <= 2);                     /* 0 absent, 1 inner child, 2 leaf child */
  uint64_t childw = 0, survw = 0;
  if (IN_shape == 2) { G_child = mk_leaf_obj(3); childw = adt_tag(G_child, T_LEAF); }
  else if (IN_shape == 1) { G_child = malloc(NLAY(POL, I4, SIZE)); __CPROVER_assume(G_child != 0); childw = adt_tag(G_child, 1 + nondet_uint() % 4); }   /* only its header (the lock) is touched */
#if KIND == 1
  _Bool with_surv = nondet_bool();                                               /* collapse candidate: materialise the survivor */
  if (with_surv) {
    IN_surv_leaf = nondet_bool();
    if (IN_surv_leaf) { G_surv = mk_leaf_obj(3); survw = adt_tag(G_surv, T_LEAF); }
    else { NODE_T *t = malloc(sizeof(NODE_T)); __CPROVER_assume(t != 0); G_surv = (uint8_t *)t; survw = adt_tag(G_surv, 1); }
  }
#endif
  nv_load(&GV0, G_obj, KIND); __CPROVER_assume(node_wf(&GV0));
  __CPROVER_assume(nv_child(&GV0, G_b) == childw);
#if KIND == 1
  __CPROVER_assume(with_surv == (GV0.count == 2 && IN_shape == 2));
  if (with_surv) {
    __CPROVER_assume(GV0.slots[GV0.keys[0] == G_b ? 1 : 0] == survw);
    if (!IN_surv_leaf) { struct nview sv; nv_load(&sv, G_surv, 1); __CPROVER_assume(nv_wf_small(&sv) && NV_PREFIX_LEN(&sv) + NV_PREFIX_LEN(&GV0) + 1 <= 7); G_survprefix0 = sv.prefix; }
  }
#endif
  _Bool at_min = nv_count(&GV0) == n_minsize(KIND);
  const uint8_t Qb = nondet_u8(); const uint64_t qch = nv_child(&GV0, Qb);      /* arbitrary witness key byte */
  __CPROVER_assume(Qb == G_b || childw == 0 || qch != childw);                     /* a tree, not a DAG */
  LK[0] = mk_lock_obj(); LK[1] = G_obj; LK[2] = G_child; LK[3] = G_surv;          /* a node's lock is the first member of its header */
  for (int i = 0; i < NLOCKS; i++) if (LK[i]) { RLC0[i] = nondet_u64(); __CPROVER_assume(RLC0[i] >= 0 && RLC0[i] < (1LL << 40)); RLC(LK[i]) = RLC0[i]; }
  struct { void *lock; uint64_t ver; } pcs = {LK[0], nondet_u64() & ~3ULL}, ncs = {LK[1], nondet_u64() & ~3ULL}, ccs = {0, 0};
  RLC(LK[0]) = RLC0[0] + 1; RLC(LK[1]) = RLC0[1] + 1;                              /* entry: the parent's and the node's sections are open */
  uint64_t *slot_in_parent = malloc(8); __CPROVER_assume(slot_in_parent != 0); *slot_in_parent = adt_tag(G_obj, KIND);
  void *child_in_parent = nondet_ptr(); uint8_t child_type = nondet_u8(); uint64_t child_out = nondet_u64();
  uint16_t r = ROCS((ROCS_a0)G_obj, G_b, IN_K, dbt, (ROCS_a4)&pcs, (ROCS_a5)&ncs, (ROCS_a6)slot_in_parent, (ROCS_a7)&child_in_parent, (ROCS_a8)&ccs, (ROCS_a9)&child_type, (ROCS_a10)&child_out);
  _Bool engaged = (r >> 8) & 1, val = r & 1;
  stats_load(&S1, G_db); uint64_t lsz = G_child && IN_shape == 2 ? LEAF_ALLOC_SIZE(LEAF_VLEN(G_child)) : 0;
  /* ------------------------------------------------------------------ C14: on every exit, normal or exceptional */
  no_write_lock_held();
  /* ------------------------------------------------------------------ C16: counted read sections are owned by live section objects */
#ifdef VERIF_CFG_DEBUG
  for (int i = 0; i < NLOCKS; i++) if (LK[i])
    __CPROVER_assert(RLC(LK[i]) - RLC0[i] == (pcs.lock == (void *)LK[i]) + (ncs.lock == (void *)LK[i]) + (ccs.lock == (void *)LK[i]), "C16: every counted read section belongs to a live section object (no leaked or double-closed section)");
#endif
  /* section objects: still on their lock, or closed / moved away (this is what the caller's loop invariant is rebuilt from: proofs/olc/remove_top.c) */
  __CPROVER_assert((pcs.lock == 0 || pcs.lock == (void *)LK[0]) && (ncs.lock == 0 || ncs.lock == (void *)LK[1]) && (ccs.lock == 0 || (LK[2] && ccs.lock == (void *)LK[2])), "contract: a section object is on its own lock or empty");
  /* ------------------------------------------------------------------ result and reclamation */
  _Bool matches = IN_shape == 2 && LEAF_KEY(G_child) == IN_K;
  const uint64_t self_w = adt_tag(G_obj, KIND);
  if (verif_exc_pending) {
    __CPROVER_assert(KIND >= 2 && at_min && matches, "C08: only the smaller node of a shrink can fail to allocate");
    __CPROVER_assert(G_nret == 0 && lg_allocs == 0 && lg_frees == 0 && !OBS[0] && !OBS[1] && !OBS[2] && *slot_in_parent == self_w, "C08: bad_alloc => nothing retired, released or made obsolete, the parent slot untouched");
    stats_check(&S0, &S1, 0, Z5, Z4, Z4, 0);
#if KIND >= 2
    VERIF_CANARY("allocation failure reachable");
#endif
    return;
  }
  if (engaged) {
    __CPROVER_assert(val == (IN_shape == 1 || matches), "single-threaded result: true iff the child is an inner node to descend into or the matching leaf (removed)");
    VERIF_CANARY("non-restart return reachable");
  } else VERIF_CANARY("restart return reachable");
  if (engaged && val && matches) {
    __CPROVER_assert(child_in_parent == 0, "a completed removal reports 'no further descent'");
#ifdef HAVE_P_INIT
    __CPROVER_assert(OBS[2] && (at_min || retired(G_child)), "C04-seq: the removed leaf is made obsolete and (in-place removal) retired; at min_size its retirement is inside the copy routine, not modelled");
#else
    __CPROVER_assert(retired(G_child) && OBS[2], "C04-seq: the removed leaf is made obsolete and retired");
#endif
    if (!at_min) {
      __CPROVER_assert(G_nret == 1 && lg_allocs == 0 && lg_frees == 0 && *slot_in_parent == self_w && !OBS[1] && !OBS[0], "C04-seq: in-place removal retires exactly the leaf, the node stays");
      { static struct nview GV1; nv_load(&GV1, G_obj, KIND);
        __CPROVER_assert(nv_count(&GV1) + 1 == nv_count(&GV0) && GV1.prefix == GV0.prefix && nv_child(&GV1, G_b) == 0, "C01/C10: one child less, same prefix, the key byte leads nowhere");
        if (Qb != G_b) __CPROVER_assert(nv_child(&GV1, Qb) == qch, "C01: every other key byte leads where it led before (arbitrary witness byte)"); }
      int d5[5] = {-1, 0, 0, 0, 0}; stats_check(&S0, &S1, -(int64_t)lsz, d5, Z4, Z4, 0); VERIF_CANARY("in-place removal reachable");
    } else {
#ifdef HAVE_P_INIT
      __CPROVER_assert(G_pinit == 1 && OBS[1] && !OBS[0] && lg_frees == 0 && lg_allocs == 1 && lg_alloc_sz[0] == n_size(KIND - 1) && *slot_in_parent == adt_tag(lg_alloc_p[0], KIND - 1), "at min_size the node is made obsolete and replaced in the parent slot by a new node of the next smaller class (contents: copy routine, not modelled)");
      VERIF_CANARY("shrink reachable");
#else
      __CPROVER_assert(G_nret == 2 && retired(G_obj) && OBS[1] && !OBS[0] && lg_frees == 0, "C04-seq / C10: at min_size the replaced node is made obsolete and retired too, nothing else, nothing freed directly");
      int d5[5] = {-1, 0, 0, 0, 0}, s4[4] = {0, 0, 0, 0}; d5[KIND] = -1; s4[KIND - 1] = 1;
#if KIND == 1
      __CPROVER_assert(lg_allocs == 0 && *slot_in_parent == survw, "C10: a two-child N4 collapses into its remaining child");
      if (!IN_surv_leaf) { uint64_t sp = N_PREFIX(G_surv, 1), pp = GV0.prefix; unsigned Lp = kp_len(pp), Ls = kp_len(G_survprefix0); uint8_t sb = GV0.keys[GV0.keys[0] == G_b ? 1 : 0];
        __CPROVER_assert(kp_len(sp) == Lp + 1 + Ls && ((sp ^ pp) & lowmask(Lp)) == 0 && kp_byte(sp, Lp) == sb && (((sp >> (8 * (Lp + 1))) ^ G_survprefix0) & lowmask(Ls)) == 0, "C01 collapse: the surviving inner node's prefix becomes parent prefix ++ its key byte ++ its own prefix"); }
      stats_check(&S0, &S1, -(int64_t)(lsz + n_size(1)), d5, Z4, s4, 0); VERIF_CANARY("collapse reachable");
#else
      __CPROVER_assert(lg_allocs == 1 && lg_alloc_sz[0] == n_size(KIND - 1) && *slot_in_parent == adt_tag(lg_alloc_p[0], KIND - 1), "C10: at min_size the node is replaced by a new node of the next smaller class");
      { static struct nview GVN; nv_load(&GVN, lg_alloc_p[0], KIND - 1);
        __CPROVER_assert(nv_count(&GVN) + 1 == nv_count(&GV0) && nv_count(&GVN) == n_capacity(KIND - 1) && GVN.prefix == GV0.prefix && nv_child(&GVN, G_b) == 0, "C01/C10: the new node has min_size - 1 children (its capacity), the same prefix, and no child for the key byte");
        if (Qb != G_b) __CPROVER_assert(nv_child(&GVN, Qb) == qch, "C01: every other key byte leads where it led before (arbitrary witness byte)"); }
      d5[KIND - 1] = 1; stats_check(&S0, &S1, (int64_t)n_size(KIND - 1) - (int64_t)n_size(KIND) - (int64_t)lsz, d5, Z4, s4, 0); VERIF_CANARY("shrink reachable");
#endif
#endif
    }
  } else {
    /* a restart may already have allocated and released the smaller node, which was never published */
    __CPROVER_assert(G_nret == 0 && !OBS[0] && !OBS[1] && !OBS[2] && !OBS[3] && *slot_in_parent == self_w, "restart / absent / descent: nothing is retired, nothing made obsolete, the parent slot is untouched");
    { static struct nview GV1; nv_load(&GV1, G_obj, KIND);
      __CPROVER_assert(GV1.count == GV0.count && GV1.prefix == GV0.prefix && nv_child(&GV1, G_b) == childw && nv_child(&GV1, Qb) == qch, "restart / absent / descent: the node image is unchanged (count, prefix, K's byte, arbitrary witness byte)"); }
    __CPROVER_assert(lg_allocs == lg_frees && (lg_allocs == 0 || (!engaged && KIND >= 2 && lg_allocs == 1 && lg_freed(lg_alloc_p[0]))), "only a never-published new node may be freed directly, and only on restart");
    stats_check(&S0, &S1, 0, Z5, Z4, Z4, 0);
    if (engaged && val) {
      __CPROVER_assert(ccs.lock == (void *)LK[2] && ncs.lock == (void *)LK[1], "descent: the child's and the node's sections are open for the caller");
      __CPROVER_assert(child_in_parent != 0 && __CPROVER_same_object(child_in_parent, G_obj) && *(uint64_t *)child_in_parent == childw && child_out == childw && child_type == (childw & 7), "descent: the caller gets the slot inside this node that holds the child, the child word and its type");
#ifdef VERIF_CFG_DEBUG
      __CPROVER_assert(pcs.lock == 0, "descent: the parent's section is closed (the section object records it in assertion-enabled builds)");
#endif
      VERIF_CANARY("descent reachable");
    }
  }
  VERIF_CANARY("remove_or_choose_subtree returns");
}
