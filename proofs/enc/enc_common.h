/* shared by the encoder harnesses: field access through the generated layout, representation invariant, ghost witness */
#include "layout.h"
#define E_RAW(e) ((uint8_t *)(e))
#define E_BUF(e) (*(uint8_t **)(E_RAW(e) + LAY_ENC_BUF))
#define E_CAP(e) (*(uint64_t *)(E_RAW(e) + LAY_ENC_CAP))
#define E_OFF(e) (*(uint64_t *)(E_RAW(e) + LAY_ENC_OFF))
#define E_INLINE(e) (E_BUF(e) == E_RAW(e) + LAY_ENC_IBUF && E_CAP(e) == LAY_ENC_IBUF_SIZE)
/* as a dfcc *requires* the pointer field must be established by a pointer predicate (assumed equalities leave CBMC's value sets empty) */
#define E_INLINE_REQ(e) (__CPROVER_pointer_in_range_dfcc(E_RAW(e) + LAY_ENC_IBUF, E_BUF(e), E_RAW(e) + LAY_ENC_IBUF) && E_CAP(e) == LAY_ENC_IBUF_SIZE)
#define VERIF_CANARY(name) __CPROVER_assert(0, "canary: " name)
