/* Enforces the contract of key_encoder::ensure_available (enc_contracts.h) on the extracted real function and its whole closure:
 * key_encoder::ensure_capacity, detail::ensure_capacity, std::bit_ceil, allocate_aligned, posix_memalign, memcpy(off bytes), free. */
#include "verif_rt.h"
uint64_t W;
static void verif_memcpy_w(uint8_t *d, const uint8_t *s, uint64_t n) {
  if (n == 0) return;
  __CPROVER_assert(__CPROVER_r_ok(s, n), "memcpy source readable for n bytes");
  __CPROVER_assert(__CPROVER_w_ok(d, n), "memcpy destination writable for n bytes");
  if (W < n) d[W] = s[W];
}
#undef VERIF_MEMCPY
#define VERIF_MEMCPY(d, s, n) verif_memcpy_w((uint8_t *)(d), (const uint8_t *)(s), (n))
#include "x_types.h"
#include "x_body.h"
static uint8_t *G_oldheap; static _Bool G_oldheap_freed;
#define VERIF_ON_FREE(p) do { if ((uint8_t *)(p) == G_oldheap && G_oldheap) { __CPROVER_assert(!G_oldheap_freed, "old heap buffer released at most once"); G_oldheap_freed = 1; } else __CPROVER_assert(0, "only the replaced heap buffer is ever freed"); } while (0)
#define VERIF_ALLOC_MAY_FAIL 1
#include "verif_models.h"
#include "enc_contracts.h"
uint64_t IN_req, IN_off, IN_cap;
void harness(void) {
  uint8_t *e = malloc(LAY_ENC_SIZE); __CPROVER_assume(e != 0);
  _Bool heap = nondet_bool();
  if (!heap) { E_BUF(e) = e + LAY_ENC_IBUF; E_CAP(e) = LAY_ENC_IBUF_SIZE; }
  else { IN_cap = nondet_u64(); __CPROVER_assume(IN_cap > LAY_ENC_IBUF_SIZE); uint8_t *hb = malloc(IN_cap); __CPROVER_assume(hb != 0); E_BUF(e) = hb; E_CAP(e) = IN_cap; G_oldheap = hb; }
  IN_off = nondet_u64(); E_OFF(e) = IN_off; IN_req = nondet_u64(); W = nondet_u64();
  __CPROVER_assume(EA_PRE(e, IN_req));
  uint8_t *ob = E_BUF(e); uint64_t oc = E_CAP(e), oo = E_OFF(e); uint8_t oldw = (W < oo) ? ob[W] : 0;
  ENSURE_AVAILABLE((ENSURE_AVAILABLE_a0)e, IN_req);
  if (!verif_exc_pending) {
    __CPROVER_assert(EA_POST(e, IN_req, ob, oc, oo, oldw), "postcondition of ensure_available");
    __CPROVER_assert(G_oldheap_freed == (heap && E_BUF(e) != ob), "old heap buffer released iff replaced");
    if (E_BUF(e) != ob) __CPROVER_assert((E_CAP(e) & (E_CAP(e) - 1)) == 0, "a new capacity is a power of two");
    VERIF_CANARY("ensure_available returns normally");
    if (E_BUF(e) != ob && heap) VERIF_CANARY("growth from heap buffer reachable");
  } else {
    __CPROVER_assert(E_BUF(e) == ob && E_CAP(e) == oc && E_OFF(e) == oo && !G_oldheap_freed, "allocation failure: encoder unchanged, nothing released");
    __CPROVER_assert(oo + IN_req > oc, "throws only when it had to grow");
    VERIF_CANARY("allocation failure path reachable");
  }
}
