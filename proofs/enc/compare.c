/* C11 (and C02): contract of the REAL unodb::detail::compare(key_view, key_view) -- the lexicographic comparison used by the index.
 *   requires  a owns na bytes, b owns nb bytes (any lengths)
 *   ensures   sign(result) = lexicographic order of the byte strings: decided by the first differing byte, the shorter string first
 *             when one is a prefix of the other, 0 iff equal
 * memcmp is an assumed libc contract, stated over the ghost first-difference index D (harness-chosen; its defining property
 * "a[j] == b[j] for all j < D" is what "first difference" means and is not otherwise used). */
#include "x_types.h"
#include "x_body.h"
#include "verif_models.h"
#include "spec_enc.h"
#define VERIF_CANARY(name) __CPROVER_assert(0, "canary: " name)
static const uint8_t *GA, *GB; static uint64_t D, NA, NB_;
uint32_t X_memcmp(uint8_t *a, uint8_t *b, uint64_t n) {
  __CPROVER_assert(n == 0 || (__CPROVER_r_ok(a, n) && __CPROVER_r_ok(b, n)), "memcmp: both regions readable for n bytes");
  __CPROVER_assert(a == GA && b == GB, "memcmp is applied to the two key views from their first bytes");
  if (D < n) { uint32_t mag = nondet_u32(); __CPROVER_assume(mag >= 1 && mag <= 255); return a[D] < b[D] ? (uint32_t)(-(int32_t)mag) : mag; }
  return 0;
}
void harness(void) {
  NA = nondet_u64(); NB_ = nondet_u64();
  __CPROVER_assume(NA <= (1ULL << 40) && NB_ <= (1ULL << 40));
  uint8_t *a = malloc(NA), *b = malloc(NB_); __CPROVER_assume(a && b); GA = a; GB = b;
  uint64_t mn = NA < NB_ ? NA : NB_;
  D = nondet_u64(); __CPROVER_assume(D <= mn && (D == mn || a[D] != b[D]));      /* first difference, or the end of the shorter string */
  int32_t r = (int32_t)COMPARE(a, NA, b, NB_);
  int want = spec_lex_cmp(a, NA, b, NB_, D);
  __CPROVER_assert((r < 0) == (want < 0) && (r > 0) == (want > 0), "C11: compare() orders byte strings lexicographically (first difference; shorter first; 0 iff equal)");
  VERIF_CANARY("compare returns");
  if (D == mn && NA < NB_) VERIF_CANARY("proper-prefix case reachable");
}
