/* C15 / C11 / C12: contract of the REAL key_encoder::encode_text(std::span<const std::byte>) (extracted, whole closure:
 * subspan, strip loop, ensure_available -> ensure_capacity -> allocate/copy/free, append_bytes, encode(u8), encode(u16)).
 *
 * requires  encoder valid: (buf == ibuf, cap == 256) or (cap > 256, buf a heap object of cap bytes); off <= cap;
 *           the caller owns only the first min(len, maxlen) bytes of the text (any read beyond that is a pointer-check failure:
 *           this is the "reads at most maxlen bytes of input" clause); len is any 64-bit value
 * ensures   with m = min(len, maxlen) and n = the length after stripping trailing 0x00 from text[0..m):
 *           off' = off + n + 3  (so at most maxlen + 3 bytes are emitted); out[off+i] = text[i] for i < n (ghost witness W);
 *           out[off+n] = 0x00; out[off+n+1..+2] = big-endian (maxlen - n); bytes [0, off) preserved (witness W), also when
 *           the buffer had to grow; encoder valid again; an old heap buffer is released iff it was replaced
 * The strip loop is closed by an invariant (cut at the natural-loop head emitted by ll2c) with a decreasing variant.
 * Symbolic-length copies use the witness-only memcpy contract (DESIGN.md 3.2).
 * Modular: key_encoder::ensure_available is replaced by its contract (enc_contracts.h, enforced by ensure_available.c). */
#include "verif_rt.h"
uint64_t W;                              /* ghost witness index for every bulk copy and for the output bytes */
static void verif_memcpy_w(uint8_t *d, const uint8_t *s, uint64_t n) {
  if (n == 0) return;
  __CPROVER_assert(__CPROVER_r_ok(s, n), "memcpy source readable for n bytes");
  __CPROVER_assert(__CPROVER_w_ok(d, n), "memcpy destination writable for n bytes");
  if (W < n) d[W] = s[W];                /* pointwise contract at the witness; nothing else is constrained */
}
#undef VERIF_MEMCPY
#define VERIF_MEMCPY(d, s, n) verif_memcpy_w((uint8_t *)(d), (const uint8_t *)(s), (n))
static uint64_t G_m, G_sz_head; static const uint8_t *G_text; static uint64_t K;   /* K: ghost witness for the stripped tail */
#define TEXT_PTR (*(const uint8_t **)&m_text)
#define TEXT_LEN (*(uint64_t *)((uint8_t *)&m_text + 8))
/* weakest invariant that carries the postcondition: sz never exceeds the owned prefix nor the span; everything in [sz, m) is pad */
#define INV(sz) ((sz) <= G_m && (sz) <= TEXT_LEN && (!(K >= (sz) && K < G_m) || G_text[K] == 0) && TEXT_PTR == G_text)
#define VERIF_LOOP_HEAD_ENC_TEXT_for_2econd do { __CPROVER_assert(INV(m_sz), "strip loop invariant holds on entry (base)"); \
    VERIF_LOOP_HAVOC_ENC_TEXT_for_2econd; __CPROVER_assume(INV(m_sz)); G_sz_head = m_sz; } while (0)
#define VERIF_LOOP_BACK_ENC_TEXT_for_2econd do { __CPROVER_assert(INV(m_sz), "strip loop invariant preserved (step)"); \
    __CPROVER_assert(m_sz < G_sz_head, "strip loop variant decreases"); __CPROVER_assume(0); } while (0)
#include "x_types.h"
#include "x_body.h"
static uint8_t *G_oldheap; static _Bool G_oldheap_freed;
#define VERIF_ON_FREE(p) do { if ((uint8_t *)(p) == G_oldheap) { __CPROVER_assert(!G_oldheap_freed, "old heap buffer released at most once"); G_oldheap_freed = 1; } else __CPROVER_assert(0, "only the replaced heap buffer is ever freed"); } while (0)
#include "verif_models.h"
#define ENSURE_AVAILABLE_IS_STUB
#include "enc_contracts.h"
uint64_t IN_len, IN_off;
void harness(void) {
  ENC_TEXT_a0 e_typed = malloc(sizeof(*e_typed)); __CPROVER_assume(e_typed != 0);   /* typed object: field accesses stay scalar */
  __CPROVER_assert(sizeof(*e_typed) == LAY_ENC_SIZE, "generated struct has the real size");
  uint8_t *e = (uint8_t *)e_typed;
  _Bool heap = nondet_bool();
  if (!heap) { E_BUF(e) = e + LAY_ENC_IBUF; E_CAP(e) = LAY_ENC_IBUF_SIZE; }
  else { uint64_t cap = nondet_u64(); __CPROVER_assume(cap > LAY_ENC_IBUF_SIZE && cap <= (1ULL << 32)); uint8_t *hb = malloc(cap); __CPROVER_assume(hb != 0); E_BUF(e) = hb; E_CAP(e) = cap; G_oldheap = hb; }
  IN_off = nondet_u64(); __CPROVER_assume(IN_off <= E_CAP(e)); E_OFF(e) = IN_off;
  uint64_t off0 = IN_off, cap0 = E_CAP(e); uint8_t *buf0 = E_BUF(e);
  IN_len = nondet_u64();                                    /* any length at all */
  G_m = IN_len > LAY_ENC_MAXLEN ? LAY_ENC_MAXLEN : IN_len;
  uint8_t *text = malloc(G_m); __CPROVER_assume(text != 0); /* only min(len, maxlen) bytes are owned by the caller */
  G_text = text;
  W = nondet_u64(); K = nondet_u64();
  uint8_t oldw = (W < off0) ? buf0[W] : 0;
  ENC_TEXT_ret r = ENC_TEXT((ENC_TEXT_a0)e, (ENC_TEXT_a1)text, IN_len);
  __CPROVER_assert(!verif_exc_pending, "no exception when the allocator does not fail");
  __CPROVER_assert((uint8_t *)r == e, "returns *this");
  uint64_t off1 = E_OFF(e), n = off1 - off0 - 3;
  __CPROVER_assert(off1 >= off0 + 3 && n <= G_m, "C15: n + 3 bytes appended with n <= min(len, maxlen), i.e. at most maxlen + 3");
  __CPROVER_assert(n == 0 || text[n - 1] != 0, "normalised: the last kept byte is not a pad byte");
  if (K >= n && K < G_m) __CPROVER_assert(text[K] == 0, "normalised: every stripped byte is a pad byte");
  __CPROVER_assert(off1 <= E_CAP(e), "representation: off <= cap");
  __CPROVER_assert((E_BUF(e) == e + LAY_ENC_IBUF) == (E_CAP(e) == LAY_ENC_IBUF_SIZE) && E_CAP(e) >= LAY_ENC_IBUF_SIZE, "representation: inline buffer iff cap == 256");
  __CPROVER_assert(__CPROVER_w_ok(E_BUF(e), E_CAP(e)), "representation: buf owns cap bytes");
  __CPROVER_assert((E_BUF(e) != buf0) == (off0 + n + 3 > cap0), "buffer replaced iff it had to grow");
  __CPROVER_assert(G_oldheap_freed == (heap && E_BUF(e) != buf0), "old heap buffer released iff it was replaced (no leak, no double free)");
  uint8_t *out = E_BUF(e);
  if (W < n) __CPROVER_assert(out[off0 + W] == text[W], "C11/C15: text byte W copied to out[off + W]");
  __CPROVER_assert(out[off0 + n] == 0, "C15: terminator pad byte after the text");
  __CPROVER_assert(out[off0 + n + 1] == (uint8_t)((LAY_ENC_MAXLEN - n) >> 8) && out[off0 + n + 2] == (uint8_t)(LAY_ENC_MAXLEN - n), "C15: big-endian run length maxlen - n");
  if (W < off0) __CPROVER_assert(out[W] == oldw, "C12: bytes encoded earlier are preserved (also across buffer growth)");
  VERIF_CANARY("encode_text returns");
  if (E_BUF(e) != buf0 && heap) VERIF_CANARY("growth from a heap buffer reachable");
  if (IN_len > LAY_ENC_MAXLEN && n == LAY_ENC_MAXLEN) VERIF_CANARY("truncation case reachable");
}
