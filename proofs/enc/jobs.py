# C11 / C12 / C15: key encoder and decoder
FP = 'encode_floating_point<unsigned %s, %s>'
job('enc.fp64', ['C11', 'C12', 'C15'], 'u_enc', 'proofs/enc/fp.c', defines=['FP64'],
    roots={'ENC_F64': r'encode_floating_point<unsigned long, double>', 'DEC_F64': r'decode_floating_point<double, unsigned long>'},
    under_contract=['unodb::detail::encode_floating_point<uint64_t,double>', 'unodb::detail::decode_floating_point<double,uint64_t>'],
    replay='replay/enc.cpp', floor=4, timeout=300)
job('enc.fp32', ['C11', 'C12', 'C15'], 'u_enc', 'proofs/enc/fp.c',
    roots={'ENC_F32': r'encode_floating_point<unsigned int, float>', 'DEC_F32': r'decode_floating_point<float, unsigned int>'},
    under_contract=['unodb::detail::encode_floating_point<uint32_t,float>', 'unodb::detail::decode_floating_point<float,uint32_t>'],
    replay='replay/enc.cpp', floor=4, timeout=300)
