# C11 / C12 / C15: key encoder and decoder
FP = 'encode_floating_point<unsigned %s, %s>'
job('enc.fp64', ['C11', 'C12', 'C15'], 'u_enc', 'proofs/enc/fp.c', defines=['FP64'],
    roots={'ENC_F64': r'encode_floating_point<unsigned long, double>', 'DEC_F64': r'decode_floating_point<double, unsigned long>'},
    under_contract=['unodb::detail::encode_floating_point<uint64_t,double>', 'unodb::detail::decode_floating_point<double,uint64_t>'],
    replay='replay/enc.cpp', floor=4, timeout=300)
job('enc.fp32', ['C11', 'C12', 'C15'], 'u_enc', 'proofs/enc/fp.c',
    roots={'ENC_F32': r'encode_floating_point<unsigned int, float>', 'DEC_F32': r'decode_floating_point<float, unsigned int>'},
    under_contract=['unodb::detail::encode_floating_point<uint32_t,float>', 'unodb::detail::decode_floating_point<float,uint32_t>'],
    replay='replay/enc.cpp', floor=4, timeout=300)
for bits, cxx in ((8, 'unsigned char'), (16, 'unsigned short'), (32, 'unsigned int'), (64, 'unsigned long')):
    job('enc.u%d.dfcc' % bits, ['C11', 'C12'], 'u_enc', 'proofs/enc/int_dfcc.c', defines=['NBYTES=%d' % (bits // 8)],
        roots={'FN': r'key_encoder::encode\(%s\)' % cxx}, dfcc={'enforce': 'FN'},
        under_contract=['unodb::key_encoder::encode(uint%d_t)' % bits], floor=10, timeout=300)
job('enc.text', ['C15', 'C11', 'C12'], 'u_enc', 'proofs/enc/text.c', roots={'ENC_TEXT': r'key_encoder::encode_text\(std::span'}, stubs={'ENSURE_AVAILABLE': r'key_encoder::ensure_available\('},
    under_contract=['unodb::key_encoder::encode_text(std::span<const std::byte>)', 'unodb::key_encoder::append_bytes', 'unodb::key_encoder::encode(uint8_t)', 'unodb::key_encoder::encode(uint16_t)'],
    trusted=['memcpy of symbolic length: witness-only pointwise contract (regions checked readable/writable, d[W] = s[W])'],
    floor=100, timeout=900, mem_gb=16, cut=['ENC_TEXT/for_2econd'])
job('enc.ensure_available', ['C12', 'C15', 'C11'], 'u_enc', 'proofs/enc/ensure_available.c', roots={'ENSURE_AVAILABLE': r'key_encoder::ensure_available\('},
    under_contract=['unodb::key_encoder::ensure_available', 'unodb::key_encoder::ensure_capacity', 'unodb::detail::ensure_capacity', 'unodb::detail::allocate_aligned', 'unodb::detail::free_aligned'],
    trusted=['memcpy of symbolic length: witness-only pointwise contract (regions checked readable/writable, d[W] = s[W])'], floor=50, timeout=600)
RT = [('i8', 'signed char', 1, 'int8_t', 'uint8_t', 'nondet_u8', '(a < b)', False), ('i16', 'short', 2, 'int16_t', 'uint16_t', 'nondet_u16', '(a < b)', False),
      ('i32', 'int', 4, 'int32_t', 'uint32_t', 'nondet_u32', '(a < b)', False), ('i64', 'long', 8, 'int64_t', 'uint64_t', 'nondet_u64', '(a < b)', False),
      ('u8', 'unsigned char', 1, 'uint8_t', 'uint8_t', 'nondet_u8', '(a < b)', False), ('u16', 'unsigned short', 2, 'uint16_t', 'uint16_t', 'nondet_u16', '(a < b)', False),
      ('u32', 'unsigned int', 4, 'uint32_t', 'uint32_t', 'nondet_u32', '(a < b)', False), ('u64', 'unsigned long', 8, 'uint64_t', 'uint64_t', 'nondet_u64', '(a < b)', False),
      ('f32', 'float', 4, 'float', 'uint32_t', 'nondet_float', 'spec_lt_f32(a, b)', True), ('f64', 'double', 8, 'double', 'uint64_t', 'nondet_double', 'spec_lt_f64(a, b)', True)]
for nm, cxx, nb, ty, uty, nd, lt, isfp in RT:
    job('enc.roundtrip.' + nm, ['C12', 'C11', 'C15'], 'u_enc', 'proofs/enc/roundtrip.c',
        defines=['NB=%d' % nb, 'TY=%s' % ty, 'UTY=%s' % uty, 'NONDET=(%s)%s' % (ty, nd), 'LT(a,b)=%s' % lt] + (['ISFP', 'QNAN=%s' % ('SPEC_QNAN32' if nb == 4 else 'SPEC_QNAN64')] if isfp else []),
        roots={'ENC': r'key_encoder::encode\(%s\)' % cxx, 'DECODE': r'key_decoder::decode\(%s&\)' % cxx, 'CTOR': r'key_encoder::key_encoder\(\)',
               'GKV': r'key_encoder::get_key_view\(\) const', 'DCTOR': r'key_decoder::key_decoder\(std::span'},
        under_contract=['unodb::key_encoder::encode(%s)' % cxx, 'unodb::key_decoder::decode(%s&)' % cxx, 'unodb::key_encoder::key_encoder()', 'unodb::key_encoder::get_key_view()', 'unodb::key_decoder::key_decoder(key_view)'],
        replay='replay/enc.cpp', floor=20, timeout=600)
for lem in ('lemma_equal', 'lemma_prefix_free', 'lemma_order', 'lemma_concat'):
    job('enc.text.' + lem, ['C15'] if lem == 'lemma_prefix_free' else ['C11', 'C15'], 'u_enc', 'proofs/enc/text_lemmas.c', entry=lem, roots={}, floor=1, timeout=300,
        under_contract=['lemma over the contract of key_encoder::encode_text: ' + lem],
        trusted=['existence of a first-difference index for two different byte strings (well-ordering), list induction over the component schema'])
job('enc.compare', ['C11', 'C02'], 'u_enc', 'proofs/enc/compare.c', roots={'COMPARE': r'^unodb::detail::compare\(std::span'},
    under_contract=['unodb::detail::compare(key_view, key_view)', 'unodb::detail::compare(const void*, size_t, const void*, size_t)'],
    trusted=['memcmp: libc contract stated over the ghost first-difference index'], floor=10, timeout=300)
for bits, cxx in ((8, 'unsigned char'), (16, 'unsigned short'), (32, 'unsigned int'), (64, 'unsigned long')):
    job('enc.u%d.any' % bits, ['C12', 'C11'], 'u_enc', 'proofs/enc/int_any.c', defines=['NB=%d' % (bits // 8)],
        roots={'ENC': r'key_encoder::encode\(%s\)' % cxx}, stubs={'ENSURE_AVAILABLE': r'key_encoder::ensure_available\('},
        under_contract=['unodb::key_encoder::encode(uint%d_t) from any valid state' % bits], floor=10, timeout=600, unwind=10)
DEL = [('i8', 'signed char', 'unsigned char', 'int8_t', '(int8_t)nondet_u8', 'spec_rank_i8(v)', {}), ('i16', 'short', 'unsigned short', 'int16_t', '(int16_t)nondet_u16', 'spec_rank_i16(v)', {}),
       ('i32', 'int', 'unsigned int', 'int32_t', '(int32_t)nondet_u32', 'spec_rank_i32(v)', {}), ('i64', 'long', 'unsigned long', 'int64_t', '(int64_t)nondet_u64', 'spec_rank_i64(v)', {}),
       ('f32', 'float', 'unsigned int', 'float', 'nondet_float', 'FPKEY(v)', {'FPKEY': r'encode_floating_point<unsigned int, float>'}),
       ('f64', 'double', 'unsigned long', 'double', 'nondet_double', 'FPKEY(v)', {'FPKEY': r'encode_floating_point<unsigned long, double>'})]
for nm, cxx, ucxx, ty, nd, spec, extra in DEL:
    roots = {'ENC': r'key_encoder::encode\(%s\)' % cxx}; roots.update(extra)
    job('enc.%s.delegates' % nm, ['C11', 'C12'], 'u_enc', 'proofs/enc/delegate.c', defines=['TY=%s' % ty, 'NONDET=%s' % nd, 'SPECVAL=%s' % spec],
        roots=roots, stubs={'CALLEE': r'key_encoder::encode\(%s\)' % ucxx},
        under_contract=['unodb::key_encoder::encode(%s)' % cxx], floor=5, timeout=300)
job('enc.reset', ['C12'], 'u_enc', 'proofs/enc/misc.c', defines=['M_RESET'], roots={'RESET': r'key_encoder::reset\('}, under_contract=['unodb::key_encoder::reset'], floor=3)
job('enc.dtor', ['C12'], 'u_enc', 'proofs/enc/misc.c', defines=['M_DTOR'], roots={'DTOR': r'key_encoder::~key_encoder\('}, under_contract=['unodb::key_encoder::~key_encoder'], floor=3)
job('enc.text_sv', ['C15', 'C11'], 'u_enc', 'proofs/enc/misc.c', defines=['M_TEXTSV'], roots={'ENC_TEXT_SV': r'key_encoder::encode_text\(std::basic_string_view'},
    stubs={'ENC_TEXT': r'key_encoder::encode_text\(std::span'}, under_contract=['unodb::key_encoder::encode_text(std::string_view)'], floor=3)
job('enc.append', ['C12', 'C15'], 'u_enc', 'proofs/enc/misc.c', defines=['M_APPEND'], roots={'APPEND': r'key_encoder::append_bytes\('},
    stubs={'ENSURE_AVAILABLE': r'key_encoder::ensure_available\('}, under_contract=['unodb::key_encoder::append_bytes'], floor=10,
    trusted=['memcpy of symbolic length: witness-only pointwise contract (regions checked readable/writable, d[W] = s[W])'])
