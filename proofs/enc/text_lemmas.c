/* C11 / C15, text components: lemmas OVER THE CONTRACT of encode_text (text.c), no code involved.
 * The contract says: for normalised text s of length n (n <= maxlen, s[n-1] != 0 if n > 0) the output block is
 *     out_s(i) = s[i] (i < n);  out_s(n) = 0x00;  out_s(n+1), out_s(n+2) = big-endian (maxlen - n);   length n + 3.
 * Universally quantified facts are handled with ghost witnesses: j is an arbitrary index (a conclusion "for all j" is asserted at
 * the arbitrary j; a hypothesis "for all j" is assumed only at that j, which is weaker, hence sound); d is the first-difference
 * witness whose existence for two different strings is the well-ordering of the naturals (the one meta-level step, listed as assumption). */
#include "verif_rt.h"
#include "layout.h"
#define VERIF_CANARY(name) __CPROVER_assert(0, "canary: " name)
#define L LAY_ENC_MAXLEN
static const uint8_t *S, *T; static uint64_t N, M;
static uint8_t out(const uint8_t *s, uint64_t n, uint64_t i) { return i < n ? s[i] : i == n ? 0 : i == n + 1 ? (uint8_t)((L - n) >> 8) : (uint8_t)(L - n); }
static void setup(void) {
  N = nondet_u64(); M = nondet_u64(); __CPROVER_assume(N <= L && M <= L);
  uint8_t *s = malloc(N), *t = malloc(M); __CPROVER_assume(s && t); S = s; T = t;
  __CPROVER_assume(N == 0 || S[N - 1] != 0); __CPROVER_assume(M == 0 || T[M - 1] != 0);   /* normalised (postcondition of text.c) */
}
/* (E) byte-equality of the blocks <=> equality of the normalised texts */
void lemma_equal(void) {
  setup(); uint64_t j = nondet_u64();
  if (N == M && (j >= N || S[j] == T[j]))                     /* texts equal (instantiated at j) */
    __CPROVER_assert(N + 3 == M + 3 && (j >= N + 3 || out(S, N, j) == out(T, M, j)), "C15 text: equal normalised texts give byte-equal encodings");
  if (N + 3 == M + 3 && (j >= N + 3 || out(S, N, j) == out(T, M, j)))   /* blocks equal (instantiated at j) */
    __CPROVER_assert(N == M && (j >= N || S[j] == T[j]), "C15 text: byte-equal encodings come from equal normalised texts");
  VERIF_CANARY("lemma_equal reachable");
}
/* (P) different normalised texts: neither block is a prefix of the other.  d = first difference or min(N, M). */
void lemma_prefix_free(void) {
  setup(); uint64_t d = nondet_u64(); uint64_t mn = N < M ? N : M;
  __CPROVER_assume((d < mn && S[d] != T[d]) || (d == mn && N != M));         /* the texts differ, witnessed by d */
  uint64_t p = d;                                                            /* claimed position where the blocks differ */
  _Bool interior_zero = (d == mn) && ((N < M && T[N] == 0) || (M < N && S[M] == 0));   /* the longer text has 0x00 where the shorter ends */
  if (!interior_zero) {
    __CPROVER_assert(p < N + 3 && p < M + 3 && out(S, N, p) != out(T, M, p), "C15 text: blocks of different texts differ inside both blocks, so neither is a prefix of the other");
    VERIF_CANARY("lemma_prefix_free main case reachable");
  } else {
    /* region of known finding "text-interior-zero": the documented domain (C11) excludes interior zero bytes */
    __CPROVER_assert(p < N + 3 && p < M + 3 && out(S, N, p) != out(T, M, p), "known-finding[text-interior-zero]: blocks differ at the end of the shorter text");
  }
}
/* (O) zero-free normalised texts: s <lex t  =>  block(s) <lex block(t), with the same first-difference witness d */
void lemma_order(void) {
  setup(); uint64_t d = nondet_u64(), j = nondet_u64(), z = nondet_u64(); uint64_t mn = N < M ? N : M;
  __CPROVER_assume(z >= M || T[z] != 0);                                      /* t is free of zero bytes (instantiated at z) */
  __CPROVER_assume((d < mn && S[d] < T[d]) || (d == N && N < M));            /* s <lex t, witnessed by d ... */
  __CPROVER_assume(j >= d || S[j] == T[j]);                                   /* ... with equality before d (instantiated at j) */
  __CPROVER_assume(z == d);                                                   /* the zero-freeness instance we need is the one at d */
  __CPROVER_assert(d < N + 3 && d < M + 3, "C11 text: first difference lies inside both blocks");
  __CPROVER_assert(j >= d || out(S, N, j) == out(T, M, j), "C11 text: blocks agree before the first difference");
  __CPROVER_assert(out(S, N, d) < out(T, M, d), "C11 text: at the first difference the block of the smaller text has the smaller byte");
  VERIF_CANARY("lemma_order reachable");
}
/* (C) concatenation step for multi-component keys: blocks X, Y (neither a proper prefix of the other, by (P) and fixed widths)
 * followed by tails U, V:  X != Y  =>  first difference of X++U vs Y++V is the first difference of X vs Y, inside both blocks;
 *                          X == Y  =>  comparison of X++U vs Y++V is the comparison of U vs V shifted by |X|. */
void lemma_concat(void) {
  uint64_t nx = nondet_u64(), ny = nondet_u64(), nu = nondet_u64(), nv = nondet_u64();
  __CPROVER_assume(nx <= (1u << 20) && ny <= (1u << 20) && nu <= (1u << 20) && nv <= (1u << 20));
  uint8_t *A = malloc(nx + nu), *B = malloc(ny + nv); __CPROVER_assume(A && B);        /* A = X++U, B = Y++V */
  uint64_t d = nondet_u64(), j = nondet_u64();
  if (nondet_bool()) {   /* X != Y, witnessed inside both blocks (prefix-freedom) */
    __CPROVER_assume(d < nx && d < ny && A[d] != B[d]); __CPROVER_assume(j >= d || A[j] == B[j]);
    __CPROVER_assert(d < nx + nu && d < ny + nv && A[d] != B[d] && (j >= d || A[j] == B[j]), "C11 tuples: a difference in an earlier component decides the comparison of the whole keys");
  } else {               /* X == Y: same length, same bytes; the tails U, V differ first at relative index d */
    uint64_t g = nondet_u64();                                  /* arbitrary absolute index before nx + d */
    __CPROVER_assume(nx == ny && d < nu && d < nv && g < nx + d);
    if (g < nx) __CPROVER_assume(A[g] == B[g]);                 /* X(g) == Y(g)            (hypothesis X == Y instantiated at g) */
    else __CPROVER_assume(A[nx + (g - nx)] == B[ny + (g - nx)]); /* U(g-nx) == V(g-nx)     (hypothesis "tails agree before d" instantiated at g - nx) */
    __CPROVER_assume(A[nx + d] != B[ny + d]);                   /* U(d) != V(d) */
    __CPROVER_assert(A[g] == B[g], "C11 tuples: equal earlier components are skipped, keys agree up to the first difference of the tails");
    __CPROVER_assert(nx + d < nx + nu && nx + d < ny + nv && A[nx + d] != B[nx + d] && ((A[nx + d] < B[nx + d]) == (A[nx + d] < B[ny + d])), "C11 tuples: and the first difference of the tails decides the whole comparison");
  }
  VERIF_CANARY("lemma_concat reachable");
}
