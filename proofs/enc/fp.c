/* C11/C12: the REAL unodb::detail::encode_floating_point / decode_floating_point (extracted), full input domain, loop-free.
 * Contract (postconditions taken from the property statements):
 *   order:      enc(a) < enc(b)  <=>  a <spec b    in  -inf < neg < -0 < +0 < pos < +inf < NaN (all NaN equal)
 *   equality:   enc(a) == enc(b) <=>  neither a <spec b nor b <spec a
 *   round trip: dec(enc(a)) is bit-identical to a for every non-NaN a, and the canonical quiet NaN for every NaN */
#include "x_types.h"
#include "x_body.h"
#include "verif_models.h"
#include "spec_enc.h"
#define VERIF_CANARY(name) __CPROVER_assert(0, "canary: " name)
#ifdef FP64
typedef double F; typedef uint64_t U;
#define ENC ENC_F64
#define DEC DEC_F64
#define LT spec_lt_f64
#define ISNAN spec_isnan64
#define QNAN SPEC_QNAN64
#define NONDET nondet_double
#else
typedef float F; typedef uint32_t U;
#define ENC ENC_F32
#define DEC DEC_F32
#define LT spec_lt_f32
#define ISNAN spec_isnan32
#define QNAN SPEC_QNAN32
#define NONDET nondet_float
#endif
F IN_a, IN_b;
void harness(void) {
  IN_a = NONDET(); IN_b = NONDET();
  F a = IN_a, b = IN_b;
  U ea = ENC(a), eb = ENC(b);
  __CPROVER_assert((ea < eb) == (LT(a, b) != 0), "C11 float order: enc(a) < enc(b) iff a precedes b in the stated total order");
  __CPROVER_assert((ea == eb) == (!LT(a, b) && !LT(b, a)), "C11/C15 float equality: encodings equal iff values equivalent (all NaNs one class, -0 and +0 distinct)");
  F d = DEC(ea);
  U ba, bd; memcpy(&ba, &a, sizeof a); memcpy(&bd, &d, sizeof d);
  if (!ISNAN(a)) __CPROVER_assert(ba == bd, "C12 float round trip: decode(encode(a)) is bit-identical to a (incl. -0, infinities, denormals)");
  else __CPROVER_assert(bd == QNAN, "C12 float round trip: any NaN decodes to the canonical quiet NaN");
  VERIF_CANARY("fp harness end reachable");
  if (ISNAN(a) && !ISNAN(b)) VERIF_CANARY("NaN case reachable");
}
