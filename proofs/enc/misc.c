/* C12/C15: small members of key_encoder, each against its contract (harness per entry point).
 *  reset():            off' = 0, buf/cap and every byte unchanged  (so a reused encoder starts exactly like a fresh one whose
 *                      functional postconditions depend only on the inputs and off)
 *  ~key_encoder():     releases the buffer iff it is a heap buffer, exactly once
 *  encode_text(sv):    forwards (data, size) unchanged to encode_text(span)
 *  append_bytes(span): off' = off + n, byte W copied, earlier bytes preserved (ensure_available by contract) */
#include "verif_rt.h"
uint64_t W;
static void verif_memcpy_w(uint8_t *d, const uint8_t *s, uint64_t n) {
  if (n == 0) return;
  __CPROVER_assert(__CPROVER_r_ok(s, n), "memcpy source readable for n bytes");
  __CPROVER_assert(__CPROVER_w_ok(d, n), "memcpy destination writable for n bytes");
  if (W < n) d[W] = s[W];
}
#undef VERIF_MEMCPY
#define VERIF_MEMCPY(d, s, n) verif_memcpy_w((uint8_t *)(d), (const uint8_t *)(s), (n))
#include "x_types.h"
#include "x_body.h"
static uint8_t *G_heap; static unsigned G_heap_frees, G_other_frees;
#define VERIF_ON_FREE(p) do { if ((uint8_t *)(p) == G_heap && G_heap) G_heap_frees++; else G_other_frees++; } while (0)
#include "verif_models.h"
#if defined(M_APPEND)
#define ENSURE_AVAILABLE_IS_STUB
#endif
#include "enc_contracts.h"
static uint8_t *mk(void) {
  uint8_t *e = malloc(LAY_ENC_SIZE); __CPROVER_assume(e != 0);
  if (nondet_bool()) { E_BUF(e) = e + LAY_ENC_IBUF; E_CAP(e) = LAY_ENC_IBUF_SIZE; }
  else { uint64_t cap = nondet_u64(); __CPROVER_assume(cap > LAY_ENC_IBUF_SIZE && cap <= (1ULL << 40)); uint8_t *hb = malloc(cap); __CPROVER_assume(hb != 0); E_BUF(e) = hb; E_CAP(e) = cap; G_heap = hb; }
  uint64_t off = nondet_u64(); __CPROVER_assume(off <= E_CAP(e)); E_OFF(e) = off; return e;
}
#ifdef M_RESET
void harness(void) {
  uint8_t *e = mk(); uint8_t *b0 = E_BUF(e); uint64_t c0 = E_CAP(e); W = nondet_u64(); uint8_t w0 = W < c0 ? b0[W] : 0;
  RESET_ret r = RESET((RESET_a0)e);
  __CPROVER_assert((uint8_t *)r == e && E_OFF(e) == 0 && E_BUF(e) == b0 && E_CAP(e) == c0 && (W >= c0 || b0[W] == w0) && G_heap_frees + G_other_frees == 0, "C12 reset: off = 0, buffer, capacity and content untouched, nothing released");
  VERIF_CANARY("reset returns");
}
#endif
#ifdef M_DTOR
void harness(void) {
  uint8_t *e = mk(); _Bool heap = E_CAP(e) > LAY_ENC_IBUF_SIZE;
  DTOR((DTOR_a0)e);
  __CPROVER_assert(G_heap_frees == (heap ? 1 : 0) && G_other_frees == 0, "C10/C12 destructor: heap buffer released exactly once, inline buffer never");
  VERIF_CANARY("destructor returns"); if (heap) VERIF_CANARY("heap case reachable");
}
#endif
#ifdef M_TEXTSV
static unsigned G_calls; static void *G_self; static const void *G_p; static uint64_t G_n;
ENC_TEXT_ret ENC_TEXT(ENC_TEXT_a0 self, ENC_TEXT_a1 p, ENC_TEXT_a2 n) { G_calls++; G_self = self; G_p = p; G_n = n; return self; }
void harness(void) {
  uint8_t *e = mk(); uint8_t *p = nondet_ptr(); uint64_t n = nondet_u64();
  ENC_TEXT_SV_ret r = ENC_TEXT_SV((ENC_TEXT_SV_a0)e, n, (ENC_TEXT_SV_a2)p);    /* string_view is passed as (len, ptr) */
  __CPROVER_assert((void *)r == (void *)e && G_calls == 1 && G_self == (void *)e && G_p == (const void *)p && G_n == n, "C15: encode_text(string_view) forwards exactly (data, size) to encode_text(span)");
  VERIF_CANARY("encode_text(string_view) returns");
}
#endif
#ifdef M_APPEND
void harness(void) {
  uint8_t *e = mk(); uint64_t off0 = E_OFF(e); W = nondet_u64();
  uint64_t n = nondet_u64(); __CPROVER_assume(n <= (1ULL << 40)); uint8_t *src = malloc(n); __CPROVER_assume(src != 0);
  uint8_t oldw = (W < off0) ? E_BUF(e)[W] : 0;
  APPEND_ret r = APPEND((APPEND_a0)e, (APPEND_a1)src, n);
  __CPROVER_assert(!verif_exc_pending && (uint8_t *)r == e && E_VALID(e) && E_OFF(e) == off0 + n, "append_bytes: off advances by n, encoder valid");
  if (W < n) __CPROVER_assert(E_BUF(e)[off0 + W] == src[W], "append_bytes: byte W of the source lands at out[off + W]");
  if (W < off0) __CPROVER_assert(E_BUF(e)[W] == oldw, "append_bytes: earlier bytes preserved (also across growth)");
  VERIF_CANARY("append_bytes returns");
}
#endif
