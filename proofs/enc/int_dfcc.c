/* C11/C12: functional contract of key_encoder::encode(<unsigned integer>) discharged by goto-instrument --dfcc on the extracted
 * real function (whole closure: ensure_available, make_binary_comparable_integral, bswap, memcpy).
 *   requires  the encoder owns its object, inline buffer (the state every encoder starts in), room for sizeof(T) bytes
 *   ensures   off' = off + sizeof(T); byte off+i is byte i of the big-endian image of v; every earlier byte unchanged
 *             (ghost witness index W, chosen by the environment); buf/cap unchanged; returns *this
 *   assigns   only the encoder object */
#include "x_types.h"
#include "enc_common.h"
#include "spec_enc.h"
uint64_t W;        /* ghost witness: an arbitrary earlier byte */
#ifndef NBYTES
#error NBYTES
#endif
FN_ret FN(FN_a0 self, FN_a1 v)
__CPROVER_requires(__CPROVER_is_fresh(self, LAY_ENC_SIZE))
__CPROVER_requires(!verif_exc_pending)                       /* no exception in flight on entry (dfcc havocs statics) */
__CPROVER_requires(E_INLINE_REQ(self) && E_OFF(self) <= LAY_ENC_IBUF_SIZE - NBYTES)
__CPROVER_assigns(__CPROVER_object_whole(self))
__CPROVER_ensures(!verif_exc_pending)                        /* no growth needed => cannot throw */
__CPROVER_ensures(__CPROVER_return_value == self)
__CPROVER_ensures(E_INLINE(self))
__CPROVER_ensures(E_OFF(self) == __CPROVER_old(E_OFF(self)) + NBYTES)
__CPROVER_ensures(E_BUF(self)[__CPROVER_old(E_OFF(self)) + 0] == spec_be_byte(v, NBYTES, 0))
#if NBYTES > 1
__CPROVER_ensures(E_BUF(self)[__CPROVER_old(E_OFF(self)) + 1] == spec_be_byte(v, NBYTES, 1))
#endif
#if NBYTES > 2
__CPROVER_ensures(E_BUF(self)[__CPROVER_old(E_OFF(self)) + 2] == spec_be_byte(v, NBYTES, 2))
__CPROVER_ensures(E_BUF(self)[__CPROVER_old(E_OFF(self)) + 3] == spec_be_byte(v, NBYTES, 3))
#endif
#if NBYTES > 4
__CPROVER_ensures(E_BUF(self)[__CPROVER_old(E_OFF(self)) + 4] == spec_be_byte(v, NBYTES, 4))
__CPROVER_ensures(E_BUF(self)[__CPROVER_old(E_OFF(self)) + 5] == spec_be_byte(v, NBYTES, 5))
__CPROVER_ensures(E_BUF(self)[__CPROVER_old(E_OFF(self)) + 6] == spec_be_byte(v, NBYTES, 6))
__CPROVER_ensures(E_BUF(self)[__CPROVER_old(E_OFF(self)) + 7] == spec_be_byte(v, NBYTES, 7))
#endif
__CPROVER_ensures(W < __CPROVER_old(E_OFF(self)) ==> E_BUF(self)[W] == __CPROVER_old(E_BUF(self)[W < LAY_ENC_IBUF_SIZE ? W : 0]))
;
#include "x_body.h"
#include "verif_models.h"
void harness(void) {
  FN_a0 self; FN_a1 v;
  FN(self, v);
  VERIF_CANARY("encode(unsigned) returns for some admissible input");
}
