/* C12 + C11 on the REAL encoder/decoder pair for one component type T (macro-selected):
 *   e.encode(v) on an encoder in its inline-buffer state at an arbitrary offset, then key_decoder(e.get_key_view()) positioned at
 *   that offset, decode(x):  x is bit-identical to v (NaN: canonical quiet NaN); both offsets advance by exactly sizeof(T);
 *   and for two values a, b encoded at the same offset the lexicographic order of the sizeof(T) output bytes is the order of a, b.
 * Loop-free over the full input domain (all 2^(2*bits) pairs): complete, not bounded. */
#include "x_types.h"
#include "x_body.h"
#include "verif_models.h"
#include "enc_common.h"
#include "spec_enc.h"
#define D_RAW(d) ((uint8_t *)(d))
#define D_BUF(d) (*(const uint8_t **)(D_RAW(d) + LAY_DEC_BUF))
#define D_CAP(d) (*(uint64_t *)(D_RAW(d) + LAY_DEC_CAP))
#define D_OFF(d) (*(uint64_t *)(D_RAW(d) + LAY_DEC_OFF))
#ifndef NB
#error NB
#endif
TY IN_a, IN_b; uint64_t IN_off;
static int lexlt(const uint8_t *p, const uint8_t *q) { /* first difference among NB bytes, unrolled */
  for (int i = 0; i < NB; i++) { if (p[i] < q[i]) return 1; if (p[i] > q[i]) return 0; } return 0; }
static int lexeq(const uint8_t *p, const uint8_t *q) { for (int i = 0; i < NB; i++) if (p[i] != q[i]) return 0; return 1; }
void harness(void) {
  ENC_a0 e1 = malloc(sizeof(*e1)), e2 = malloc(sizeof(*e2)); __CPROVER_assume(e1 && e2);
  CTOR(e1); CTOR(e2);                                    /* the real constructor establishes the inline-buffer state */
  __CPROVER_assert(E_INLINE(e1) && E_OFF(e1) == 0, "constructor: inline buffer, cap 256, off 0");
  IN_off = nondet_u64(); __CPROVER_assume(IN_off <= LAY_ENC_IBUF_SIZE - NB);
  E_OFF(e1) = IN_off; E_OFF(e2) = IN_off;               /* any earlier content, any offset that leaves room */
  TY a = IN_a = NONDET(), b = IN_b = NONDET();
  ENC(e1, a); ENC(e2, b);
  __CPROVER_assert(!verif_exc_pending, "no exception");
  __CPROVER_assert(E_OFF(e1) == IN_off + NB && E_OFF(e2) == IN_off + NB, "C12: a fixed-size component occupies exactly sizeof(T) bytes whatever its value");
  const uint8_t *pa = E_BUF(e1) + IN_off, *pb = E_BUF(e2) + IN_off;
  __CPROVER_assert(lexlt(pa, pb) == (LT(a, b) != 0), "C11: byte-wise order of the encodings equals the order of the values");
  __CPROVER_assert(lexeq(pa, pb) == (!LT(a, b) && !LT(b, a)), "C15: encodings byte-equal iff values equal after normalisation");
  /* decode through the real key view and decoder */
  GKV_ret kv = GKV(e1);
  DECODE_a0 d = malloc(sizeof(*d)); __CPROVER_assume(d != 0);
  DCTOR(d, kv.f0, kv.f1);
  __CPROVER_assert(D_BUF(d) == E_BUF(e1) && D_CAP(d) == IN_off + NB && D_OFF(d) == 0, "decoder views exactly the encoded bytes");
  D_OFF(d) = IN_off;
  TY x; DECODE(d, &x);
  __CPROVER_assert(D_OFF(d) == IN_off + NB, "C12: decoding consumes exactly sizeof(T) bytes");
  UTY bx, ba; memcpy(&bx, &x, NB); memcpy(&ba, &a, NB);
#ifdef ISFP
  if (a != a) __CPROVER_assert(bx == QNAN, "C12: any NaN decodes to the canonical quiet NaN"); else
#endif
  __CPROVER_assert(bx == ba, "C12: decode(encode(v)) is bit-identical to v");
  VERIF_CANARY("roundtrip harness end reachable");
}
