/* C11/C12: the signed and floating-point overloads of key_encoder::encode delegate to the unsigned overload of the same width.
 * Modular: the unsigned overload (contract proved by enc.uN.dfcc / enc.uN.any) is replaced by a recording stub; obligation:
 * it is called exactly once, on this encoder, with  rank(v) = v - MIN  (signed)  /  the order key of the float (its own contract: enc.fpNN). */
#include "x_types.h"
#include "x_body.h"
#include "verif_models.h"
#include "enc_common.h"
#include "spec_enc.h"
static unsigned G_calls; static uint64_t G_arg; static void *G_self;
CALLEE_ret CALLEE(CALLEE_a0 self, CALLEE_a1 u) { G_calls++; G_arg = (uint64_t)u; G_self = self; return self; }
TY IN_v;
void harness(void) {
  ENC_a0 et = malloc(sizeof(*et)); __CPROVER_assume(et != 0);
  TY v = IN_v = NONDET();
  ENC_ret r = ENC(et, v);
  __CPROVER_assert(!verif_exc_pending && (void *)r == (void *)et, "returns *this, no exception of its own");
  __CPROVER_assert(G_calls == 1 && G_self == (void *)et, "delegates exactly once to the unsigned overload on the same encoder");
  __CPROVER_assert(G_arg == (uint64_t)(SPECVAL), "C11: the unsigned value handed on is the order rank of v in its type (v - MIN) / the float order key");
  VERIF_CANARY("delegating encode returns");
}
