/* Contract of key_encoder::ensure_available(req), written once:
 *   - EA_PRE / EA_POST are the pre/postcondition predicates;
 *   - proofs/enc/ensure_available.c ENFORCES them on the extracted real function (whole closure down to posix_memalign/free);
 *   - callers are proved against ENSURE_AVAILABLE_contract(), the mechanical "assert pre; havoc frame; assume post" replacement
 *     (what goto-instrument --replace-call-with-contract generates; written out because the contract allocates/frees conditionally).
 * Frame: encoder fields buf, cap; the fresh buffer; the released old heap buffer.  off and every byte [0, off) are preserved. */
#ifndef ENC_CONTRACTS_H
#define ENC_CONTRACTS_H
#include "enc_common.h"
extern uint64_t W;     /* ghost witness index, chosen once by the harness */
#define E_VALID(e) (E_CAP(e) >= LAY_ENC_IBUF_SIZE && ((E_BUF(e) == E_RAW(e) + LAY_ENC_IBUF) == (E_CAP(e) == LAY_ENC_IBUF_SIZE)) && E_OFF(e) <= E_CAP(e) && __CPROVER_w_ok(E_BUF(e), E_CAP(e)))
#define EA_PRE(e, req) (E_VALID(e) && (req) <= UINT64_MAX - E_OFF(e) && E_OFF(e) + (req) <= (1ULL << 62) && !verif_exc_pending)
/* old_* are entry values; oldw is the entry value of byte W (meaningful when W < old_off) */
#define EA_POST(e, req, old_buf, old_cap, old_off, oldw) ( \
    E_VALID(e) && E_OFF(e) == (old_off) && E_CAP(e) >= (old_off) + (req) && \
    (((old_off) + (req) <= (old_cap)) ? (E_BUF(e) == (old_buf) && E_CAP(e) == (old_cap)) \
                                      : (E_BUF(e) != (old_buf) && E_CAP(e) > LAY_ENC_IBUF_SIZE && E_CAP(e) < 2 * ((old_off) + (req)))) && \
    (!(W < (old_off)) || E_BUF(e)[W] == (oldw)))
#ifdef ENSURE_AVAILABLE_IS_STUB
void ENSURE_AVAILABLE(ENSURE_AVAILABLE_a0 self, ENSURE_AVAILABLE_a1 req) {
  uint8_t *e = (uint8_t *)self;
  __CPROVER_assert(EA_PRE(e, req), "precondition of ensure_available holds at the call site");
  uint8_t *ob = E_BUF(e); uint64_t oc = E_CAP(e), oo = E_OFF(e); uint8_t oldw = (W < oo) ? ob[W] : 0;
  if (oo + req > oc) {
    uint64_t nc = nondet_u64(); __CPROVER_assume(nc >= oo + req && nc > LAY_ENC_IBUF_SIZE && nc < 2 * (oo + req));
    uint8_t *nb = malloc(nc); __CPROVER_assume(nb != 0);
    if (W < oo) nb[W] = oldw;
    if (oc > LAY_ENC_IBUF_SIZE) { VERIF_ON_FREE(ob); free(ob); }
    E_BUF(e) = nb; E_CAP(e) = nc;
  }
  __CPROVER_assume(EA_POST(e, req, ob, oc, oo, oldw));
}
#endif
#endif
