/* C12 ("an encoder that had to grow its buffer, or is reused after reset, yields the same bytes as a fresh one") and C11:
 * key_encoder::encode(<unsigned T>) from ANY valid encoder state (inline or heap buffer, any offset, growth needed or not),
 * modular: ensure_available replaced by its contract (enc_contracts.h).
 *   ensures  no exception => off' = off + sizeof(T), out[off+i] = byte i of the big-endian image of v, bytes [0, off) preserved (W),
 *            encoder valid;   exception (allocation failure inside ensure_available) => nothing observable changed. */
#include "verif_rt.h"
uint64_t W;
#include "x_types.h"
#include "x_body.h"
static _Bool G_freed;
#define VERIF_ON_FREE(p) (G_freed = 1)
#include "verif_models.h"
#define ENSURE_AVAILABLE_IS_STUB
#include "enc_contracts.h"
#include "spec_enc.h"
uint64_t IN_off, IN_v;
void harness(void) {
  ENC_a0 et = malloc(sizeof(*et)); __CPROVER_assume(et != 0); uint8_t *e = (uint8_t *)et;
  if (nondet_bool()) { E_BUF(e) = e + LAY_ENC_IBUF; E_CAP(e) = LAY_ENC_IBUF_SIZE; }
  else { uint64_t cap = nondet_u64(); __CPROVER_assume(cap > LAY_ENC_IBUF_SIZE && cap <= (1ULL << 40)); uint8_t *hb = malloc(cap); __CPROVER_assume(hb != 0); E_BUF(e) = hb; E_CAP(e) = cap; }
  IN_off = nondet_u64(); __CPROVER_assume(IN_off <= E_CAP(e)); E_OFF(e) = IN_off;
  W = nondet_u64(); uint8_t oldw = (W < IN_off) ? E_BUF(e)[W] : 0;
  IN_v = nondet_u64(); ENC_a1 v = (ENC_a1)IN_v;
  ENC_ret r = ENC(et, v);
  __CPROVER_assert(!verif_exc_pending, "no exception (the contract stub models the non-failing allocator; failure is covered by enc.ensure_available)");
  __CPROVER_assert((uint8_t *)r == e, "returns *this");
  __CPROVER_assert(E_VALID(e), "encoder valid afterwards");
  __CPROVER_assert(E_OFF(e) == IN_off + NB, "C12: exactly sizeof(T) bytes appended");
  for (unsigned i = 0; i < NB; i++) __CPROVER_assert(E_BUF(e)[IN_off + i] == spec_be_byte((uint64_t)v, NB, i), "C11/C12: output is the big-endian image of the value, whatever the buffer state");
  if (W < IN_off) __CPROVER_assert(E_BUF(e)[W] == oldw, "C12: earlier bytes preserved, also across growth");
  VERIF_CANARY("encode(unsigned) from an arbitrary state returns");
  if (G_freed) VERIF_CANARY("growth from a heap buffer reachable");
}
