/* C01 / C08 / C10: db<uint64_t>::insert_internal, REAL code, whole closure (make_db_leaf_ptr, basic_leaf ctor, inode_4::create + both
 * two-child constructors, key_prefix ctor/cut, impl_helpers::add_or_choose_subtree<class under proof>, add_to_nonfull, the growing
 * constructor of the next class, deleters, statistics, allocate_aligned down to posix_memalign/free) with the allocator failing
 * nondeterministically at EVERY allocation.
 * The descent loop is cut at its head.  Invariant: `node` is the address of a slot holding a well-formed subtree reached along K's path at
 * depth d, remaining_key == K >> 8d.  One iteration is proved for ALL images of node kind KIND (0 leaf, 1..4 inner), all keys, depths, values:
 *   result        true iff M(slot, d, K) is none                                   ("insert succeeds iff the key is absent")
 *   effect        M'(Q) == (Q == K ? the inserted value : M(Q)) for the arbitrary ghost probe key Q   ("never alters an existing entry"),
 *                 by: duplicate (nothing changes) | leaf split into an N4 | prefix split | add to non-full node | growth to the next class
 *                 | descent into exactly the child slot for K's next key byte with depth d + prefix length + 1
 *   shape (C10)   new N4 has two sorted children and the common prefix; grown node = smallest class that fits, view = old view + new entry
 *   accounting    statistics move by exactly the structural change; every block released is released once; the replaced node is
 *                 released exactly when it was replaced
 *   exception (C08)  bad_alloc / length_error pending => slot, node image, statistics unchanged, everything allocated by the step was
 *                 released again, nothing else released
 * Empty tree: a single leaf becomes the root. */
#include "verif_rt.h"
uint64_t W;                                   /* ghost witness index into the value bytes */
static void verif_memcpy_w(uint8_t *d, const uint8_t *s, uint64_t n) {
  if (n == 0) return;
  __CPROVER_assert(__CPROVER_r_ok(s, n), "memcpy source readable for n bytes");
  __CPROVER_assert(__CPROVER_w_ok(d, n), "memcpy destination writable for n bytes");
  if (n <= 8) { for (unsigned i = 0; i < 8; i++) if (i < n) d[i] = s[i]; return; }     /* short copies (the 8 key bytes) are exact */
  if (W < n) d[W] = s[W];                                                                /* long copies: pointwise contract at the witness */
}
#undef VERIF_MEMCPY
#define VERIF_MEMCPY(d, s, n) verif_memcpy_w((uint8_t *)(d), (const uint8_t *)(s), (n))
static void params_check_(void *ik, void *v, const char *unused); static void params_set_(void *ik, void *v);
static void base_(void *node_pp, void *depth_p, void *rk_p); static void head_(void *node_pp, void *depth_p, void *rk_p); static void back_(void *node_p, uint32_t depth, uint64_t rk);
#define VERIF_LOOP_HEAD_INSERT_INTERNAL_while_2ebody do { base_(&m_node, &m_depth, &m_remaining_key); params_check_(&m_insert_key, &m_v, "loop invariant holds on entry (base): insert_key and v are the arguments"); VERIF_LOOP_HAVOC_INSERT_INTERNAL_while_2ebody; params_set_(&m_insert_key, &m_v); head_(&m_node, &m_depth, &m_remaining_key); } while (0)
#define VERIF_LOOP_BACK_INSERT_INTERNAL_while_2ebody params_check_(&m_insert_key, &m_v, "loop invariant preserved (step): insert_key and v are never modified"); back_(*(void **)&m_node, *(uint32_t *)&m_depth, *(uint64_t *)&m_remaining_key)
#include "x_types.h"
#include "x_body.h"
static void lg_on_alloc(uint8_t *p, uint64_t n); static void lg_on_free(uint8_t *p);
#define VERIF_ON_ALLOC(p, n) lg_on_alloc((uint8_t *)(p), (n))
#define VERIF_ON_FREE(p) lg_on_free((uint8_t *)(p))
#define VERIF_ALLOC_MAY_FAIL 1
#include "verif_models.h"
#define SUB_ANS_CLASSES (2 | (KIND >= 1 ? (1 << KIND) : 0) | (KIND >= 1 && KIND <= 3 ? (1 << (KIND + 1)) : 0))
#include "tree_common.h"
PTR_FOREACH(ADT_DEF_PTR)
TAG_PTR_ret TAG_PTR(TAG_PTR_a0 p, TAG_PTR_a1 t) { return adt_tag((const uint8_t *)p, t); }
uint32_t X_memcmp(uint8_t *a, uint8_t *b, uint64_t n) { __CPROVER_assert(n <= 8, "memcmp of at most one 8-byte key"); return (uint32_t)memcmp(a, b, n); }
void X__ZNSt12length_errorC1EPKc(void *self, uint8_t *what) { }
typedef __typeof__(*(NODE_FIND_a0)0) NODE_T;
uint64_t IN_K, IN_Q, IN_vlen; unsigned IN_depth;
static uint8_t *G_db; static uint64_t *G_slot; static uint64_t G_old; static uint8_t *G_obj; static uint8_t *G_val;
static _Bool G_head_seen, G_in_scope, G_expect_descend; static uint8_t G_b; static unsigned G_L;
static struct ans G_before_Q, G_before_K; static struct nview GV0; static struct stats S0, S1;
static uint8_t G_owner[48]; static _Bool G_used[48];
static void params_check_(void *ik, void *v, const char *unused) {
  __CPROVER_assert(*(uint64_t *)ik == IN_K && *(uint8_t **)v == G_val && *(uint64_t *)((uint8_t *)v + 8) == IN_vlen, "loop invariant: the key and value arguments are unchanged (base and step)");
}
static void params_set_(void *ik, void *v) { *(uint64_t *)ik = IN_K; *(uint8_t **)v = G_val; *(uint64_t *)((uint8_t *)v + 8) = IN_vlen; }
static void base_(void *node_pp, void *depth_p, void *rk_p) {
  __CPROVER_assert(*(uint8_t **)node_pp == G_db + NLAY(POL, DB, ROOT) && *(uint32_t *)depth_p == 0 && *(uint64_t *)rk_p == IN_K, "loop invariant holds on entry (base): node = &root, depth 0, remaining key = K");
}
static void head_(void *node_pp, void *depth_p, void *rk_p) {
  G_head_seen = 1;
  IN_depth = nondet_uint(); __CPROVER_assume(IN_depth < 8);
  *(uint32_t *)depth_p = IN_depth; *(uint64_t *)rk_p = IN_K >> (8 * IN_depth);
  G_slot = malloc(8); __CPROVER_assume(G_slot != 0); *(uint64_t **)node_pp = G_slot;        /* the slot in the (opaque) parent, or the root field */
  G_in_scope = ((IN_Q ^ IN_K) & lowmask(IN_depth)) == 0;                                      /* Q shares K's path down to this slot */
  G_expect_descend = 0;
#if KIND == 0
  G_obj = mk_leaf_obj(3);
  __CPROVER_assume(((LEAF_KEY(G_obj) ^ IN_K) & lowmask(IN_depth)) == 0);                      /* path consistency: the leaf lies on K's path */
  G_old = adt_tag(G_obj, T_LEAF);
#else
  { NODE_T *t = malloc(sizeof(NODE_T)); __CPROVER_assume(t != 0); G_obj = (uint8_t *)t; }
  nv_load(&GV0, G_obj, KIND);
  __CPROVER_assume(nv_wf_global(&GV0) && IN_depth + NV_PREFIX_LEN(&GV0) < 8);
  G_L = NV_PREFIX_LEN(&GV0);
  __CPROVER_assume(nv_wf_at(&GV0, kbyte(IN_K, IN_depth + G_L)) && nv_wf_at(&GV0, kbyte(IN_Q, IN_depth + G_L)));
#if KIND == 3
  for (int j = 0; j < 48; j++) { G_owner[j] = nondet_u8(); G_used[j] = nondet_bool(); } __CPROVER_assume(nv_wf_48_full(&GV0, G_owner, G_used));
#endif
#if KIND == 4
  __CPROVER_assume(nv_count(&GV0) < 256 || nv_child(&GV0, kbyte(IN_K, IN_depth + G_L)) != 0);   /* a full N256 holds every key byte (count == number present) */
#endif
  G_old = adt_tag(G_obj, KIND);
#ifdef CASE
  /* case split (the four cases are exhaustive: !pm | pm&child | pm&!child&!full | pm&!child&full); each is discharged as its own query */
  { _Bool pm_ = prefix_matches(GV0.prefix, IN_depth, IN_K); uint64_t ch_ = nv_child(&GV0, kbyte(IN_K, IN_depth + G_L)); _Bool full_ = nv_count(&GV0) == n_capacity(KIND);
    __CPROVER_assume(CASE == 1 ? !pm_ : CASE == 2 ? (pm_ && ch_ != 0) : CASE == 3 ? (pm_ && ch_ == 0 && !full_) : (pm_ && ch_ == 0 && full_)); }
#endif
#endif
  *G_slot = G_old;
#if KIND >= 1
  { uint64_t qc = nv_child(&GV0, kbyte(IN_Q, IN_depth + G_L)), kc = nv_child(&GV0, kbyte(IN_K, IN_depth + G_L));     /* children are opaque subtrees (handles never issued to a materialised node) */
    __CPROVER_assume((qc == 0 || (qc >> 3) >= ADT_MAX) && (kc == 0 || (kc >> 3) >= ADT_MAX)); }
#endif
  G_before_Q = G_in_scope ? sub_ans(G_old, IN_depth, IN_Q, 1) : NONE;
  G_before_K = sub_ans(G_old, IN_depth, IN_K, 1);
  stats_load(&S0, G_db);
#ifdef VERIF_CFG_STATS
  __CPROVER_assume(S0.mem < (1ULL << 60) && S0.splits <= S0.grow[0] && S0.grow[0] < (1ULL << 60) && S0.cnt[KIND] >= 1 && S0.mem >= (KIND == 0 ? LEAF_ALLOC_SIZE(LEAF_VLEN(G_obj)) : n_size(KIND)));  /* statistics invariant instances */
  for (unsigned i = 0; i < 5; i++) __CPROVER_assume(S0.cnt[i] < (1ULL << 60));
  for (unsigned i = 0; i < 4; i++) __CPROVER_assume(S0.grow[i] < (1ULL << 60) && S0.grow[i] >= S0.cnt[i + 1] && S0.shrink[i] <= S0.grow[i] && S0.grow[i] - S0.shrink[i] >= S0.cnt[i + 1]);   /* counter invariants of the index: every inner node alive was grown into and not yet shrunk away */
  for (unsigned i = 0; i < 4; i++) __CPROVER_assume(S0.grow[i] < (1ULL << 60));
#endif
}
static void back_(void *node_p, uint32_t depth, uint64_t rk) {
#if KIND >= 1
  uint8_t b = kbyte(IN_K, IN_depth + G_L); uint64_t ch = prefix_matches(GV0.prefix, IN_depth, IN_K) ? nv_child(&GV0, b) : 0;
  __CPROVER_assert(ch != 0, "loop invariant preserved (step): the loop continues only when K's next key byte has a child");
  struct nview v1; nv_load(&v1, G_obj, KIND);
  __CPROVER_assert(*G_slot == G_old && v1.count == GV0.count && v1.prefix == GV0.prefix && nv_child(&v1, kbyte(IN_Q, IN_depth + G_L)) == nv_child(&GV0, kbyte(IN_Q, IN_depth + G_L)), "descent changes nothing at this level");
  __CPROVER_assert(*(uint64_t *)node_p == ch && adt_ptr(G_old) == G_obj, "loop invariant preserved (step): node' is a slot holding exactly the child for K's next key byte");
  __CPROVER_assert(__CPROVER_same_object(node_p, G_obj), "... and that slot lies inside this node");
  __CPROVER_assert(depth == IN_depth + G_L + 1 && rk == (depth >= 8 ? 0 : IN_K >> (8 * depth)), "loop invariant preserved (step): depth' = depth + prefix length + 1, remaining key shifted accordingly");
  __CPROVER_assert(lg_allocs == 0 && lg_frees == 0 && !verif_exc_pending, "descent allocates and releases nothing");
#if !defined(CASE) || CASE == 2
  VERIF_CANARY("descent reachable");
#endif
#else
  __CPROVER_assert(0, "a leaf is never descended into");
#endif
  __CPROVER_assume(0);
}
void harness(void) {
  INSERT_INTERNAL_a0 dbt = malloc(sizeof(*dbt)); __CPROVER_assume(dbt != 0); G_db = (uint8_t *)dbt;
  IN_K = nondet_u64(); IN_Q = nondet_u64(); IN_vlen = nondet_u64(); W = nondet_u64();
  __CPROVER_assume(IN_vlen <= (1ULL << 33));                         /* every representable length and a margin beyond the 2^32-1 limit */
  G_val = malloc(IN_vlen); __CPROVER_assume(G_val != 0);             /* the caller owns exactly IN_vlen value bytes */
  _Bool empty = nondet_bool();
  uint64_t root0 = empty ? 0 : nondet_u64(); __CPROVER_assume(empty || root0 != 0);
  *(uint64_t *)(G_db + NLAY(POL, DB, ROOT)) = root0;
  if (empty) { stats_load(&S0, G_db);
#ifdef VERIF_CFG_STATS
    __CPROVER_assume(S0.mem < (1ULL << 60) && S0.cnt[0] < (1ULL << 60));
#endif
  }
  _Bool r = INSERT_INTERNAL(dbt, IN_K, (INSERT_INTERNAL_a2)G_val, IN_vlen);
  stats_load(&S1, G_db);
  static const int Z5[5] = {0, 0, 0, 0, 0}, Z4[4] = {0, 0, 0, 0};
  uint64_t leafsz = LEAF_ALLOC_SIZE(IN_vlen);
  /* ------------------------------------------------------------------ exceptional exit (C08) */
  if (verif_exc_pending) {
    __CPROVER_assert(IN_vlen > 0xFFFFFFFFull || verif_alloc_calls >= 1, "an exception is a length error (value longer than 2^32-1) or a failed allocation");
    if (IN_vlen > 0xFFFFFFFFull) __CPROVER_assert(verif_alloc_calls == 0, "C08: size limits are checked before anything is allocated");
    if (empty) __CPROVER_assert(*(uint64_t *)(G_db + NLAY(POL, DB, ROOT)) == 0, "C08: failed insert into the empty tree leaves it empty");
    else if (G_head_seen) {
      __CPROVER_assert(*G_slot == G_old, "C08: failed insert leaves the slot unchanged");
#if KIND >= 1
      struct nview v1; nv_load(&v1, G_obj, KIND); uint8_t qb = kbyte(IN_Q, IN_depth + G_L);
      __CPROVER_assert(v1.count == GV0.count && v1.prefix == GV0.prefix && nv_child(&v1, qb) == nv_child(&GV0, qb), "C08: failed insert leaves the node image unchanged (count, prefix, arbitrary witness key byte)");
#endif
      __CPROVER_assert(!lg_freed(G_obj), "C08: failed insert releases nothing that was there before");
    }
    stats_check(&S0, &S1, 0, Z5, Z4, Z4, 0);
    __CPROVER_assert(lg_frees == lg_allocs, "C08: every block the failed step had allocated was released again (the failed allocation itself yields no block)");
    for (unsigned i = 0; i < LEDGER_MAX; i++) if (i < lg_frees) __CPROVER_assert(lg_allocated(lg_free_p[i]), "C08: ... and only such blocks were released");
#if !defined(CASE) || CASE != 2
    VERIF_CANARY("exceptional exit reachable");
#endif
    return;
  }
  /* ------------------------------------------------------------------ empty tree */
  if (empty) {
    uint64_t nr = *(uint64_t *)(G_db + NLAY(POL, DB, ROOT));
    __CPROVER_assert(r && (nr & 7) == T_LEAF && adt_known(nr), "C01: insert into the empty tree succeeds and makes a leaf the root");
    struct ans a = sub_ans(nr, 0, IN_Q, 1);
    __CPROVER_assert(a.has == (IN_Q == IN_K) && (!a.has || a.n == IN_vlen), "C01: afterwards exactly K is present, with the given value length");
    if (a.has && W < IN_vlen) __CPROVER_assert(((uint8_t *)(uintptr_t)a.p)[W] == G_val[W], "C01: ... and the given value bytes");
    int d5[5] = {1, 0, 0, 0, 0}; stats_check(&S0, &S1, (int64_t)leafsz, d5, Z4, Z4, 0);
    __CPROVER_assert(lg_allocs == 1 && lg_alloc_bytes == leafsz && lg_frees == 0, "C10: exactly one block of the leaf's size is taken from the allocator");
#if !defined(CASE) || CASE == 1
    VERIF_CANARY("empty-tree insert reachable");
#endif
    return;
  }
  __CPROVER_assert(G_head_seen, "non-empty tree: the descent loop is entered");
  /* ------------------------------------------------------------------ result */
  __CPROVER_assert(r == !G_before_K.has, "C01: insert succeeds iff the key is absent (M(K) = none)");
  if (!r) {
    __CPROVER_assert(*G_slot == G_old && lg_allocs == 0 && lg_frees == 0, "C01: duplicate insert changes nothing, allocates nothing, releases nothing");
    stats_check(&S0, &S1, 0, Z5, Z4, Z4, 0);
#if KIND == 0
    VERIF_CANARY("duplicate reachable");
#endif
    return;
  }
  /* ------------------------------------------------------------------ effect on the abstract map */
  struct ans after_Q = G_in_scope ? sub_ans(*G_slot, IN_depth, IN_Q, 2) : NONE;
  if (G_in_scope) {
    if (IN_Q == IN_K) {
      __CPROVER_assert(after_Q.has && after_Q.n == IN_vlen, "C01: the inserted key is present afterwards with the given value length");
      if (after_Q.has && W < IN_vlen) __CPROVER_assert(((uint8_t *)(uintptr_t)after_Q.p)[W] == G_val[W], "C01: ... holding the bytes given to insert (witness byte)");
    } else __CPROVER_assert(ans_eq(after_Q, G_before_Q), "C01: every other key keeps exactly its entry (same presence, same value view): insert never alters an existing entry");
  }
  /* ------------------------------------------------------------------ shape, accounting */
  uint64_t nw = *G_slot; int d5[5] = {1, 0, 0, 0, 0}; int g4[4] = {0, 0, 0, 0};
#if KIND == 0
  {
    __CPROVER_assert((nw & 7) == T_I4 && adt_known(nw) && nw != G_old, "leaf split: the slot now holds a new N4");
    struct nview n; nv_load(&n, adt_ptr(nw), 1);
    __CPROVER_assert(nv_wf_small(&n) && n.count == 2 && IN_depth + NV_PREFIX_LEN(&n) < 8, "C10: the new N4 is well-formed with exactly two children");
    d5[1] = 1; g4[0] = 1; stats_check(&S0, &S1, (int64_t)(leafsz + n_size(1)), d5, g4, Z4, 0);
    __CPROVER_assert(lg_allocs == 2 && lg_alloc_bytes == leafsz + n_size(1) && lg_frees == 0, "C10: one leaf and one N4 taken from the allocator, nothing released");
    VERIF_CANARY("leaf split reachable");
  }
#else
  if (!prefix_matches(GV0.prefix, IN_depth, IN_K)) {
    __CPROVER_assert((nw & 7) == T_I4 && adt_known(nw) && nw != G_old, "prefix split: the slot now holds a new N4");
    struct nview n, o1; nv_load(&n, adt_ptr(nw), 1); nv_load(&o1, G_obj, KIND);
    __CPROVER_assert(nv_wf_small(&n) && n.count == 2, "C10: the new N4 is well-formed with exactly two children");
    __CPROVER_assert(NV_PREFIX_LEN(&n) + 1 + NV_PREFIX_LEN(&o1) == G_L && o1.count == GV0.count && nv_child(&o1, kbyte(IN_Q, IN_depth + G_L)) == nv_child(&GV0, kbyte(IN_Q, IN_depth + G_L)),
                     "C10: the old node keeps its children; its prefix is cut so that new prefix + key byte + rest == old prefix");
    d5[1] = 1; g4[0] = 1; stats_check(&S0, &S1, (int64_t)(leafsz + n_size(1)), d5, g4, Z4, 1);
    __CPROVER_assert(lg_allocs == 2 && lg_alloc_bytes == leafsz + n_size(1) && lg_frees == 0, "C10: one leaf and one N4 taken from the allocator, nothing released");
#if !defined(CASE) || CASE == 1
    VERIF_CANARY("prefix split reachable");
#endif
  } else if (nv_count(&GV0) < n_capacity(KIND)) {
    struct nview v1; nv_load(&v1, G_obj, KIND);
    __CPROVER_assert(nw == G_old && nv_count(&v1) == nv_count(&GV0) + 1 && v1.prefix == GV0.prefix, "add to non-full node: same node, one more child, same prefix");
    stats_check(&S0, &S1, (int64_t)leafsz, d5, Z4, Z4, 0);
    __CPROVER_assert(lg_allocs == 1 && lg_alloc_bytes == leafsz && lg_frees == 0, "C10: exactly the leaf is taken from the allocator");
#if !defined(CASE) || CASE == 3
    VERIF_CANARY("add to non-full node reachable");
#endif
  }
#if KIND <= 3
  else {
    __CPROVER_assert((nw & 7) == KIND + 1 && adt_known(nw) && nw != G_old, "C10 growth: a full node is replaced by a node of the next class");
    struct nview n; nv_load(&n, adt_ptr(nw), KIND + 1);
    __CPROVER_assert(nv_count(&n) == n_capacity(KIND) + 1 && n.prefix == GV0.prefix, "C10 growth: capacity + 1 children (the minimum size of the larger class), prefix copied");
    d5[KIND] = -1; d5[KIND + 1] = 1; g4[KIND] = 1;
    stats_check(&S0, &S1, (int64_t)(leafsz + n_size(KIND + 1)) - (int64_t)n_size(KIND), d5, g4, Z4, 0);
    __CPROVER_assert(lg_allocs == 2 && lg_alloc_bytes == leafsz + n_size(KIND + 1) && lg_frees == 1 && lg_freed(G_obj), "C10 growth: leaf and larger node allocated, the replaced node released exactly once");
#if !defined(CASE) || CASE == 4
    VERIF_CANARY("growth reachable");
#endif
  }
#endif
#endif
#if !defined(CASE) || CASE != 2
  VERIF_CANARY("insert returns");
#endif
}
