/* C01 / C08 / C10: contract of make_db_leaf_ptr<uint64_t, db> + basic_leaf ctor (REAL code), all keys and value lengths.
 *   v.size > 2^32-1            => length_error before any allocation
 *   allocation fails           => bad_alloc, statistics unchanged, nothing leaked
 *   otherwise                  => unique_ptr owning a fresh block of compute_size bytes holding (8, vlen, key bytes, value bytes);
 *                                 leaf count + 1, current_memory_use + size */
#include "verif_rt.h"
uint64_t W;
static void verif_memcpy_w(uint8_t *d, const uint8_t *s, uint64_t n) {
  if (n == 0) return;
  __CPROVER_assert(__CPROVER_r_ok(s, n), "memcpy source readable for n bytes");
  __CPROVER_assert(__CPROVER_w_ok(d, n), "memcpy destination writable for n bytes");
  if (n <= 8) { for (unsigned i = 0; i < 8; i++) if (i < n) d[i] = s[i]; return; }
  if (W < n) d[W] = s[W];
}
#undef VERIF_MEMCPY
#define VERIF_MEMCPY(d, s, n) verif_memcpy_w((uint8_t *)(d), (const uint8_t *)(s), (n))
#include "x_types.h"
#include "x_body.h"
static void lg_on_alloc(uint8_t *p, uint64_t n); static void lg_on_free(uint8_t *p);
#define VERIF_ON_ALLOC(p, n) lg_on_alloc((uint8_t *)(p), (n))
#define VERIF_ON_FREE(p) lg_on_free((uint8_t *)(p))
#define VERIF_ALLOC_MAY_FAIL 1
#include "verif_models.h"
#define SUB_ANS_CLASSES 2
#include "tree_common.h"
void X__ZNSt12length_errorC1EPKc(void *self, uint8_t *what) { }
uint64_t IN_K, IN_vlen;
void harness(void) {
  MK_LEAF_a4 dbt = malloc(sizeof(*dbt)); __CPROVER_assume(dbt != 0); uint8_t *db = (uint8_t *)dbt;
  IN_K = nondet_u64(); IN_vlen = nondet_u64(); W = nondet_u64(); __CPROVER_assume(IN_vlen <= (1ULL << 33));
  uint8_t *val = malloc(IN_vlen); __CPROVER_assume(val != 0);
  struct stats S0, S1; stats_load(&S0, db);
#ifdef VERIF_CFG_STATS
  __CPROVER_assume(S0.mem < (1ULL << 60) && S0.cnt[0] < (1ULL << 60));
#endif
  uint8_t up[LAY_LEAFUP_SIZE];
  MK_LEAF((MK_LEAF_a0)up, IN_K, (MK_LEAF_a2)val, IN_vlen, dbt);
  stats_load(&S1, db);
  static const int Z5[5] = {0, 0, 0, 0, 0}, Z4[4] = {0, 0, 0, 0};
  if (verif_exc_pending) {
    __CPROVER_assert(IN_vlen > 0xFFFFFFFFull || verif_alloc_calls == 1, "an exception is a length error or the failed allocation");
    if (IN_vlen > 0xFFFFFFFFull) __CPROVER_assert(verif_alloc_calls == 0, "C08: the value length limit is checked before allocating");
    __CPROVER_assert(lg_allocs == 0 && lg_frees == 0, "C08: nothing allocated or released on failure");
    stats_check(&S0, &S1, 0, Z5, Z4, Z4, 0);
    VERIF_CANARY("exceptional exit reachable");
    return;
  }
  __CPROVER_assert(IN_vlen <= 0xFFFFFFFFull, "over-long values never produce a leaf");
  uint8_t *leaf = *(uint8_t **)(up + LAY_LEAFUP_PTR);
  uint64_t sz = LEAF_ALLOC_SIZE(IN_vlen);
  __CPROVER_assert(*(void **)(up + LAY_LEAFUP_DB) == (void *)dbt, "the deleter remembers the index");
  __CPROVER_assert(lg_allocs == 1 && lg_alloc_p[0] == leaf && lg_alloc_sz[0] == sz && lg_frees == 0, "C10: exactly one block of compute_size(8, vlen) bytes");
  __CPROVER_assert(LEAF_KLEN(leaf) == 8 && LEAF_VLEN(leaf) == IN_vlen && LEAF_KEY(leaf) == IN_K, "C01: the leaf stores the key and the value length");
  if (W < IN_vlen) __CPROVER_assert(LEAF_VAL(leaf)[W] == val[W], "C01: the leaf owns a copy of the value bytes (witness byte)");
  int d5[5] = {1, 0, 0, 0, 0}; stats_check(&S0, &S1, (int64_t)sz, d5, Z4, Z4, 0);
  VERIF_CANARY("make_db_leaf_ptr returns");
}
