/* C01: db<uint64_t>::get_internal, REAL code (whole closure: leaf::matches, key_prefix, find_child of the class under proof incl. SIMD).
 * The descent loop is cut at its head with the invariant
 *     node is a well-formed subtree root reached along K's path at depth d,  remaining_key == K >> 8d,
 *     the answer of the whole tree for K  ==  M(node, d, K)
 * One iteration is proved for ALL node images of kind KIND (0 leaf, 1..4 inner classes), all keys and depths:
 *   it returns exactly M(node, d, K)  (value view of the matching leaf / nothing), or continues in exactly the child that defines M
 *   with remaining_key shifted by prefix length + 1.  Empty tree: returns nothing.  Frame: nothing is written. */
#include "verif_rt.h"
static void base_(void *node_p, void *rk_p); static void head_(void *node_p, void *rk_p); static void back_(uint64_t node, uint64_t rk);
#define VERIF_LOOP_HEAD_GET_INTERNAL_while_2econd do { base_(&m_node, &m_remaining_key); VERIF_LOOP_HAVOC_GET_INTERNAL_while_2econd; head_(&m_node, &m_remaining_key); } while (0)
#define VERIF_LOOP_BACK_GET_INTERNAL_while_2econd back_(*(uint64_t *)&m_node, *(uint64_t *)&m_remaining_key)
#include "x_types.h"
#include "x_body.h"
#include "verif_models.h"
#include "tree_common.h"
PTR_FOREACH(ADT_DEF_PTR)
TAG_PTR_ret TAG_PTR(TAG_PTR_a0 p, TAG_PTR_a1 t) { return adt_tag((const uint8_t *)p, t); }
uint32_t X_memcmp(uint8_t *a, uint8_t *b, uint64_t n) { __CPROVER_assert(n <= 8, "memcmp of at most one 8-byte key"); return (uint32_t)memcmp(a, b, n); }
uint64_t IN_K; unsigned IN_depth;
static uint64_t G_root; static struct ans G_M;          /* ghost: M(tree, K), fixed before the call */
static _Bool G_head_seen, G_descends; static uint64_t G_child; static unsigned G_next_depth;
static uint8_t *G_obj;
typedef __typeof__(*(NODE_FIND_a0)0) NODE_T;
static struct nview GV0, GV1; static unsigned Wi;
static void base_(void *node_p, void *rk_p) {
  uint64_t *node = node_p, *rk = rk_p;
  __CPROVER_assert(*node == G_root && *rk == IN_K, "loop invariant holds on entry (base): node = root, remaining key = K, depth 0"); G_head_seen = 1;
}
static void head_(void *node_p, void *rk_p) {
  uint64_t *node = node_p, *rk = rk_p;
  /* arbitrary state satisfying the invariant */
  IN_depth = nondet_uint(); __CPROVER_assume(IN_depth < 8);
  *rk = IN_K >> (8 * IN_depth);
  G_descends = 0;
#if KIND == 0
  G_obj = mk_leaf_obj(3);
  *node = adt_tag(G_obj, T_LEAF);
  __CPROVER_assume(ans_eq(G_M, leaf_ans(G_obj, IN_K)));                    /* invariant: tree answer == M(node, d, K) */
#else
  { NODE_T *t = malloc(sizeof(NODE_T)); __CPROVER_assume(t != 0); G_obj = (uint8_t *)t; }
  nv_load(&GV0, G_obj, KIND);
#define v GV0
  __CPROVER_assume(nv_wf_global(&v) && IN_depth + NV_PREFIX_LEN(&v) < 8);   /* well-formed, and the path fits the 8-byte key */
  uint8_t b = kbyte(IN_K, IN_depth + NV_PREFIX_LEN(&v)); __CPROVER_assume(nv_wf_at(&v, b));
  *node = adt_tag(G_obj, KIND);
  uint64_t ch = prefix_matches(v.prefix, IN_depth, IN_K) ? nv_child(&v, b) : 0;
  if (ch == 0) __CPROVER_assume(!G_M.has);                                 /* M(node, d, K) = none */
  else { G_descends = 1; G_child = ch; G_next_depth = IN_depth + NV_PREFIX_LEN(&v) + 1; } /* M(node, d, K) = M(child, d', K): the induction hypothesis */
#undef v
#endif
  Wi = nondet_uint(); __CPROVER_assume(Wi < 256);
}
static void frame_(void) {
#if KIND == 0
  (void)0;
#else
  nv_load(&GV1, G_obj, KIND);
  __CPROVER_assert(GV1.count == GV0.count && GV1.prefix == GV0.prefix && GV1.keys[Wi] == GV0.keys[Wi] && GV1.slots[Wi] == GV0.slots[Wi], "frame: get does not modify the node (count, prefix, arbitrary witness key/slot)");
#endif
}
static void back_(uint64_t node, uint64_t rk) {
  __CPROVER_assert(G_descends, "loop invariant preserved (step): the loop continues only when the unfolding says the answer lies below a child");
  __CPROVER_assert(node == G_child, "loop invariant preserved (step): it continues in exactly the child that defines M(node, d, K)");
  __CPROVER_assert(rk == (G_next_depth >= 8 ? 0 : IN_K >> (8 * G_next_depth)), "loop invariant preserved (step): remaining key = K shifted by the new depth");
  __CPROVER_assert(G_next_depth > IN_depth, "variant: the depth strictly increases (bounded by the key length)");
  frame_();
#if KIND >= 1
  VERIF_CANARY("descent reachable");
#endif
  __CPROVER_assume(0);
}
void harness(void) {
  GET_INTERNAL_a1 db = malloc(sizeof(*db)); __CPROVER_assume(db != 0);
  IN_K = nondet_u64(); G_root = nondet_u64(); *(uint64_t *)((uint8_t *)db + NLAY(POL, DB, ROOT)) = G_root;
  G_M.has = nondet_bool(); G_M.n = nondet_u64(); G_M.p = nondet_u64();
  if (G_root == 0) __CPROVER_assume(!G_M.has);                               /* M(empty tree) = none */
  uint8_t r[LAY_OPT_VV_SIZE];
  GET_INTERNAL((GET_INTERNAL_a0)r, db, IN_K);
  __CPROVER_assert((r[LAY_OPT_VV_ENGAGED] != 0) == G_M.has, "C01 get: a key is found iff the abstract map holds it");
  if (G_M.has) __CPROVER_assert(*(uint64_t *)r == G_M.p && *(uint64_t *)(r + 8) == G_M.n, "C01 get: the returned view is exactly the stored value bytes (address and length)");
  if (G_head_seen && G_obj) frame_();
  __CPROVER_assert(*(uint64_t *)((uint8_t *)db + NLAY(POL, DB, ROOT)) == G_root, "frame: get does not change the root");
  VERIF_CANARY("get returns");
#if KIND == 0
  if (G_M.has) VERIF_CANARY("hit reachable");
#else
  if (!G_M.has && G_head_seen) VERIF_CANARY("miss inside an inner node reachable");
#endif
}
