/* C01 / C08 / C10: db<uint64_t>::insert_internal at an INNER node whose key prefix does not match the key completely (prefix split), REAL code
 * (key_prefix::get_shared_length, make_db_leaf_ptr, inode_4::create + the prefix-split initialisation incl. key_prefix::cut of the old node,
 * statistics), allocator failing nondeterministically.  The descent loop is cut at its head with the invariant of insert.c (node is the address
 * of a slot holding a subtree reached along K's path at depth d, remaining_key == K >> 8d).  The per-class impl_helpers::add_or_choose_subtree
 * calls are replaced by a stub that only checks WHEN it is called (the whole prefix matches) and then stops: the add / grow / descend branch is
 * the (separate, heavier) step proof; this job closes the prefix-split branch for ALL node classes, depths, prefixes and keys:
 *   result true; the slot holds a new well-formed N4 whose prefix is the s bytes K shares with the old prefix, with exactly two children: the old
 *   node under old_prefix[s], a new leaf for K under K's byte at depth + s; the old node keeps exactly the prefix bytes after the split byte;
 *   statistics: +1 leaf, +1 N4, +1 growth to N4, +1 key_prefix_splits, memory += leaf + N4;  nothing released
 *   exception (C08): slot, old node's prefix and statistics unchanged, every block allocated by the step released again */
#include "verif_rt.h"
static void params_check_(void *ik, void *v, const char *unused); static void params_set_(void *ik, void *v);
static void head_(void *node_pp, void *depth_p, void *rk_p); static void back_(void);
#define VERIF_LOOP_HEAD_INSERT_INTERNAL_while_2ebody do { VERIF_LOOP_HAVOC_INSERT_INTERNAL_while_2ebody; params_set_(&m_insert_key, &m_v); head_(&m_node, &m_depth, &m_remaining_key); } while (0)
#define VERIF_LOOP_BACK_INSERT_INTERNAL_while_2ebody back_()
#include "x_types.h"
#include "x_body.h"
static void lg_on_alloc(uint8_t *p, uint64_t n); static void lg_on_free(uint8_t *p);
#define VERIF_ON_ALLOC(p, n) lg_on_alloc((uint8_t *)(p), (n))
#define VERIF_ON_FREE(p) lg_on_free((uint8_t *)(p))
#define VERIF_ALLOC_MAY_FAIL 1
#include "verif_models.h"
#define SUB_ANS_CLASSES 2
#include "tree_common.h"
#include "spec_prefix.h"
PTR_FOREACH(ADT_DEF_PTR)
TAG_PTR_ret TAG_PTR(TAG_PTR_a0 p, TAG_PTR_a1 t) { return adt_tag((const uint8_t *)p, t); }
uint32_t X_memcmp(uint8_t *a, uint8_t *b, uint64_t n) { __CPROVER_assert(n <= 8, "memcmp of at most one 8-byte key"); return (uint32_t)memcmp(a, b, n); }
void X__ZNSt12length_errorC1EPKc(void *self, uint8_t *what) { }
uint64_t IN_K; unsigned IN_depth; static const uint64_t IN_vlen = 1;      /* constant value length: every length is covered by tree.db64.make_leaf */
static uint8_t *G_db, *G_obj, *G_val; static uint64_t *G_slot; static uint64_t G_old, G_prefix0; static _Bool G_head_seen; static struct stats S0, S1;
static void params_set_(void *ik, void *v) { *(uint64_t *)ik = IN_K; *(uint8_t **)v = G_val; *(uint64_t *)((uint8_t *)v + 8) = IN_vlen; }
static unsigned shared_bytes(uint64_t a, uint64_t b, unsigned lim) { unsigned s = 0; for (unsigned i = 0; i < 8; i++) { if (i < lim && s == i && (uint8_t)(a >> (8 * i)) == (uint8_t)(b >> (8 * i))) s = i + 1; } return s; }
/* the step this job does not cover: reached only when the whole prefix matches */
#define DEF_AOCS(A) A##_ret A(A##_a0 inode, A##_a1 kb, A##_a2 k, A##_a3 vp, A##_a4 vn, A##_a5 db, A##_a6 depth, A##_a7 nip) { \
  unsigned L0 = kp_len(G_prefix0); \
  __CPROVER_assert((uint8_t *)inode == G_obj && shared_bytes(G_prefix0, IN_K >> (8 * IN_depth), L0) == L0, "C01: the add / descend step runs only when the node's whole key prefix matches the key"); \
  __CPROVER_assert(*(uint32_t *)&depth == IN_depth + L0 && kb == kbyte(IN_K, IN_depth + L0) && (void *)nip == (void *)G_slot, "C01: ... at depth + prefix length, with the key's byte at that depth, on this slot"); \
  VERIF_CANARY("full-match branch reachable"); __CPROVER_assume(0); return (A##_ret)0; }
AOCS_FOREACH(DEF_AOCS)
static void head_(void *node_pp, void *depth_p, void *rk_p) {
  G_head_seen = 1;
  IN_depth = nondet_uint(); __CPROVER_assume(IN_depth < 8);
  *(uint32_t *)depth_p = IN_depth; *(uint64_t *)rk_p = IN_K >> (8 * IN_depth);
  G_slot = malloc(8); __CPROVER_assume(G_slot != 0); *(uint64_t **)node_pp = G_slot;
  G_obj = malloc(NLAY(POL, I256, SIZE)); __CPROVER_assume(G_obj != 0);                       /* any inner class: only the header and the key prefix are touched */
  G_prefix0 = N_PREFIX(G_obj, 1); __CPROVER_assume(kp_len(G_prefix0) <= 7 && IN_depth + kp_len(G_prefix0) < 8);
  G_old = adt_tag(G_obj, 1 + nondet_uint() % 4); *G_slot = G_old;
  lg_allocs = 0; lg_frees = 0;
  stats_load(&S0, G_db);
#ifdef VERIF_CFG_STATS
  __CPROVER_assume(S0.mem < (1ULL << 60) && S0.splits < S0.grow[0] && S0.grow[0] < (1ULL << 60));      /* statistics invariant: every prefix split created an N4; this node itself was grown into */
  for (unsigned i = 0; i < 5; i++) __CPROVER_assume(S0.cnt[i] < (1ULL << 60));
  for (unsigned i = 0; i < 4; i++) __CPROVER_assume(S0.grow[i] < (1ULL << 60) && S0.shrink[i] <= S0.grow[i] && S0.grow[i] - S0.shrink[i] >= S0.cnt[i + 1]);
#endif
}
static void back_(void) { __CPROVER_assert(0, "this job stops at the add / descend step"); __CPROVER_assume(0); }
void harness(void) {
  INSERT_INTERNAL_a0 dbt = malloc(sizeof(*dbt)); __CPROVER_assume(dbt != 0); G_db = (uint8_t *)dbt;
  IN_K = nondet_u64(); G_val = malloc(IN_vlen); __CPROVER_assume(G_val != 0);
  uint64_t root0 = nondet_u64(); __CPROVER_assume(root0 != 0 && (root0 & 7) != T_LEAF && (root0 & 7) <= 4 && (root0 >> 3) >= ADT_MAX);   /* the entry up to the loop head is covered by insert.c */
  *(uint64_t *)(G_db + NLAY(POL, DB, ROOT)) = root0;
  _Bool r = INSERT_INTERNAL(dbt, IN_K, (INSERT_INTERNAL_a2)G_val, IN_vlen);
  stats_load(&S1, G_db);
  static const int Z5[5] = {0, 0, 0, 0, 0}, Z4[4] = {0, 0, 0, 0};
  __CPROVER_assert(G_head_seen, "the loop head is reached");
  const unsigned L0 = kp_len(G_prefix0), s_ = shared_bytes(G_prefix0, IN_K >> (8 * IN_depth), L0);
  __CPROVER_assert(s_ < L0, "C01: a return from this step without the add / descend step is a prefix split: a proper mismatch inside the prefix");
  if (verif_exc_pending) {
    __CPROVER_assert(verif_alloc_calls >= 1, "an exception is a failed allocation");
    __CPROVER_assert(*G_slot == G_old && N_PREFIX(G_obj, 1) == G_prefix0, "C08: failed insert leaves the slot and the node's prefix unchanged");
    stats_check(&S0, &S1, 0, Z5, Z4, Z4, 0);
    __CPROVER_assert(lg_frees == lg_allocs, "C08: every block the failed step had allocated was released again");
    for (unsigned i = 0; i < LEDGER_MAX; i++) if (i < lg_frees) __CPROVER_assert(lg_allocated(lg_free_p[i]), "C08: ... and only such blocks were released");
    VERIF_CANARY("exceptional exit reachable");
    return;
  }
  __CPROVER_assert(r, "C01: insert of a key that leaves the tree inside a key prefix succeeds");
  __CPROVER_assert(lg_allocs == 2 && lg_frees == 0, "the step allocates the leaf and the new N4 and releases nothing");
  uint8_t *lp = lg_alloc_p[0], *np = lg_alloc_p[1];
  __CPROVER_assert(*G_slot == adt_tag(np, T_I4), "C01 split: the slot holds the node allocated by this step");
  struct nview nn; nv_load(&nn, np, 1);
  __CPROVER_assert(nv_wf_small(&nn) && nn.count == 2, "C01/C10 split: the new node is a well-formed N4 with exactly two children");
  __CPROVER_assert(NV_PREFIX_LEN(&nn) == s_ && prefix_matches(nn.prefix, IN_depth, IN_K), "C01 split: its key prefix is exactly the bytes the key shares with the old prefix");
  uint8_t kb = kbyte(IN_K, IN_depth + s_), ob = kp_byte(G_prefix0, s_);
  __CPROVER_assert(ob != kb && nv_child(&nn, ob) == G_old, "C01 split: the old node hangs under the prefix byte at the split position");
  __CPROVER_assert(nv_child(&nn, kb) == adt_tag(lp, T_LEAF) && LEAF_KEY(lp) == IN_K && LEAF_VLEN(lp) == IN_vlen && LEAF_VAL(lp)[0] == G_val[0], "C01 split: a leaf with the key and the value hangs under the key's byte at the split position");
  { uint64_t r_ = N_PREFIX(G_obj, 1); unsigned L1 = L0 - s_ - 1;
    __CPROVER_assert(kp_len(r_) == L1 && ((r_ ^ (G_prefix0 >> (8 * (s_ + 1)))) & lowmask(L1)) == 0, "C01 prefix split: the old node keeps exactly the prefix bytes after the split byte"); }
  int d5[5] = {1, 1, 0, 0, 0}, g4[4] = {1, 0, 0, 0};
  stats_check(&S0, &S1, (int64_t)(LEAF_ALLOC_SIZE(IN_vlen) + n_size(1)), d5, g4, Z4, 1);
  VERIF_CANARY("prefix split reachable");
}
