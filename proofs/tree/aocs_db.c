/* C01 / C08 / C10: impl_helpers::add_or_choose_subtree<inode_N> of the unsynchronised index (the add / grow / descend branch of
 * db::insert_internal at an inner node of class KIND whose key prefix matched), REAL code: find_child of the class, make_db_leaf_ptr,
 * add_to_nonfull, creation + initialisation of the next larger class, inode deleter, statistics; allocator failing nondeterministically.
 * Structural contract (the abstract-map reading of it is the one-level unfolding M(node)(b) = M(child for b), see get.c):
 *   requires  node is a well-formed node of class KIND, key_byte == the key's byte at `depth`
 *   ensures   child present  => returns the slot INSIDE the node that holds it, nothing changed, nothing allocated        (descend)
 *             absent, below capacity => returns null; one more child, same prefix, the key byte now leads to a new leaf for K with the
 *                                       value; every other key byte (arbitrary witness Q) leads where it led before; slot in the parent unchanged
 *             absent, at capacity    => returns null; the parent slot holds a NEW node of the next larger class with count + 1 children, same
 *                                       prefix, K's byte -> the new leaf, witness byte Q -> as before; the old node released exactly once
 *                                       (KIND 3: contents of the new N256 not compared - its copy loop stays outside, see jobs.py)
 *             statistics move by exactly this; exception (C08): node image, parent slot, statistics unchanged, every block released again */
#include "verif_rt.h"
#include "x_types.h"
#include "x_body.h"
static void lg_on_alloc(uint8_t *p, uint64_t n); static void lg_on_free(uint8_t *p);
#define VERIF_ON_ALLOC(p, n) lg_on_alloc((uint8_t *)(p), (n))
#define VERIF_ON_FREE(p) lg_on_free((uint8_t *)(p))
#define VERIF_ALLOC_MAY_FAIL 1
#include "verif_models.h"
#define SUB_ANS_CLASSES 2
#include "tree_common.h"
PTR_FOREACH(ADT_DEF_PTR)
#ifdef HAVE_TAG_PTR
TAG_PTR_ret TAG_PTR(TAG_PTR_a0 p, TAG_PTR_a1 t) { return adt_tag((const uint8_t *)p, t); }
#endif
void X__ZNSt12length_errorC1EPKc(void *self, uint8_t *what) { }
typedef __typeof__(*(AOCS_a0)0) NODE_T;
uint64_t IN_K; unsigned IN_depth; uint8_t IN_Qb; static const uint64_t IN_vlen = 1;    /* constant value length: every length is covered by tree.db64.make_leaf */
static uint8_t *G_obj, *G_db, *G_val; static struct nview GV0, GV1, GVN; static uint8_t G_b; static struct stats S0, S1;
#ifdef HAVE_P_GROW
/* KIND 3: the copy routine basic_inode_256::init(db, inode_48& source, leaf, depth) is replaced by ITS CONTRACT: the array part of the constructor
 * contract proved on the real routine with loop invariants in node.db64.ctor.i48_to_i256 (the header - prefix, count - is written by the
 * parent-class constructor, which stays real here):
 *   requires  source = this node, well-formed and full, the leaf's key byte at `depth` absent
 *   ensures   view(new) = view(source) + [b -> leaf] (pointwise: at K's byte and at the witness byte), the leaf's ownership is taken,
 *             the source node is handed to its deleter exactly once (the REAL deleter runs: ledger and statistics) */
static _Bool G_full; static unsigned G_pgrow; static uint64_t G_qch;
void P_GROW(P_GROW_a0 self, P_GROW_a1 db, P_GROW_a2 src, P_GROW_a3 child_up, P_GROW_a4 depth) {
  __CPROVER_assert((uint8_t *)src == G_obj && G_full && (void *)db == (void *)G_db && *(uint32_t *)&depth == IN_depth, "C10: growth happens only at capacity, on this node, at this depth");
  uint8_t **lp = (uint8_t **)((uint8_t *)child_up + LAY_LEAFUP_PTR); uint8_t *leaf = *lp;
  __CPROVER_assert(leaf != 0 && LEAF_KEY(leaf) == IN_K, "contract requires: the new leaf");
  G_pgrow++; *lp = 0;
  uint8_t *d = (uint8_t *)self;
  for (unsigned j = 0; j < 256; j++) *(uint64_t *)(d + n_off_children(4) + 8u * j) = nondet_u64();
  struct nview nd; nv_load(&nd, d, 4);
  __CPROVER_assume(nv_child(&nd, G_b) == adt_tag(leaf, T_LEAF) && (IN_Qb == G_b || nv_child(&nd, IN_Qb) == G_qch));
  void *dd = (void *)db;
  INODE_DELETER((INODE_DELETER_a0)&dd, (INODE_DELETER_a1)src);
}
#endif
static _Bool node_wf(const struct nview *v) {
#if KIND <= 2
  return nv_wf_small(v);
#elif KIND == 3
  static uint8_t owner[48]; static _Bool used[48];
  for (int j = 0; j < 48; j++) { owner[j] = nondet_u8(); used[j] = nondet_bool(); }
  return nv_wf_48_full(v, owner, used);
#else
  return nv_wf_256_full(v);
#endif
}
void harness(void) {
  AOCS_a5 dbt = malloc(sizeof(*dbt)); __CPROVER_assume(dbt != 0); G_db = (uint8_t *)dbt;
  static const int Z5[5] = {0, 0, 0, 0, 0}, Z4[4] = {0, 0, 0, 0};
  IN_K = nondet_u64(); G_val = malloc(IN_vlen); __CPROVER_assume(G_val != 0);
  IN_depth = nondet_uint(); __CPROVER_assume(IN_depth < 8); G_b = kbyte(IN_K, IN_depth); IN_Qb = nondet_u8();
  { NODE_T *t = malloc(sizeof(NODE_T)); __CPROVER_assume(t != 0); G_obj = (uint8_t *)t; }
  nv_load(&GV0, G_obj, KIND); __CPROVER_assume(node_wf(&GV0));
  const uint64_t ch = nv_child(&GV0, G_b), qch = nv_child(&GV0, IN_Qb);
#ifdef HAVE_P_GROW
  G_full = nv_count(&GV0) == n_capacity(KIND); G_qch = qch;
#endif
#if KIND == 4
  __CPROVER_assume(nv_count(&GV0) < 256 || ch != 0);
#endif
  stats_load(&S0, G_db);
#ifdef VERIF_CFG_STATS
  __CPROVER_assume(S0.mem < (1ULL << 60) && S0.mem >= n_size(KIND) && S0.cnt[KIND] >= 1);
  for (unsigned i = 0; i < 5; i++) __CPROVER_assume(S0.cnt[i] < (1ULL << 60));
  for (unsigned i = 0; i < 4; i++) __CPROVER_assume(S0.grow[i] < (1ULL << 60) && S0.shrink[i] <= S0.grow[i] && S0.grow[i] - S0.shrink[i] >= S0.cnt[i + 1]);
#endif
  uint64_t *slot_in_parent = malloc(8); __CPROVER_assume(slot_in_parent != 0); const uint64_t self_w = adt_tag(G_obj, KIND); *slot_in_parent = self_w;
  uint64_t *r = (uint64_t *)AOCS((AOCS_a0)G_obj, G_b, IN_K, (AOCS_a3)G_val, IN_vlen, dbt, IN_depth, (AOCS_a7)slot_in_parent);
  stats_load(&S1, G_db);
  const uint64_t leafsz = LEAF_ALLOC_SIZE(IN_vlen);
  const _Bool full = nv_count(&GV0) == n_capacity(KIND);
  if (verif_exc_pending) {
    nv_load(&GV1, G_obj, KIND);
    __CPROVER_assert(ch == 0 && verif_alloc_calls >= 1, "an exception is a failed allocation on the absent-child path");
    __CPROVER_assert(*slot_in_parent == self_w && GV1.count == GV0.count && GV1.prefix == GV0.prefix && nv_child(&GV1, G_b) == 0 && nv_child(&GV1, IN_Qb) == qch, "C08: failed insert leaves the parent slot and the node image unchanged (count, prefix, K's byte, arbitrary witness byte)");
    stats_check(&S0, &S1, 0, Z5, Z4, Z4, 0);
    __CPROVER_assert(lg_frees == lg_allocs && !lg_freed(G_obj), "C08: every block the failed step had allocated was released again, nothing else");
    VERIF_CANARY("exceptional exit reachable");
    return;
  }
  if (ch != 0) {
    nv_load(&GV1, G_obj, KIND);
    __CPROVER_assert(r != 0 && __CPROVER_same_object(r, G_obj) && *r == ch, "C01 descend: the slot inside this node that holds the child for the key byte");
    __CPROVER_assert(*slot_in_parent == self_w && GV1.count == GV0.count && GV1.prefix == GV0.prefix && nv_child(&GV1, IN_Qb) == qch && lg_allocs == 0 && lg_frees == 0, "C01 descend: nothing changes, nothing is allocated");
    stats_check(&S0, &S1, 0, Z5, Z4, Z4, 0);
    VERIF_CANARY("descend reachable");
    return;
  }
  __CPROVER_assert(r == 0, "C01 add: 'no further descent'");
  uint8_t *leaf = lg_alloc_p[0];
  __CPROVER_assert(lg_allocs >= 1 && lg_alloc_sz[0] == leafsz && LEAF_KEY(leaf) == IN_K && LEAF_VLEN(leaf) == IN_vlen && LEAF_VAL(leaf)[0] == G_val[0], "C01 add: a leaf with the key and the value is created");
  const uint64_t leafw = adt_tag(leaf, T_LEAF);
  int d5[5] = {1, 0, 0, 0, 0}, g4[4] = {0, 0, 0, 0};
  if (!full) {
    nv_load(&GV1, G_obj, KIND);
    __CPROVER_assert(*slot_in_parent == self_w && lg_frees == 0 && lg_allocs == 1, "C10: below capacity the child is added in place: nothing replaced or released");
    __CPROVER_assert(nv_count(&GV1) == nv_count(&GV0) + 1 && GV1.prefix == GV0.prefix && nv_child(&GV1, G_b) == leafw, "C01/C10: one more child, same prefix, the key byte now leads to the new leaf");
    if (IN_Qb != G_b) __CPROVER_assert(nv_child(&GV1, IN_Qb) == qch, "C01: every other key byte leads where it led before (arbitrary witness byte)");
#if KIND <= 2
    __CPROVER_assert(nv_wf_small(&GV1), "C10: the node stays well-formed (sorted, distinct, non-null children)");
#endif
    stats_check(&S0, &S1, (int64_t)leafsz, d5, Z4, Z4, 0);
    VERIF_CANARY("in-place add reachable");
  } else {
#if KIND <= 3
    uint8_t *bigger = lg_alloc_p[1];
    __CPROVER_assert(lg_allocs == 2 && lg_alloc_sz[1] == n_size(KIND + 1) && *slot_in_parent == adt_tag(bigger, KIND + 1), "C10: at capacity the node is replaced by a new node of the next larger class");
    __CPROVER_assert(lg_frees == 1 && lg_freed(G_obj), "C10: the replaced node is released exactly once, nothing else");
#ifdef HAVE_P_GROW
    __CPROVER_assert(G_pgrow == 1, "the copy routine runs exactly once");
#endif
    nv_load(&GVN, bigger, KIND + 1);
    __CPROVER_assert(nv_count(&GVN) == nv_count(&GV0) + 1 && GVN.prefix == GV0.prefix && nv_child(&GVN, G_b) == leafw, "C01/C10: the new node has one more child, the same prefix, and the key byte leads to the new leaf");
    if (IN_Qb != G_b) __CPROVER_assert(nv_child(&GVN, IN_Qb) == qch, "C01: every other key byte leads where it led before (arbitrary witness byte)");
    d5[KIND] = -1; d5[KIND + 1] = 1; g4[KIND] = 1;
    stats_check(&S0, &S1, (int64_t)leafsz + (int64_t)n_size(KIND + 1) - (int64_t)n_size(KIND), d5, g4, Z4, 0);
    VERIF_CANARY("growth reachable");
#else
    __CPROVER_assert(0, "a full N256 has a child for every key byte");
#endif
  }
  VERIF_CANARY("add_or_choose_subtree returns");
}
