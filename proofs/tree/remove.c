/* C01 / C08 / C10: db<uint64_t>::remove_internal, REAL code, whole closure (impl_helpers::remove_or_choose_subtree<class under proof>,
 * find_child, leaf::matches, in-place remove, shrinking constructor of the next smaller class, leave_last_child + key_prefix::prepend,
 * leaf / inode deleters, statistics, allocator), allocator failing nondeterministically at every allocation.
 * The descent loop is cut at its head.  Invariant: `node` is the address of a slot holding a well-formed INNER node reached along K's path at
 * depth d, remaining_key == K >> 8d, remove_key == K.  One iteration is proved for ALL images of node class KIND (1..4) and every shape of the
 * child for K's key byte (absent / inner node / non-matching leaf / matching leaf), all keys and depths:
 *   result      true iff M(slot, d, K) is present                                         ("remove succeeds iff the key is present")
 *   effect      M'(Q) == (Q == K ? none : M(Q)) for the arbitrary ghost probe key Q          (no other entry is touched)
 *               by: nothing (absent) | in-place removal | shrink to the next smaller class at min_size | collapse of a two-child N4 into its
 *               remaining child (prefix prepended into an inner survivor) | descent into exactly the child slot for K's next key byte
 *   shape (C10) shrunk node has min_size - 1 children of the smaller class (its capacity) and the same prefix; a collapsed slot holds the survivor
 *   accounting  statistics move by exactly the structural change; the removed leaf and a replaced node are released exactly once each
 *   exception (C08)  bad_alloc pending (only the smaller node of a shrink can fail) => slot, node image, leaf, statistics unchanged, nothing released
 * KIND 0: the root is a single leaf (handled before the loop).  Empty tree: false. */
#include "verif_rt.h"
static void params_check_(void *rk, const char *unused); static void params_set_(void *rk);
static void base_(void *node_pp, void *depth_p, void *rk_p); static void head_(void *node_pp, void *depth_p, void *rk_p); static void back_(void *node_p, uint32_t depth, uint64_t rk);
#define VERIF_LOOP_HEAD_REMOVE_INTERNAL_while_2ebody do { base_(&m_node, &m_depth, &m_remaining_key); params_check_(&m_remove_key, 0); VERIF_LOOP_HAVOC_REMOVE_INTERNAL_while_2ebody; params_set_(&m_remove_key); head_(&m_node, &m_depth, &m_remaining_key); } while (0)
#define VERIF_LOOP_BACK_REMOVE_INTERNAL_while_2ebody do { params_check_(&m_remove_key, 0); back_(*(void **)&m_node, *(uint32_t *)&m_depth, *(uint64_t *)&m_remaining_key); } while (0)
#include "x_types.h"
#include "x_body.h"
static void lg_on_alloc(uint8_t *p, uint64_t n); static void lg_on_free(uint8_t *p);
#define VERIF_ON_ALLOC(p, n) lg_on_alloc((uint8_t *)(p), (n))
#define VERIF_ON_FREE(p) lg_on_free((uint8_t *)(p))
#define VERIF_ALLOC_MAY_FAIL 1
#include "verif_models.h"
#ifndef SURV
#define SURV 1                                   /* class of an inner-node survivor of a collapse */
#endif
#define SUB_ANS_CLASSES ((KIND >= 1 ? (1 << KIND) : 0) | (KIND >= 2 ? (1 << (KIND - 1)) : 0) | (1 << SURV))
#include "tree_common.h"
PTR_FOREACH(ADT_DEF_PTR)
TAG_PTR_ret TAG_PTR(TAG_PTR_a0 p, TAG_PTR_a1 t) { return adt_tag((const uint8_t *)p, t); }
uint32_t X_memcmp(uint8_t *a, uint8_t *b, uint64_t n) { __CPROVER_assert(n <= 8, "memcmp of at most one 8-byte key"); return (uint32_t)memcmp(a, b, n); }
typedef __typeof__(*(NODE_FIND_a0)0) NODE_T;
typedef __typeof__(*(SURV_FIND_a0)0) SURV_T;
uint64_t IN_K, IN_Q; unsigned IN_depth; unsigned IN_shape;      /* IN_shape: 0 absent, 1 inner child (opaque), 2 leaf child */
static uint8_t *G_db; static uint64_t *G_slot; static uint64_t G_old; static uint8_t *G_obj, *G_leaf, *G_surv; static uint64_t G_leafw, G_survw; static uint8_t G_survb;
static _Bool G_head_seen, G_in_scope; static unsigned G_L; static uint8_t G_b;
static uint64_t G_leaf_key, G_leaf_sz; static struct ans G_before_Q, G_before_K; static struct nview GV0; static struct stats S0, S1; static uint64_t G_surv_prefix0;
static void params_check_(void *rk, const char *unused) { __CPROVER_assert(*(uint64_t *)rk == IN_K, "loop invariant: remove_key is the argument and is never modified (base and step)"); }
static void params_set_(void *rk) { *(uint64_t *)rk = IN_K; }
static void base_(void *node_pp, void *depth_p, void *rk_p) {
  __CPROVER_assert(*(uint8_t **)node_pp == G_db + NLAY(POL, DB, ROOT) && *(uint32_t *)depth_p == 0 && *(uint64_t *)rk_p == IN_K, "loop invariant holds on entry (base): node = &root, depth 0, remaining key = K");
  __CPROVER_assert((*(uint64_t *)(G_db + NLAY(POL, DB, ROOT)) & 7) != T_LEAF, "loop invariant holds on entry (base): the node under the loop is an inner node");
}
#if KIND >= 1
static void set_slot(unsigned off, uint64_t w) { *(uint64_t *)(G_obj + off) = w; }
static void head_(void *node_pp, void *depth_p, void *rk_p) {
  G_head_seen = 1;
  IN_depth = nondet_uint(); __CPROVER_assume(IN_depth < 8);
  *(uint32_t *)depth_p = IN_depth; *(uint64_t *)rk_p = IN_K >> (8 * IN_depth);
  G_slot = malloc(8); __CPROVER_assume(G_slot != 0); *(uint64_t **)node_pp = G_slot;
  G_in_scope = ((IN_Q ^ IN_K) & lowmask(IN_depth)) == 0;
  { NODE_T *t = malloc(sizeof(NODE_T)); __CPROVER_assume(t != 0); G_obj = (uint8_t *)t; }
  nv_load(&GV0, G_obj, KIND);
  __CPROVER_assume(nv_wf_global(&GV0) && IN_depth + NV_PREFIX_LEN(&GV0) < 8);
  G_L = NV_PREFIX_LEN(&GV0); G_b = kbyte(IN_K, IN_depth + G_L);
  __CPROVER_assume(nv_wf_at(&GV0, G_b) && nv_wf_at(&GV0, kbyte(IN_Q, IN_depth + G_L)));
  G_old = adt_tag(G_obj, KIND); *G_slot = G_old;
  /* shape of the child for K's key byte (only meaningful when the prefix matches) */
  IN_shape = nondet_uint(); __CPROVER_assume(IN_shape <= 2);
  uint64_t ch = nv_child(&GV0, G_b);
  if (IN_shape == 0) __CPROVER_assume(ch == 0);
  else if (IN_shape == 1) __CPROVER_assume(ch != 0 && (ch & 7) != T_LEAF && (ch >> 3) >= ADT_MAX && (ch & 7) <= 4);
  else {
    __CPROVER_assume(ch != 0);                                           /* a child exists; make it a materialised leaf on K's path */
    G_leaf = mk_leaf_obj(3);
    __CPROVER_assume(((LEAF_KEY(G_leaf) ^ IN_K) & lowmask(IN_depth + G_L + 1)) == 0 || !prefix_matches(GV0.prefix, IN_depth, IN_K));   /* path consistency */
    G_leafw = adt_tag(G_leaf, T_LEAF);
    /* store the leaf word into the slot that holds the child for key byte b (found through the view: constant-offset scan) */
    for (unsigned j = 0; j < n_capacity(KIND); j++) {
      _Bool here = (KIND <= 2) ? (j < GV0.count && GV0.keys[j] == G_b) : (KIND == 3 ? (GV0.keys[G_b] == j) : (j == G_b));
      if (here) set_slot(n_off_children(KIND) + 8 * j, G_leafw);
    }
    nv_load(&GV0, G_obj, KIND);
#if KIND == 1
    if (GV0.count == 2) {                                                /* collapse candidate: materialise the survivor */
      unsigned si = (GV0.keys[0] == G_b) ? 1 : 0; G_survb = GV0.keys[si];
      if (nondet_bool()) {                                               /* survivor is a leaf */
        G_surv = mk_leaf_obj(3);
        __CPROVER_assume(((LEAF_KEY(G_surv) ^ IN_K) & lowmask(IN_depth)) == 0 && prefix_matches(GV0.prefix, IN_depth, LEAF_KEY(G_surv)) && kbyte(LEAF_KEY(G_surv), IN_depth + G_L) == G_survb);   /* path consistency */
        G_survw = adt_tag(G_surv, T_LEAF);
      } else {                                                           /* survivor is an inner node of class SURV: only its prefix word is touched */
        { SURV_T *t = malloc(sizeof(SURV_T)); __CPROVER_assume(t != 0); G_surv = (uint8_t *)t; }
        struct nview sv; nv_load(&sv, G_surv, SURV);
        __CPROVER_assume(nv_wf_global(&sv) && IN_depth + G_L + 1 + NV_PREFIX_LEN(&sv) < 8);    /* the survivor's own path fits the key */
        __CPROVER_assume(nv_wf_at(&sv, kbyte(IN_Q, IN_depth + G_L + 1 + NV_PREFIX_LEN(&sv))));
        G_surv_prefix0 = sv.prefix; G_survw = adt_tag(G_surv, SURV);
      }
      set_slot(n_off_children(1) + 8 * si, G_survw);
      nv_load(&GV0, G_obj, KIND);
    }
#endif
  }
  { uint64_t qc = nv_child(&GV0, kbyte(IN_Q, IN_depth + G_L)), kc = nv_child(&GV0, G_b);     /* every child that is not materialised here is an opaque subtree */
    { uint8_t qb_ = kbyte(IN_Q, IN_depth + G_L); __CPROVER_assume(qc == 0 || (qc == G_leafw && qb_ == G_b && G_leaf) || (qc == G_survw && G_surv && qb_ == G_survb) || (qc >> 3) >= ADT_MAX); }   /* a tree, not a DAG: a materialised child hangs under exactly its own key byte */ __CPROVER_assume(kc == 0 || kc == G_leafw || (kc >> 3) >= ADT_MAX);
    if (G_surv && (G_survw & 7) != T_LEAF) { struct nview sv; nv_load(&sv, G_surv, SURV); uint64_t sc = nv_child(&sv, kbyte(IN_Q, IN_depth + G_L + 1 + NV_PREFIX_LEN(&sv))); __CPROVER_assume(sc == 0 || (sc >> 3) >= ADT_MAX); } }
  if (G_leaf) { G_leaf_key = LEAF_KEY(G_leaf); G_leaf_sz = LEAF_ALLOC_SIZE(LEAF_VLEN(G_leaf)); }
  G_before_Q = G_in_scope ? sub_ans(G_old, IN_depth, IN_Q, 2) : NONE;
  G_before_K = sub_ans(G_old, IN_depth, IN_K, 2);
  stats_load(&S0, G_db);
#ifdef VERIF_CFG_STATS
  __CPROVER_assume(S0.mem < (1ULL << 60) && S0.mem >= n_size(KIND) + LEAF_ALLOC_SIZE(3) && S0.cnt[KIND] >= 1 && S0.cnt[0] >= 1);     /* statistics invariant instances: the materialised nodes are accounted for */
  for (unsigned i = 0; i < 5; i++) __CPROVER_assume(S0.cnt[i] < (1ULL << 60));
  for (unsigned i = 0; i < 4; i++) __CPROVER_assume(S0.grow[i] < (1ULL << 60) && S0.grow[i] >= S0.cnt[i + 1] && S0.shrink[i] <= S0.grow[i] && S0.grow[i] - S0.shrink[i] >= S0.cnt[i + 1]);   /* counter invariants of the index: every inner node alive was grown into and not yet shrunk away */
  for (unsigned i = 0; i < 4; i++) __CPROVER_assume(S0.shrink[i] < (1ULL << 60));
#endif
}
static void back_(void *node_p, uint32_t depth, uint64_t rk) {
  uint64_t ch = prefix_matches(GV0.prefix, IN_depth, IN_K) ? nv_child(&GV0, G_b) : 0;
  __CPROVER_assert(ch != 0 && (ch & 7) != T_LEAF, "loop invariant preserved (step): the loop continues only into an inner child for K's next key byte");
  struct nview v1; nv_load(&v1, G_obj, KIND);
  __CPROVER_assert(*G_slot == G_old && v1.count == GV0.count && v1.prefix == GV0.prefix && nv_child(&v1, kbyte(IN_Q, IN_depth + G_L)) == nv_child(&GV0, kbyte(IN_Q, IN_depth + G_L)), "descent changes nothing at this level");
  __CPROVER_assert(*(uint64_t *)node_p == ch && __CPROVER_same_object(node_p, G_obj), "loop invariant preserved (step): node' is the slot inside this node that holds exactly that child");
  __CPROVER_assert(depth == IN_depth + G_L + 1 && rk == (depth >= 8 ? 0 : IN_K >> (8 * depth)), "loop invariant preserved (step): depth' = depth + prefix length + 1, remaining key shifted accordingly");
  __CPROVER_assert(lg_allocs == 0 && lg_frees == 0 && !verif_exc_pending, "descent allocates and releases nothing");
  VERIF_CANARY("descent reachable");
  __CPROVER_assume(0);
}
#else
static void head_(void *node_pp, void *depth_p, void *rk_p) { __CPROVER_assert(0, "the loop is not entered when the root is a leaf"); __CPROVER_assume(0); }
static void back_(void *node_p, uint32_t depth, uint64_t rk) { __CPROVER_assume(0); }
#endif
void harness(void) {
  REMOVE_INTERNAL_a0 dbt = malloc(sizeof(*dbt)); __CPROVER_assume(dbt != 0); G_db = (uint8_t *)dbt;
  IN_K = nondet_u64(); IN_Q = nondet_u64();
  static const int Z5[5] = {0, 0, 0, 0, 0}, Z4[4] = {0, 0, 0, 0};
#if KIND == 0
  /* ------------------------------------------------------------------ empty tree / single-leaf root */
  _Bool empty = nondet_bool(); uint8_t *rl = 0; uint64_t rw = 0;
  if (!empty) { rl = mk_leaf_obj(3); rw = adt_tag(rl, T_LEAF); }
  *(uint64_t *)(G_db + NLAY(POL, DB, ROOT)) = rw;
  stats_load(&S0, G_db);
#ifdef VERIF_CFG_STATS
  __CPROVER_assume(S0.mem < (1ULL << 60) && S0.mem >= LEAF_ALLOC_SIZE(3) && S0.cnt[0] >= 1 && S0.cnt[0] < (1ULL << 60));
#endif
  struct ans bq = empty ? NONE : leaf_ans(rl, IN_Q); _Bool present = !empty && LEAF_KEY(rl) == IN_K; uint64_t lsz = empty ? 0 : LEAF_ALLOC_SIZE(LEAF_VLEN(rl));
  _Bool r = REMOVE_INTERNAL(dbt, IN_K);
  stats_load(&S1, G_db);
  __CPROVER_assert(!verif_exc_pending && r == present, "C01: remove succeeds iff the key is present (empty tree / single leaf)");
  uint64_t nr = *(uint64_t *)(G_db + NLAY(POL, DB, ROOT));
  if (r) {
    __CPROVER_assert(nr == 0 && lg_frees == 1 && lg_freed(rl) && lg_allocs == 0, "C01/C10: removing the only entry leaves the tree empty and releases exactly that leaf");
    int d5[5] = {-1, 0, 0, 0, 0}; stats_check(&S0, &S1, -(int64_t)lsz, d5, Z4, Z4, 0);
    VERIF_CANARY("root leaf removal reachable");
  } else {
    __CPROVER_assert(nr == rw && lg_frees == 0 && lg_allocs == 0, "C01: a failed remove changes nothing");
    stats_check(&S0, &S1, 0, Z5, Z4, Z4, 0);
    if (!empty) __CPROVER_assert(ans_eq(leaf_ans(rl, IN_Q), bq), "C01: the other entry is untouched");
  }
  VERIF_CANARY("remove returns");
#else
  uint64_t root0 = nondet_u64(); __CPROVER_assume(root0 != 0 && (root0 & 7) != T_LEAF);    /* the loop is entered: root is an inner node */
  *(uint64_t *)(G_db + NLAY(POL, DB, ROOT)) = root0;
  _Bool r = REMOVE_INTERNAL(dbt, IN_K);
  stats_load(&S1, G_db);
  __CPROVER_assert(G_head_seen, "the descent loop is entered");
  _Bool pm = prefix_matches(GV0.prefix, IN_depth, IN_K);
  uint64_t lsz = G_leaf ? G_leaf_sz : 0;
  uint8_t qb = kbyte(IN_Q, IN_depth + G_L);
  /* ------------------------------------------------------------------ exceptional exit (C08) */
  if (verif_exc_pending) {
    __CPROVER_assert(verif_alloc_calls == 1 && lg_allocs == 0 && KIND >= 2, "C08: the only allocation of a remove is the smaller node of a shrink, made before anything is written");
    struct nview v1; nv_load(&v1, G_obj, KIND);
    __CPROVER_assert(*G_slot == G_old && v1.count == GV0.count && v1.prefix == GV0.prefix && nv_child(&v1, qb) == nv_child(&GV0, qb) && lg_frees == 0, "C08: failed remove leaves slot and node image unchanged and releases nothing");
    stats_check(&S0, &S1, 0, Z5, Z4, Z4, 0);
#if KIND >= 2
    VERIF_CANARY("exceptional exit reachable");
#endif
    return;
  }
  /* ------------------------------------------------------------------ result */
  __CPROVER_assert(r == G_before_K.has, "C01: remove succeeds iff the key is present (M(K) is an entry)");
  if (!r) {
    struct nview v1; nv_load(&v1, G_obj, KIND);
    __CPROVER_assert(*G_slot == G_old && v1.count == GV0.count && v1.prefix == GV0.prefix && nv_child(&v1, qb) == nv_child(&GV0, qb) && lg_allocs == 0 && lg_frees == 0, "C01: a failed remove changes nothing, allocates nothing, releases nothing");
    stats_check(&S0, &S1, 0, Z5, Z4, Z4, 0);
    VERIF_CANARY("absent key reachable");
    return;
  }
  __CPROVER_assert(pm && IN_shape == 2 && G_leaf_key == IN_K, "success means the leaf for K's key byte holds exactly K");
  /* ------------------------------------------------------------------ effect on the abstract map */
  if (G_in_scope) {
    struct ans after_Q = sub_ans(*G_slot, IN_depth, IN_Q, 2);
    if (IN_Q == IN_K) __CPROVER_assert(!after_Q.has, "C01: the removed key is absent afterwards");
    else __CPROVER_assert(ans_eq(after_Q, G_before_Q), "C01: every other key keeps exactly its entry (same presence, same value view)");
  }
  __CPROVER_assert(lg_freed(G_leaf), "C10: the removed leaf is released (exactly once: ledger)");
  /* ------------------------------------------------------------------ shape, accounting */
  uint64_t nw = *G_slot; int d5[5] = {-1, 0, 0, 0, 0}; int s4[4] = {0, 0, 0, 0};
  if (nv_count(&GV0) > n_minsize(KIND)) {
    struct nview v1; nv_load(&v1, G_obj, KIND);
    __CPROVER_assert(nw == G_old && nv_count(&v1) == nv_count(&GV0) - 1 && v1.prefix == GV0.prefix, "in-place removal: same node, one child fewer, same prefix");
    stats_check(&S0, &S1, -(int64_t)lsz, d5, Z4, Z4, 0);
    __CPROVER_assert(lg_allocs == 0 && lg_frees == 1, "C10: exactly the leaf is released");
    VERIF_CANARY("in-place removal reachable");
  }
#if KIND == 1
  else {
    __CPROVER_assert(nw == G_survw, "C10 collapse: the slot now holds the remaining child itself");
    if ((G_survw & 7) != T_LEAF) {
      struct nview sv; nv_load(&sv, G_surv, SURV);
      __CPROVER_assert(NV_PREFIX_LEN(&sv) == G_L + 1 + kp_len(G_surv_prefix0), "C10 collapse: the survivor's prefix is parent prefix + key byte + its old prefix");
      VERIF_CANARY("collapse into an inner node reachable");
    } else VERIF_CANARY("collapse into a leaf reachable");
    d5[1] = -1; s4[0] = 1; stats_check(&S0, &S1, -(int64_t)(lsz + n_size(1)), d5, Z4, s4, 0);
    __CPROVER_assert(lg_allocs == 0 && lg_frees == 2 && lg_freed(G_obj), "C10 collapse: the leaf and the dissolved N4 are released, exactly once each");
  }
#else
  else {
    __CPROVER_assert((nw & 7) == KIND - 1 && adt_known(nw) && nw != G_old, "C10 shrink: a node at min_size is replaced by a node of the next smaller class");
    struct nview n; nv_load(&n, adt_ptr(nw), KIND - 1);
    __CPROVER_assert(nv_count(&n) == n_minsize(KIND) - 1 && nv_count(&n) == n_capacity(KIND - 1) && n.prefix == GV0.prefix, "C10 shrink: min_size - 1 children = capacity of the smaller class, prefix copied");
    d5[KIND] = -1; d5[KIND - 1] = 1; s4[KIND - 1] = 1;
    stats_check(&S0, &S1, (int64_t)n_size(KIND - 1) - (int64_t)n_size(KIND) - (int64_t)lsz, d5, Z4, s4, 0);
    __CPROVER_assert(lg_allocs == 1 && lg_alloc_bytes == n_size(KIND - 1) && lg_frees == 2 && lg_freed(G_obj), "C10 shrink: the smaller node allocated; the leaf and the replaced node released exactly once each");
    VERIF_CANARY("shrink reachable");
  }
#endif
  VERIF_CANARY("remove returns");
#endif
}
