/* Shared by the tree-step harnesses (DESIGN.md 4.4): one-level unfolding of the radix tree around the node a step dereferences.
 *  - tagged node pointers are an abstract data type: word = handle << 3 | type, handle -> object table; the real tag_ptr / ptr<T>() are
 *    replaced by that contract (their own contract: type(tag(p,t)) = t, ptr(tag(p,t)) = p for 8-aligned p, is discharged by tree.nodeptr);
 *    ptr() of a word whose handle is not registered is an obligation failure: a step must never dereference an opaque child
 *  - the abstract meaning is pointwise in a ghost probe key Q: M(subtree, depth, Q) = the entry for Q below that subtree, or none.
 *    Opaque subtrees answer through ghostA(word): an unconstrained but functional ghost value (the induction hypothesis)
 *  - keys are uint64 in binary-comparable form: key byte i = (K >> 8i) & 0xFF, the remaining key at depth d is K >> 8d */
#include "spec_node.h"
#include "spec_prefix.h"
#ifndef SUB_ANS_CLASSES
#define SUB_ANS_CLASSES 30
#endif
#define VERIF_CANARY(name) __CPROVER_assert(0, "canary: " name)
struct ans { _Bool has; uint64_t p; uint64_t n; };           /* p: address of the value bytes (or a ghost id), n: value length */
static const struct ans NONE = {0, 0, 0};
static inline _Bool ans_eq(struct ans a, struct ans b) { return a.has == b.has && (!a.has || (a.p == b.p && a.n == b.n)); }
/* ---- node_ptr ADT */
#define ADT_MAX 8
static uint8_t *adt_tbl[ADT_MAX]; static unsigned adt_n = 1;  /* handle 0 is never issued: word 0 is the null pointer */
static uint8_t *adt_ptr(uint64_t word) { uint64_t h = word >> 3; __CPROVER_assert(h >= 1 && h < adt_n, "node_ptr::ptr() only of a node this step may touch (never of an opaque subtree)"); return adt_tbl[h < ADT_MAX ? h : 0]; }
static uint64_t adt_tag(const uint8_t *p, unsigned t) {
  for (unsigned i = 1; i < ADT_MAX; i++) if (i < adt_n && adt_tbl[i] == p) return ((uint64_t)i << 3) | t;
  __CPROVER_assert(adt_n < ADT_MAX, "handle table large enough"); adt_tbl[adt_n] = (uint8_t *)p; return ((uint64_t)(adt_n++) << 3) | t;
}
static inline _Bool adt_known(uint64_t word) { uint64_t h = word >> 3; return h >= 1 && h < adt_n; }
#define ADT_DEF_PTR(A) A##_ret A(A##_a0 self) { return (A##_ret)adt_ptr(*(uint64_t *)self); }
/* an opaque child word of any node type: a handle that will never be registered */
static uint64_t opaque_word(void) { uint64_t w = nondet_u64(); __CPROVER_assume((w >> 3) >= ADT_MAX && (w & 7) <= 4); return w; }
/* ---- ghost answers of opaque subtrees: functional in the word (memo) */
#define GA_MAX 6
static uint64_t gA_word[GA_MAX]; static struct ans gA_val[GA_MAX]; static unsigned gA_n;
static struct ans ghostA(uint64_t word) {
  for (unsigned i = 0; i < GA_MAX; i++) if (i < gA_n && gA_word[i] == word) return gA_val[i];
  struct ans a; a.has = nondet_bool(); a.p = nondet_u64(); a.n = nondet_u64();
  __CPROVER_assert(gA_n < GA_MAX, "ghost answer memo large enough");
  if (gA_n < GA_MAX) { gA_word[gA_n] = word; gA_val[gA_n] = a; gA_n++; }
  return a;
}
static inline uint64_t lowmask(unsigned nbytes) { return nbytes == 0 ? 0 : nbytes >= 8 ? ~0ULL : (~0ULL >> (64 - 8 * nbytes)); }
static inline uint8_t kbyte(uint64_t k, unsigned i) { return i < 8 ? (uint8_t)(k >> (8 * i)) : 0; }
/* ---- leaves of db<uint64_t>: header, 8 key bytes, value bytes */
#define LEAF_KEY(l) (*(uint64_t *)((l) + NLAY(POL, LEAF, DATA)))
#define LEAF_VLEN(l) (*(uint32_t *)((l) + NLAY(POL, LEAF, VALSIZE)))
#define LEAF_KLEN(l) (*(uint32_t *)((l) + NLAY(POL, LEAF, KEYSIZE)))
#define LEAF_VAL(l) ((l) + NLAY(POL, LEAF, DATA) + 8)
#define LEAF_ALLOC_SIZE(vlen) (NLAY(POL, LEAF, HDR) + 8 + (vlen) - 1)         /* basic_leaf::compute_size: sizeof + key + value - 1 */
static struct ans leaf_ans(const uint8_t *leaf, uint64_t q) { struct ans a; a.has = LEAF_KEY(leaf) == q; a.p = (uint64_t)(uintptr_t)LEAF_VAL(leaf); a.n = LEAF_VLEN(leaf); return a; }
static uint8_t *mk_leaf_obj(uint32_t vlen_max) {      /* an arbitrary existing leaf with a value of at most vlen_max bytes */
  uint32_t vl = nondet_u32(); __CPROVER_assume(vl <= vlen_max);
  uint8_t *l = malloc(LEAF_ALLOC_SIZE(vlen_max)); __CPROVER_assume(l != 0); LEAF_KLEN(l) = 8; LEAF_VLEN(l) = vl; return l;
}
/* ---- one-level unfolding of an inode view entered at depth d: the answer for q */
static _Bool prefix_matches(uint64_t prefix_word, unsigned d, uint64_t q) { unsigned L = kp_len(prefix_word); return (((q >> (8 * d)) ^ prefix_word) & lowmask(L)) == 0; }
/* the answer for q below the subtree designated by word w, entered at depth d: materialised leaves and inner nodes are unfolded on their
 * CURRENT image (so the same function gives M before and M after a step), everything else answers through the ghost memo */
static struct ans sub_ans(uint64_t w, unsigned d, uint64_t q, unsigned fuel) {
  if (w == 0) return NONE;
  if (!adt_known(w) || fuel == 0) return ghostA(w);
  uint8_t *o = adt_tbl[(w >> 3) < ADT_MAX ? (w >> 3) : 0]; unsigned t = (unsigned)(w & 7);
  if (t == T_LEAF) return leaf_ans(o, q);
  struct nview v;
  /* class-explicit loads keep every offset and loop bound constant; a harness limits the classes that can occur via SUB_ANS_CLASSES */
  switch (t) {
#if SUB_ANS_CLASSES & 2
    case 1: nv_load(&v, o, 1); break;
#endif
#if SUB_ANS_CLASSES & 4
    case 2: nv_load(&v, o, 2); break;
#endif
#if SUB_ANS_CLASSES & 8
    case 3: nv_load(&v, o, 3); break;
#endif
#if SUB_ANS_CLASSES & 16
    case 4: nv_load(&v, o, 4); break;
#endif
    default: __CPROVER_assert(0, "unfolding meets only node classes this step can produce"); return NONE;
  }
  unsigned L = NV_PREFIX_LEN(&v);
  if (d + L >= 8 || !prefix_matches(v.prefix, d, q)) return NONE;
  return sub_ans(nv_child(&v, kbyte(q, d + L)), d + L + 1, q, fuel - 1);
}
static struct ans node_ans(const struct nview *v, unsigned d, uint64_t q) {
  unsigned L = NV_PREFIX_LEN(v);
  if (d + L >= 8 || !prefix_matches(v->prefix, d, q)) return NONE;
  return sub_ans(nv_child(v, kbyte(q, d + L)), d + L + 1, q, 1);
}
/* ---- allocation ledger and statistics of db<uint64_t> (C10): ghost record of what this step allocated and released */
#define LEDGER_MAX 4
static uint8_t *lg_alloc_p[LEDGER_MAX]; static uint64_t lg_alloc_sz[LEDGER_MAX]; static unsigned lg_allocs; static uint64_t lg_alloc_bytes;
static uint8_t *lg_free_p[LEDGER_MAX]; static unsigned lg_frees;
static void lg_on_alloc(uint8_t *p, uint64_t n) { __CPROVER_assert(lg_allocs < LEDGER_MAX, "ledger large enough"); if (lg_allocs < LEDGER_MAX) { lg_alloc_p[lg_allocs] = p; lg_alloc_sz[lg_allocs] = n; } lg_allocs++; lg_alloc_bytes += n; }
static void lg_on_free(uint8_t *p) {
  for (unsigned i = 0; i < LEDGER_MAX; i++) __CPROVER_assert(!(i < lg_frees && lg_free_p[i] == p), "C10: no block is released twice");
  __CPROVER_assert(lg_frees < LEDGER_MAX, "ledger large enough"); if (lg_frees < LEDGER_MAX) lg_free_p[lg_frees] = p; lg_frees++;
}
static _Bool lg_freed(const uint8_t *p) { for (unsigned i = 0; i < LEDGER_MAX; i++) if (i < lg_frees && lg_free_p[i] == p) return 1; return 0; }
static _Bool lg_allocated(const uint8_t *p) { for (unsigned i = 0; i < LEDGER_MAX; i++) if (i < lg_allocs && lg_alloc_p[i] == p) return 1; return 0; }
struct stats { uint64_t mem, cnt[5], grow[4], shrink[4], splits; };
#ifdef VERIF_CFG_STATS
static void stats_load(struct stats *s, const uint8_t *db) {
  s->mem = *(const uint64_t *)(db + NLAY(POL, DB, MEM)); s->splits = *(const uint64_t *)(db + NLAY(POL, DB, SPLITS));
  for (unsigned i = 0; i < 5; i++) s->cnt[i] = *(const uint64_t *)(db + NLAY(POL, DB, NODECOUNTS) + 8 * i);
  for (unsigned i = 0; i < 4; i++) { s->grow[i] = *(const uint64_t *)(db + NLAY(POL, DB, GROWING) + 8 * i); s->shrink[i] = *(const uint64_t *)(db + NLAY(POL, DB, SHRINKING) + 8 * i); }
}
#else
static void stats_load(struct stats *s, const uint8_t *db) { struct stats z = {0}; *s = z; }
#endif
/* expected statistics delta of a step, compared field by field (all fields: a counter moving that should not is a failure) */
static void stats_check(const struct stats *a, const struct stats *b, int64_t dmem, const int dcnt[5], const int dgrow[4], const int dshrink[4], int dsplits) {
#ifdef VERIF_CFG_STATS
  __CPROVER_assert(b->mem == a->mem + (uint64_t)dmem, "C10: current_memory_use moves by exactly the bytes of the nodes created minus the nodes released");
  for (unsigned i = 0; i < 5; i++) __CPROVER_assert(b->cnt[i] == a->cnt[i] + (uint64_t)(int64_t)dcnt[i], "C10: node count per class moves by exactly the structural change of the step");
  for (unsigned i = 0; i < 4; i++) __CPROVER_assert(b->grow[i] == a->grow[i] + (uint64_t)(int64_t)dgrow[i] && b->shrink[i] == a->shrink[i] + (uint64_t)(int64_t)dshrink[i], "C10: growing/shrinking counters move only on the class change of this step");
  __CPROVER_assert(b->splits == a->splits + (uint64_t)(int64_t)dsplits, "C10: key_prefix_splits moves only on a prefix split");
#endif
}
