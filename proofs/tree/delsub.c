/* C10 (release side): "zero for an empty or cleared index ... all of it is returned when the index is destroyed, every block exactly once".
 * Recursive contract D of art_policy::delete_subtree(node, db):
 *     every node of the (finite, acyclic) subtree below `node` is released exactly once, nothing else; statistics move by exactly those nodes.
 * D is proved by induction over the tree height; the machine-checked parts are one job per function with the recursive calls REPLACED by D:
 *   PART=1 (per class CLS)  basic_inode_N::delete_subtree(db): calls D on EVERY child exactly once and on nothing else
 *            witness form: for the arbitrary present child slot J, the number of calls on that child == 1; total number of calls == number
 *            of children (N256: 256 when the count byte is 0 on a full node)
 *   PART=2  art_policy::delete_subtree(node, db): a leaf is released (once, statistics: one leaf less, its bytes); an inner node of class t has
 *            its class routine called once (stub: contract of PART=1) and is then released itself (once; statistics: one node of class t less)
 *   PART=3  db::clear(): D on the root iff the tree is not empty, then root == null and every statistics field the property names is zero */
#include "verif_rt.h"
#include "x_types.h"
#include "x_body.h"
static void lg_on_alloc(uint8_t *p, uint64_t n); static void lg_on_free(uint8_t *p);
#define VERIF_ON_ALLOC(p, n) lg_on_alloc((uint8_t *)(p), (n))
#define VERIF_ON_FREE(p) lg_on_free((uint8_t *)(p))
#include "verif_models.h"
#define SUB_ANS_CLASSES 2
#include "tree_common.h"
#ifdef PTR_FOREACH
PTR_FOREACH(ADT_DEF_PTR)
#endif
#ifdef HAVE_TAG_PTR
TAG_PTR_ret TAG_PTR(TAG_PTR_a0 p, TAG_PTR_a1 t) { return adt_tag((const uint8_t *)p, t); }
#endif
static uint8_t *G_db, *G_obj; static struct nview GV0; static struct stats S0, S1;
static unsigned G_calls, G_calls_c; static uint64_t G_c; unsigned IN_J;
static const int Z5[5] = {0, 0, 0, 0, 0}, Z4[4] = {0, 0, 0, 0};
static void stats_assumptions(struct stats *s) {
#ifdef VERIF_CFG_STATS
  __CPROVER_assume(s->mem < (1ULL << 60) && s->mem >= n_size(4) + LEAF_ALLOC_SIZE(3));
  for (unsigned i = 0; i < 5; i++) __CPROVER_assume(s->cnt[i] >= 1 && s->cnt[i] < (1ULL << 60));
#endif
}
#if PART == 1
/* ------------------------------------------------------------------ the class routine: every child, exactly once */
void DELSUB(DELSUB_a0 node, DELSUB_a1 db) {
  uint64_t w = *(uint64_t *)&node;
  __CPROVER_assert(w != 0, "contract D requires: an existing node");
  __CPROVER_assert((void *)db == (void *)G_db, "contract D requires: this index");
  G_calls++; if (w == G_c) G_calls_c++;
}
typedef __typeof__(*(N_DELSUB_a0)0) NODE_T;
void harness(void) {
  N_DELSUB_a1 dbt = malloc(sizeof(*dbt)); __CPROVER_assume(dbt != 0); G_db = (uint8_t *)dbt;
  { NODE_T *t = malloc(sizeof(NODE_T)); __CPROVER_assume(t != 0); G_obj = (uint8_t *)t; }
  nv_load(&GV0, G_obj, CLS);
#if CLS <= 2
  __CPROVER_assume(nv_wf_small(&GV0));
#elif CLS == 3
  static uint8_t owner[48]; static _Bool used[48];
  for (int j = 0; j < 48; j++) { owner[j] = nondet_u8(); used[j] = nondet_bool(); }
  __CPROVER_assume(nv_wf_48_full(&GV0, owner, used));
#else
  __CPROVER_assume(nv_wf_256_full(&GV0));
#endif
  /* the witness child: an arbitrary occupied slot J; a tree, not a DAG: no other slot holds the same child */
  const unsigned nslots = CLS <= 2 ? GV0.count : n_capacity(CLS);
  IN_J = nondet_uint(); __CPROVER_assume(IN_J < nslots); G_c = GV0.slots[IN_J]; __CPROVER_assume(G_c != 0);
  for (unsigned j = 0; j < 256; j++) if (j < nslots && j != IN_J) __CPROVER_assume(GV0.slots[j] != G_c);
  N_DELSUB((N_DELSUB_a0)G_obj, dbt);
  __CPROVER_assert(G_calls_c == 1, "C10: delete_subtree of an inner node releases EVERY child subtree exactly once (arbitrary witness child)");
  __CPROVER_assert(G_calls == nv_count(&GV0), "C10: ... and makes exactly one call per child (nothing else is released through it)");
  struct nview v1; nv_load(&v1, G_obj, CLS);
  __CPROVER_assert(v1.count == GV0.count && v1.slots[IN_J] == G_c, "the node itself is left to its caller");
  VERIF_CANARY("class routine returns");
}
#elif PART == 2
/* ------------------------------------------------------------------ the dispatcher: children first (class routine by contract), then the node itself */
static unsigned G_ncalls[5];
#define DEF_NDS(A, k) void A(A##_a0 self, A##_a1 db) { __CPROVER_assert((uint8_t *)self == G_obj && (void *)db == (void *)G_db, "class routine called on this node"); __CPROVER_assert(lg_frees == 0, "children are released before the node itself is"); G_ncalls[k]++; }
DEF_NDS(N4_DELSUB, 1) DEF_NDS(N16_DELSUB, 2) DEF_NDS(N48_DELSUB, 3) DEF_NDS(N256_DELSUB, 4)
void harness(void) {
  DELSUB_a1 dbt = malloc(sizeof(*dbt)); __CPROVER_assume(dbt != 0); G_db = (uint8_t *)dbt;
  unsigned t = nondet_uint(); __CPROVER_assume(t <= 4);
  uint64_t lsz = 0;
  if (t == T_LEAF) { G_obj = mk_leaf_obj(3); lsz = LEAF_ALLOC_SIZE(LEAF_VLEN(G_obj)); }
  else { G_obj = malloc(n_size(t)); __CPROVER_assume(G_obj != 0); }
  uint64_t w = adt_tag(G_obj, t);
  stats_load(&S0, G_db); stats_assumptions(&S0);
  DELSUB(*(DELSUB_a0 *)&w, dbt);
  stats_load(&S1, G_db);
  __CPROVER_assert(lg_frees == 1 && lg_freed(G_obj) && lg_allocs == 0, "C10: the node itself is released exactly once, nothing else directly");
  for (unsigned k = 1; k <= 4; k++) __CPROVER_assert(G_ncalls[k] == (k == t ? 1u : 0u), "C10: exactly the routine of the node's own class runs, once (none for a leaf)");
  int d5[5] = {0, 0, 0, 0, 0}; d5[t] = -1;
  stats_check(&S0, &S1, -(int64_t)(t == T_LEAF ? lsz : n_size(t)), d5, Z4, Z4, 0);
  VERIF_CANARY("delete_subtree returns");
}
#else
/* ------------------------------------------------------------------ clear() */
static uint64_t G_root;
#ifdef HAVE_QSBR_INSTANCE
static uint8_t G_qsbr[4096];
QSBR_INSTANCE_ret QSBR_INSTANCE(void) { return (QSBR_INSTANCE_ret)G_qsbr; }
#endif
#ifdef HAVE_QS_SINGLE
_Bool QS_SINGLE(QS_SINGLE_a0 w) { return 1; }      /* documented precondition of clear(): no other thread is registered */
#endif
void DELSUB(DELSUB_a0 node, DELSUB_a1 db) {
  __CPROVER_assert(*(uint64_t *)&node == G_root && G_root != 0 && (void *)db == (void *)G_db, "contract D requires: the existing root of this index");
  G_calls++;
#ifdef VERIF_CFG_STATS
  *(uint64_t *)(G_db + NLAY(POL, DB, NODECOUNTS)) = 0;                 /* D ensures (by induction): every leaf of the subtree is released and counted down */
#endif
}
#if PART == 4
/* destructor and empty(): ~db / ~olc_db release the whole tree through D exactly once iff there is one (C10: "all of it is returned when the index is
 * destroyed"), and free nothing directly; empty() is true iff there is no root (C01). */
void harness(void) {
  DTOR_a0 dbt = malloc(sizeof(*dbt)); __CPROVER_assume(dbt != 0); G_db = (uint8_t *)dbt;
  G_root = nondet_u64(); *(uint64_t *)(G_db + NLAY(POL, DB, ROOT)) = G_root;
#ifdef VERIF_CFG_STATS
  if (G_root == 0) __CPROVER_assume(*(uint64_t *)(G_db + NLAY(POL, DB, NODECOUNTS)) == 0);      /* empty index: no leaves (statistics invariant, as for clear()) */
#endif
  __CPROVER_assert((_Bool)EMPTY((EMPTY_a0)dbt) == (G_root == 0), "C01: empty() is true iff the index has no root (no entries)");
  __CPROVER_assert(G_calls == 0 && *(uint64_t *)(G_db + NLAY(POL, DB, ROOT)) == G_root, "empty() changes nothing");
  DTOR(dbt);
  __CPROVER_assert(G_calls == (G_root != 0 ? 1u : 0u), "C10: the destructor releases the whole tree through D, once, iff there is one");
  __CPROVER_assert(lg_frees == 0 && lg_allocs == 0 && !verif_exc_pending, "the destructor itself releases nothing directly and does not throw");
  VERIF_CANARY("destructor returns");
}
#else
void harness(void) {
  CLEAR_a0 dbt = malloc(sizeof(*dbt)); __CPROVER_assume(dbt != 0); G_db = (uint8_t *)dbt;
  G_root = nondet_u64(); *(uint64_t *)(G_db + NLAY(POL, DB, ROOT)) = G_root;
#ifdef VERIF_CFG_STATS
  if (G_root == 0) __CPROVER_assume(*(uint64_t *)(G_db + NLAY(POL, DB, NODECOUNTS)) == 0);      /* empty index: no leaves (statistics invariant) */
#endif
  CLEAR(dbt);
  stats_load(&S1, G_db);
  __CPROVER_assert(G_calls == (G_root != 0 ? 1u : 0u), "C10: clear releases the whole tree through D, once, iff there is one");
  __CPROVER_assert(*(uint64_t *)(G_db + NLAY(POL, DB, ROOT)) == 0, "C01/C10: a cleared index is empty");
#ifdef VERIF_CFG_STATS
  __CPROVER_assert(S1.mem == 0, "C10: reported memory use of a cleared index is zero");
  for (unsigned i = 0; i < 5; i++) __CPROVER_assert(S1.cnt[i] == 0, "C10: reported node counts of a cleared index are zero");
#endif
  __CPROVER_assert(lg_frees == 0 && lg_allocs == 0, "clear itself releases nothing directly");
  VERIF_CANARY("clear returns");
}
#endif
#endif
