/* C01 / C08 glue: the REAL class dispatcher basic_inode_impl::add_or_choose_subtree / remove_or_choose_subtree (art_internal_impl.hpp 862-910) together
 * with the REAL forwarding wrappers inode_4/16/48/256::add_or_choose_subtree / remove_or_choose_subtree (art.hpp), i.e. everything that lies between
 * db::insert_internal / remove_internal (proved against the step contract) and impl_helpers::*_or_choose_subtree<inode_N> (the step contract itself,
 * proved per class in tree.db64.aocs.* / rocs.* / remove.k1-k2).  The four step functions are replaced by one recording contract that may throw.
 *   requires  type in {I4, I16, I48, I256} (the caller dispatches on the tag of a non-leaf node)
 *   ensures   EXACTLY ONE step function is called: the one of the node's own class, on this node, with the caller's key byte, key, value, db, depth
 *             and parent slot; its result is returned unchanged;
 *             if it throws (bad_alloc / length_error) the exception REACHES THE CALLER: pending at exit, no std::terminate on the way (C08). */
#include "x_types.h"
#include "x_body.h"
#include "verif_models.h"
#include "layout.h"
#define VERIF_CANARY(name) __CPROVER_assert(0, "canary: " name)
static unsigned G_calls; static int G_cls; static void *G_inode, *G_db, *G_nip; static uint8_t G_kb; static uint64_t G_k; static _Bool G_throw;
uint8_t IN_type, IN_kb; uint64_t IN_K; uint32_t IN_depth; _Bool IN_throw;
#ifdef POL_OLC
/* OLC policy: more forwarded arguments (read critical sections, parent slot, cached leaf); same contract.  Lock behaviour belongs to the step contract. */
static void *G_a[12]; static uint64_t G_ret; static uint8_t G_ret2;
#ifdef WHAT_ADD
#define DEF_STEP(A, CLS) A##_ret A(A##_a0 inode, A##_a1 kb, A##_a2 k, A##_a3 vp, A##_a4 vn, A##_a5 db, A##_a6 depth, A##_a7 ncs, A##_a8 nip, A##_a9 pcs, A##_a10 cached) { \
  G_calls++; G_cls = CLS; G_inode = (void *)inode; G_kb = kb; G_k = k; G_a[3] = (void *)vp; G_a[4] = (void *)(uintptr_t)vn; G_db = (void *)db; G_a[6] = (void *)(uintptr_t)depth; G_a[7] = (void *)ncs; G_nip = (void *)nip; G_a[9] = (void *)pcs; G_a[10] = (void *)cached; \
  A##_ret r; __CPROVER_assert(sizeof(r) == 16, "optional<in_critical_section<node_ptr>*> is 16 bytes"); *(uint64_t *)&r = 0; ((uint64_t *)&r)[1] = 0; \
  if (G_throw) { verif_exc_pending = 1; return r; } *(uint64_t *)&r = G_ret; *((uint8_t *)&r + 8) = G_ret2; return r; }
#else
#define DEF_STEP(A, CLS) A##_ret A(A##_a0 inode, A##_a1 kb, A##_a2 k, A##_a3 db, A##_a4 pcs, A##_a5 ncs, A##_a6 nip, A##_a7 cip, A##_a8 ccs, A##_a9 ctype, A##_a10 child) { \
  G_calls++; G_cls = CLS; G_inode = (void *)inode; G_kb = kb; G_k = k; G_db = (void *)db; G_a[4] = (void *)pcs; G_a[5] = (void *)ncs; G_nip = (void *)nip; G_a[7] = (void *)cip; G_a[8] = (void *)ccs; G_a[9] = (void *)ctype; G_a[10] = (void *)child; \
  if (G_throw) { verif_exc_pending = 1; return 0; } return (A##_ret)(G_ret & 0x1FF); }
#endif
DEF_STEP(STEP4, 1) DEF_STEP(STEP16, 2) DEF_STEP(STEP48, 3) DEF_STEP(STEP256, 4)
void harness(void) {
  uint8_t *node = malloc(LAY_OLC64_I256_SIZE); uint8_t *db = malloc(64); uint8_t *kb = malloc(1); uint64_t *key = malloc(8); uint8_t *o1 = malloc(32), *o2 = malloc(32), *o3 = malloc(32), *o4 = malloc(32), *o5 = malloc(32);
  uint64_t *p1 = malloc(8), *p2 = malloc(8), *p3 = malloc(8), *p4 = malloc(8);
  __CPROVER_assume(node && db && kb && key && o1 && o2 && o3 && o4 && o5 && p1 && p2 && p3 && p4);
  IN_type = nondet_u8(); IN_kb = nondet_u8(); IN_K = nondet_u64(); IN_throw = G_throw = nondet_bool(); G_ret = nondet_u64(); G_ret2 = nondet_bool();
  __CPROVER_assume(IN_type >= 1 && IN_type <= 4);
  *kb = IN_kb; *key = IN_K;
#ifdef WHAT_ADD
  uint64_t *span = malloc(16); uint32_t *depth = malloc(4); __CPROVER_assume(span && depth);
  IN_depth = nondet_u32(); *depth = IN_depth; span[0] = (uint64_t)(uintptr_t)o5; span[1] = nondet_u64(); const uint64_t vn = span[1]; *p1 = (uint64_t)(uintptr_t)o3;
  DISP_ret r = DISP((DISP_a0)node, IN_type, kb, (DISP_a3)key, (DISP_a4)span, (DISP_a5)db, (DISP_a6)depth, (DISP_a7)o1, (DISP_a8)p1, (DISP_a9)o2, (DISP_a10)o4);
  __CPROVER_assert(G_calls == 1, "C01 dispatch: exactly one step function runs");
  __CPROVER_assert(G_cls == IN_type, "C01 dispatch: it is the step function of the node's own size class");
  __CPROVER_assert(G_inode == (void *)node && G_kb == IN_kb && G_k == IN_K && G_db == (void *)db && G_nip == (void *)o3, "C01 dispatch: on this node, with the caller's key byte, key, index and parent slot");
  __CPROVER_assert(G_a[3] == (void *)o5 && G_a[4] == (void *)(uintptr_t)vn && G_a[6] == (void *)(uintptr_t)IN_depth && G_a[7] == (void *)o1 && G_a[9] == (void *)o2 && G_a[10] == (void *)o4, "C01 dispatch: ... the caller's value view, depth, node / parent read sections and cached leaf");
#else
  uint64_t *q3 = malloc(8), *q4 = malloc(8); __CPROVER_assume(q3 && q4);       /* the pointer arguments are forwarded by reference: cells holding them */
  *p1 = (uint64_t)(uintptr_t)o3; *p2 = (uint64_t)(uintptr_t)p3; *p4 = (uint64_t)(uintptr_t)o4; *q3 = (uint64_t)(uintptr_t)o5; *q4 = (uint64_t)(uintptr_t)(o5 + 8);
  DISP_ret r = DISP((DISP_a0)node, IN_type, kb, (DISP_a3)key, (DISP_a4)db, (DISP_a5)o1, (DISP_a6)o2, (DISP_a7)p1, (DISP_a8)p2, (DISP_a9)p4, (DISP_a10)q3, (DISP_a11)q4);
  __CPROVER_assert(G_calls == 1, "C01 dispatch: exactly one step function runs");
  __CPROVER_assert(G_cls == IN_type, "C01 dispatch: it is the step function of the node's own size class");
  __CPROVER_assert(G_inode == (void *)node && G_kb == IN_kb && G_k == IN_K && G_db == (void *)db && G_nip == (void *)o3, "C01 dispatch: on this node, with the caller's key byte, key, index and parent slot");
  __CPROVER_assert(G_a[4] == (void *)o1 && G_a[5] == (void *)o2 && G_a[7] == (void *)p3 && G_a[8] == (void *)o4 && G_a[9] == (void *)o5 && G_a[10] == (void *)(o5 + 8), "C01 dispatch: ... the caller's parent / node read sections and child out-parameters");
#endif
  if (IN_throw) { __CPROVER_assert(verif_exc_pending, "C08 dispatch: an exception thrown by the step function reaches the caller"); VERIF_CANARY("exceptional exit reachable"); return; }
  __CPROVER_assert(!verif_exc_pending, "C08 dispatch: no exception of its own");
#ifdef WHAT_ADD
  __CPROVER_assert(*(uint64_t *)&r == G_ret && ((*((uint8_t *)&r + 8)) & 1) == (G_ret2 & 1), "C01 dispatch: the step function's result is returned unchanged");
#else
  __CPROVER_assert(r == (DISP_ret)(G_ret & 0x1FF), "C01 dispatch: the step function's result is returned unchanged");
#endif
  VERIF_CANARY("normal exit reachable");
}
#else
#ifdef WHAT_ADD
static uint8_t *G_vp; static uint64_t G_vn; static uint32_t G_depth; static uint64_t G_ret;
#define DEF_STEP(A, CLS) A##_ret A(A##_a0 inode, A##_a1 kb, A##_a2 k, A##_a3 vp, A##_a4 vn, A##_a5 db, A##_a6 depth, A##_a7 nip) { \
  G_calls++; G_cls = CLS; G_inode = (void *)inode; G_kb = kb; G_k = k; G_vp = vp; G_vn = vn; G_db = (void *)db; G_depth = depth; G_nip = (void *)nip; \
  if (G_throw) { verif_exc_pending = 1; return (A##_ret)0; } return (A##_ret)(uintptr_t)G_ret; }
#else
static uint64_t G_ret; static uint8_t G_ret_engaged;
#define DEF_STEP(A, CLS) A##_ret A(A##_a0 inode, A##_a1 kb, A##_a2 k, A##_a3 db, A##_a4 nip) { \
  G_calls++; G_cls = CLS; G_inode = (void *)inode; G_kb = kb; G_k = k; G_db = (void *)db; G_nip = (void *)nip; A##_ret r; __CPROVER_assert(sizeof(r) == 16, "optional<node_ptr*> is 16 bytes"); \
  *(uint64_t *)&r = 0; ((uint64_t *)&r)[1] = 0; if (G_throw) { verif_exc_pending = 1; return r; } *(uint64_t *)&r = G_ret; *((uint8_t *)&r + 8) = G_ret_engaged; return r; }
#endif
DEF_STEP(STEP4, 1) DEF_STEP(STEP16, 2) DEF_STEP(STEP48, 3) DEF_STEP(STEP256, 4)
void harness(void) {
  uint8_t *node = malloc(LAY_DB64_I256_SIZE); uint8_t *db = malloc(LAY_DB64_DB_SIZE); uint8_t *kb = malloc(1); uint64_t *key = malloc(8); uint64_t *nipp = malloc(8); uint64_t *slot = malloc(8);
  __CPROVER_assume(node && db && kb && key && nipp && slot);
  IN_type = nondet_u8(); IN_kb = nondet_u8(); IN_K = nondet_u64(); IN_throw = G_throw = nondet_bool(); G_ret = nondet_u64();
  __CPROVER_assume(IN_type >= 1 && IN_type <= 4);                              /* node_type::I4 .. I256; LEAF = 0 is excluded by the caller's tag test */
  *kb = IN_kb; *key = IN_K; *nipp = (uint64_t)(uintptr_t)slot;
#ifdef WHAT_ADD
  uint64_t *span = malloc(16); uint32_t *depth = malloc(4); uint8_t *val = malloc(4); __CPROVER_assume(span && depth && val);
  IN_depth = nondet_u32(); *depth = IN_depth; span[0] = (uint64_t)(uintptr_t)val; span[1] = nondet_u64(); const uint64_t vn = span[1];
  DISP_ret r = DISP((DISP_a0)node, IN_type, kb, (DISP_a3)key, (DISP_a4)span, (DISP_a5)db, (DISP_a6)depth, (DISP_a7)nipp);
#else
  G_ret_engaged = nondet_bool();
  DISP_ret r = DISP((DISP_a0)node, IN_type, kb, (DISP_a3)key, (DISP_a4)db, (DISP_a5)nipp);
#endif
  __CPROVER_assert(G_calls == 1, "C01 dispatch: exactly one step function runs");
  __CPROVER_assert(G_cls == IN_type, "C01 dispatch: it is the step function of the node's own size class");
  __CPROVER_assert(G_inode == (void *)node && G_kb == IN_kb && G_k == IN_K && G_db == (void *)db && G_nip == (void *)slot, "C01 dispatch: on this node, with the caller's key byte, key, index and parent slot");
#ifdef WHAT_ADD
  __CPROVER_assert(G_vp == val && G_vn == vn && G_depth == IN_depth, "C01 dispatch: ... and the caller's value view and depth");
#endif
  if (IN_throw) { __CPROVER_assert(verif_exc_pending, "C08 dispatch: an exception thrown by the step function reaches the caller"); VERIF_CANARY("exceptional exit reachable"); return; }
  __CPROVER_assert(!verif_exc_pending, "C08 dispatch: no exception of its own");
#ifdef WHAT_ADD
  __CPROVER_assert((uint64_t)(uintptr_t)r == G_ret, "C01 dispatch: the step function's result is returned unchanged");
#else
  __CPROVER_assert(*(uint64_t *)&r == G_ret && ((*((uint8_t *)&r + 8)) & 1) == (G_ret_engaged & 1), "C01 dispatch: the step function's result is returned unchanged");
#endif
  VERIF_CANARY("normal exit reachable");
}
#endif
