/* C01 / C08 / C10: impl_helpers::remove_or_choose_subtree<inode_N> of the unsynchronised index (the step of db::remove_internal at an inner
 * node of class KIND whose key prefix matched), REAL code: find_child of the class, leaf::matches, in-place remove, creation + initialisation
 * of the next smaller class at min_size, leaf / inode deleters, statistics; allocator failing nondeterministically.  Structural contract (light
 * form of remove.c, which carries the abstract-map reading for the root leaf, N4 incl. collapse and N16):
 *   absent child / non-matching leaf => "not found" (disengaged), nothing changed
 *   inner child                      => the slot INSIDE the node that holds it, nothing changed                               (descend)
 *   matching leaf, above min_size    => removed in place: one child less, same prefix, K's byte leads nowhere, every other key byte (arbitrary
 *                                       witness Q) leads where it led before; the leaf released exactly once
 *   matching leaf, at min_size       => the parent slot holds a NEW node of the next smaller class with min_size - 1 children (its capacity),
 *                                       same prefix, K's byte absent, witness byte as before; old node and leaf released exactly once each
 *   statistics move by exactly this; exception (C08, only the smaller node can fail): node image, parent slot, statistics unchanged, nothing released */
#include "verif_rt.h"
#include "x_types.h"
#include "x_body.h"
static void lg_on_alloc(uint8_t *p, uint64_t n); static void lg_on_free(uint8_t *p);
#define VERIF_ON_ALLOC(p, n) lg_on_alloc((uint8_t *)(p), (n))
#define VERIF_ON_FREE(p) lg_on_free((uint8_t *)(p))
#define VERIF_ALLOC_MAY_FAIL 1
#include "verif_models.h"
#define SUB_ANS_CLASSES 2
#include "tree_common.h"
PTR_FOREACH(ADT_DEF_PTR)
#ifdef HAVE_TAG_PTR
TAG_PTR_ret TAG_PTR(TAG_PTR_a0 p, TAG_PTR_a1 t) { return adt_tag((const uint8_t *)p, t); }
#endif
uint32_t X_memcmp(uint8_t *a, uint8_t *b, uint64_t n) { __CPROVER_assert(n <= 8, "memcmp of at most one 8-byte key"); return (uint32_t)memcmp(a, b, n); }
typedef __typeof__(*(ROCS_a0)0) NODE_T;
uint64_t IN_K; unsigned IN_shape; uint8_t IN_Qb;
static uint8_t *G_obj, *G_db, *G_child; static struct nview GV0, GV1, GVN; static uint8_t G_b; static struct stats S0, S1;
#ifdef HAVE_P_SHRINK
/* The copy routine basic_inode_{16,48}::init(db, larger source node, child_to_delete) is replaced by ITS CONTRACT: the array part of the
 * constructor contract proved on the real routine with loop invariants in node.db64.ctor.i48_to_i16 / i256_to_i48 (the header part - prefix,
 * count - is written by the parent-class constructor, which stays real here):
 *   requires  source = this node, well-formed at min_size, the handle designates a leaf child
 *   ensures   view(new) = view(source) minus the deleted key byte (pointwise: at K's byte and at the witness byte), new node well-formed,
 *             the leaf and the source node are handed to their deleters exactly once each (the REAL deleters run: ledger and statistics) */
static _Bool G_at_min; static unsigned G_pshrink; static uint64_t G_qch;
void P_SHRINK(P_SHRINK_a0 self, P_SHRINK_a1 db, P_SHRINK_a2 src, P_SHRINK_a3 child_to_delete) {
  __CPROVER_assert((uint8_t *)src == G_obj && G_at_min && (void *)db == (void *)G_db, "C10: a shrink happens only at min_size, on this node");
  __CPROVER_assert(nv_hvalid(&GV0, child_to_delete) && nv_hkey(&GV0, child_to_delete) == G_b, "contract requires: the handle of the child under the key's byte");
  G_pshrink++;
  uint8_t *d = (uint8_t *)self;
  for (unsigned j = 0; j < (KIND == 3 ? 16u : 256u); j++) d[n_off_keys(KIND - 1) + j] = nondet_u8();
  for (unsigned j = 0; j < (KIND == 3 ? 16u : 48u); j++) *(uint64_t *)(d + n_off_children(KIND - 1) + 8u * j) = nondet_u64();
  struct nview nd; nv_load(&nd, d, KIND - 1);
  __CPROVER_assume(nv_child(&nd, G_b) == 0 && (IN_Qb == G_b || nv_child(&nd, IN_Qb) == G_qch));
#if KIND == 3
  __CPROVER_assume(nv_wf_small(&nd));
#else
  __CPROVER_assume(nv_wf_at(&nd, G_b) && nv_wf_at(&nd, IN_Qb));
#endif
  void *dd = (void *)db;
  LEAF_DELETER((LEAF_DELETER_a0)&dd, (LEAF_DELETER_a1)G_child);
  INODE_DELETER((INODE_DELETER_a0)&dd, (INODE_DELETER_a1)src);
}
#endif
static _Bool node_wf(const struct nview *v) {
#if KIND <= 2
  return nv_wf_small(v);
#elif KIND == 3
  static uint8_t owner[48]; static _Bool used[48];
  for (int j = 0; j < 48; j++) { owner[j] = nondet_u8(); used[j] = nondet_bool(); }
  return nv_wf_48_full(v, owner, used);
#else
  return nv_wf_256_full(v);
#endif
}
void harness(void) {
  ROCS_a3 dbt = malloc(sizeof(*dbt)); __CPROVER_assume(dbt != 0); G_db = (uint8_t *)dbt;
  static const int Z5[5] = {0, 0, 0, 0, 0}, Z4[4] = {0, 0, 0, 0};
  IN_K = nondet_u64(); G_b = nondet_u8(); IN_Qb = nondet_u8();
  IN_shape = nondet_uint(); __CPROVER_assume(IN_shape <= 2);                     /* 0 absent, 1 inner child, 2 leaf child */
  uint64_t childw = 0;
  if (IN_shape == 2) { G_child = mk_leaf_obj(3); childw = adt_tag(G_child, T_LEAF); }
  else if (IN_shape == 1) { childw = opaque_word(); __CPROVER_assume((childw & 7) != T_LEAF); }
  { NODE_T *t = malloc(sizeof(NODE_T)); __CPROVER_assume(t != 0); G_obj = (uint8_t *)t; }
  nv_load(&GV0, G_obj, KIND); __CPROVER_assume(node_wf(&GV0));
  __CPROVER_assume(nv_child(&GV0, G_b) == childw);
  const uint64_t qch = nv_child(&GV0, IN_Qb);
  __CPROVER_assume(IN_Qb == G_b || qch != childw || childw == 0);               /* a tree, not a DAG: the child hangs under exactly its own key byte */
  const _Bool at_min = nv_count(&GV0) == n_minsize(KIND);
#ifdef HAVE_P_SHRINK
  G_at_min = at_min; G_qch = qch;
#endif
  stats_load(&S0, G_db);
#ifdef VERIF_CFG_STATS
  __CPROVER_assume(S0.mem < (1ULL << 60) && S0.mem >= n_size(KIND) + LEAF_ALLOC_SIZE(3) && S0.cnt[KIND] >= 1 && S0.cnt[0] >= 1);
  for (unsigned i = 0; i < 5; i++) __CPROVER_assume(S0.cnt[i] < (1ULL << 60));
  for (unsigned i = 0; i < 4; i++) __CPROVER_assume(S0.grow[i] < (1ULL << 60) && S0.shrink[i] <= S0.grow[i] && S0.grow[i] - S0.shrink[i] >= S0.cnt[i + 1]);
#endif
  uint64_t *slot_in_parent = malloc(8); __CPROVER_assume(slot_in_parent != 0); const uint64_t self_w = adt_tag(G_obj, KIND); *slot_in_parent = self_w;
  const uint64_t lsz = IN_shape == 2 ? LEAF_ALLOC_SIZE(LEAF_VLEN(G_child)) : 0; const _Bool matches = IN_shape == 2 && LEAF_KEY(G_child) == IN_K;
  ROCS_ret r = ROCS((ROCS_a0)G_obj, G_b, IN_K, dbt, (ROCS_a4)slot_in_parent);
  const _Bool engaged = (*((uint8_t *)&r + 8)) & 1; uint64_t *rp = *(uint64_t **)&r;
  stats_load(&S1, G_db);
  if (verif_exc_pending || !(matches)) {
    nv_load(&GV1, G_obj, KIND);
    __CPROVER_assert(*slot_in_parent == self_w && GV1.count == GV0.count && GV1.prefix == GV0.prefix && nv_child(&GV1, G_b) == childw && nv_child(&GV1, IN_Qb) == qch, "not found / descend / failed: the parent slot and the node image are unchanged (count, prefix, K's byte, arbitrary witness byte)");
    __CPROVER_assert(lg_frees == 0 && lg_allocs == 0, "... nothing is released, nothing stays allocated");
    stats_check(&S0, &S1, 0, Z5, Z4, Z4, 0);
    if (verif_exc_pending) { __CPROVER_assert(KIND >= 2 && at_min && matches, "C08: only the smaller node of a shrink can fail to allocate");
      VERIF_CANARY("exceptional exit reachable");
      return; }
    if (IN_shape == 1) { __CPROVER_assert(engaged && rp != 0 && __CPROVER_same_object(rp, G_obj) && *rp == childw, "C01 descend: the slot inside this node that holds the inner child for the key byte"); VERIF_CANARY("descend reachable"); }
    else { __CPROVER_assert(!engaged, "C01: an absent child or a leaf with another key means 'not found'"); VERIF_CANARY("not-found reachable"); }
    return;
  }
  __CPROVER_assert(engaged && rp == 0, "C01 remove: the matching leaf is removed here, no further descent");
  int d5[5] = {-1, 0, 0, 0, 0}, s4[4] = {0, 0, 0, 0};
  if (!at_min) {
    nv_load(&GV1, G_obj, KIND);
    __CPROVER_assert(*slot_in_parent == self_w && lg_allocs == 0 && lg_frees == 1 && lg_freed(G_child), "C10: above min_size the child is removed in place; exactly the leaf is released");
    __CPROVER_assert(nv_count(&GV1) + 1 == nv_count(&GV0) && GV1.prefix == GV0.prefix && nv_child(&GV1, G_b) == 0, "C01/C10: one child less, same prefix, the key byte leads nowhere");
    if (IN_Qb != G_b) __CPROVER_assert(nv_child(&GV1, IN_Qb) == qch, "C01: every other key byte leads where it led before (arbitrary witness byte)");
#if KIND <= 2
    __CPROVER_assert(nv_wf_small(&GV1), "C10: the node stays well-formed");
#endif
    stats_check(&S0, &S1, -(int64_t)lsz, d5, Z4, Z4, 0);
    VERIF_CANARY("in-place removal reachable");
  } else {
#if KIND >= 2
    uint8_t *smaller = lg_alloc_p[0];
    __CPROVER_assert(lg_allocs == 1 && lg_alloc_sz[0] == n_size(KIND - 1) && *slot_in_parent == adt_tag(smaller, KIND - 1), "C10: at min_size the node is replaced by a new node of the next smaller class");
    __CPROVER_assert(lg_frees == 2 && lg_freed(G_obj) && lg_freed(G_child), "C10: the replaced node and the leaf are released exactly once each, nothing else");
#ifdef HAVE_P_SHRINK
    __CPROVER_assert(G_pshrink == 1, "the copy routine runs exactly once");
#endif
#ifndef NO_CONTENT
    nv_load(&GVN, smaller, KIND - 1);
    __CPROVER_assert(nv_count(&GVN) + 1 == nv_count(&GV0) && nv_count(&GVN) == n_capacity(KIND - 1) && GVN.prefix == GV0.prefix && nv_child(&GVN, G_b) == 0, "C01/C10: the new node has min_size - 1 children (its capacity), the same prefix, and no child for the key byte");
    if (IN_Qb != G_b) __CPROVER_assert(nv_child(&GVN, IN_Qb) == qch, "C01: every other key byte leads where it led before (arbitrary witness byte)");
#if KIND - 1 <= 2
    __CPROVER_assert(nv_wf_small(&GVN), "C10: the new node is well-formed");
#endif
#endif
    d5[KIND] = -1; d5[KIND - 1] = 1; s4[KIND - 1] = 1;
    stats_check(&S0, &S1, (int64_t)n_size(KIND - 1) - (int64_t)n_size(KIND) - (int64_t)lsz, d5, Z4, s4, 0);
    VERIF_CANARY("shrink reachable");
#endif
  }
  VERIF_CANARY("remove_or_choose_subtree returns");
}
