# C01 / C08 / C10: tree-level step proofs for db<uint64_t>
SPAN = r'std::span<std::byte const, \d+ul>'
D64 = r'^unodb::db<unsigned long, %s >::' % SPAN
ADT = {'PTR*': r'^auto\* unodb::detail::basic_node_ptr<unodb::detail::node_header>::ptr<', 'TAG_PTR': r'^unodb::detail::basic_node_ptr<unodb::detail::node_header>::tag_ptr\('}
def node_rx(n, key='unsigned long', db='db'):
    return r'^unodb::detail::basic_inode_%d<unodb::detail::basic_art_policy<%s, %s, unodb::%s, .*>::' % (n, key, SPAN, db)
CLSN = {1: 4, 2: 16, 3: 48, 4: 256}
CFG_TREE = (BASE, DEBUG, 'sse41-stats-ndebug-pause')
SPEC_LOOPS = {'nv_load.0': 260, 'nv_load.1': 260, 'nv_child.0': 18, 'nv_wf_small.0': 18, 'nv_wf_48_full.0': 50, 'nv_wf_48_full.1': 260, 'head_.0': 260, 'head_.1': 260, 'adt_tag.0': 10, 'ghostA.0': 8,
              'stats_check.0': 7, 'stats_check.1': 6, 'stats_load.0': 7, 'stats_load.1': 6, 'lg_on_free.0': 6, 'lg_allocated.0': 6, 'lg_freed.0': 6, 'verif_memcpy_w.0': 10, 'harness.0': 6, 'harness.1': 6, 'memcmp.0': 10}
UNW = {0: 8, 1: 7, 2: 19, 3: 258, 4: 258}      # real-code loops: bounded by the node capacity handled per class; the 256-step spec loops get their own bound
for kind in range(5):
    n = CLSN.get(kind, 4)
    job('tree.db64.get.k%d' % kind, ['C01', 'C16'], 'u_db', 'proofs/tree/get.c', defines=['KIND=%d' % kind, 'POL=DB64'],
        roots={'GET_INTERNAL': D64 + r'get_internal\(', 'NODE_FIND': node_rx(n) + r'find_child\(std::byte\)'}, stubs=ADT, cut=['GET_INTERNAL/while_2econd'],
        cfgs=CFG_TREE, thorough_cfgs=ALL_CFGS, unwind=UNW[kind], unwindset_raw=SPEC_LOOPS, floor=50, timeout=900,
        under_contract=['db<uint64_t>::get_internal (descent step, node kind %d)' % kind],
        trusted=['definitional unfolding of the abstract map M over a finite acyclic tree (existence of the ghost answers of opaque subtrees)', 'node_ptr as an abstract data type (contract of tag_ptr/ptr/type discharged separately)'])

for kind in range(5):
    n = CLSN.get(kind, 4)
    roots = {'INSERT_INTERNAL': D64 + r'insert_internal\(', 'NODE_FIND': node_rx(n) + r'find_child\(std::byte\)'}
    if kind == 3: roots['N48_ADD'] = node_rx(48) + r'add_to_nonfull\('
    job('tree.db64.insert.k%d' % kind, ['C01', 'C08', 'C10', 'C16'] if kind == 0 else [], 'u_db', 'proofs/tree/insert.c', tier=('quick' if kind == 0 else 'off'), defines=['KIND=%d' % kind, 'POL=DB64'], roots=roots, stubs=ADT,
        cut=['INSERT_INTERNAL/while_2ebody'], cfgs=CFG_TREE, thorough_cfgs=ALL_CFGS, unwind=UNW[kind], unwindset_raw=SPEC_LOOPS, unwindset=({'N48_ADD': 8} if kind == 3 else None),
        floor=20, timeout=1800, mem_gb=20, objbits=14, memsafe=False,
        under_contract=['db<uint64_t>::insert_internal (step at node kind %d)' % kind, 'impl_helpers::add_or_choose_subtree', 'make_db_leaf_ptr', 'basic_leaf ctor', 'inode_4::create (two-leaf and prefix-split ctors)', 'growing ctor of the next class', 'db_inode_deleter', 'db statistics updates'],
        trusted=['definitional unfolding of the abstract map M', 'node_ptr as an abstract data type', 'memcpy of symbolic length: witness-only pointwise contract'])
job('tree.db64.make_leaf', ['C01', 'C08', 'C10'], 'u_db', 'proofs/tree/leafmk.c', defines=['POL=DB64'], roots={'MK_LEAF': r'^auto unodb::detail::make_db_leaf_ptr<unsigned long, .*unodb::db>\('},
    cfgs=CFG_TREE, unwind=10, floor=20, timeout=600, under_contract=['make_db_leaf_ptr<uint64_t, db>', 'basic_leaf<uint64_t>::basic_leaf', 'basic_leaf::compute_size', 'db::increment_leaf_count'],
    trusted=['memcpy of symbolic length: witness-only pointwise contract'])
for kind in range(5):
    n = CLSN.get(kind, 4)
    roots = {'REMOVE_INTERNAL': D64 + r'remove_internal\(', 'NODE_FIND': node_rx(n) + r'find_child\(std::byte\)', 'SURV_FIND': node_rx(4) + r'find_child\(std::byte\)'}
    job('tree.db64.remove.k%d' % kind, ['C01', 'C08', 'C10', 'C16'] if kind <= 2 else [], 'u_db', 'proofs/tree/remove.c', tier=('quick' if kind <= 2 else 'off'), defines=['KIND=%d' % kind, 'POL=DB64', 'SURV=1'], roots=roots, stubs=ADT,
        cut=['REMOVE_INTERNAL/while_2ebody'], cfgs=CFG_TREE, thorough_cfgs=ALL_CFGS, unwind=UNW[kind], unwindset_raw=SPEC_LOOPS, floor=20, timeout=1800, mem_gb=20, objbits=14, memsafe=False,
        under_contract=['db<uint64_t>::remove_internal (step at node kind %d)' % kind, 'impl_helpers::remove_or_choose_subtree', 'basic_inode::remove', 'shrinking ctor of the next smaller class', 'basic_inode_4::leave_last_child', 'key_prefix::prepend', 'db_leaf_deleter / db_inode_deleter', 'db statistics updates'],
        trusted=['definitional unfolding of the abstract map M', 'node_ptr as an abstract data type'])

# ---- C10 release side: delete_subtree (recursive contract D, one job per function with the recursive calls replaced by D) and clear()
for pol, dbn, unit, pfx in (('DB64', 'db', 'u_db', 'tree.db64'), ('OLC64', 'olc_db', 'u_olc', 'tree.olc64')):
    POLICY = r'^unodb::detail::basic_art_policy<unsigned long, %s, unodb::%s, .*>::delete_subtree\(' % (SPAN, dbn)
    hdr = 'node_header' if dbn == 'db' else 'olc_node_header'
    ADTP = {'PTR*': r'^auto\* unodb::detail::basic_node_ptr<unodb::detail::%s>::ptr<' % hdr, 'TAG_PTR?': r'^unodb::detail::basic_node_ptr<unodb::detail::%s>::tag_ptr\(' % hdr}
    cfgs = CFG_TREE if dbn == 'db' else (BASE, DEBUG)
    for cls, n in CLSN.items():
        job('%s.delsub.i%d' % (pfx, n), ['C10', 'C16'], unit, 'proofs/tree/delsub.c', defines=['PART=1', 'CLS=%d' % cls, 'POL=' + pol],
            roots={'N_DELSUB': node_rx(n, db=dbn) + r'delete_subtree\([^()]*\)$'}, stubs={'DELSUB': POLICY}, cfgs=cfgs, thorough_cfgs=ALL_CFGS,
            unwind={1: 7, 2: 19, 3: 50, 4: 258}[cls], unwindset_raw={'nv_load.0': 260, 'nv_load.1': 260, 'nv_wf_small.0': 18, 'nv_wf_48_full.0': 50, 'nv_wf_48_full.1': 260, 'nv_wf_256_full.0': 260, 'harness.0': 260, 'harness.1': 260},
            floor=3, timeout=900, memsafe=False,
            under_contract=['basic_inode_%d<%s>::delete_subtree (every child exactly once; recursive calls by contract D)' % (n, dbn)],
            trusted=['induction over the height of a finite acyclic tree (composition of the per-function contracts into D)'])
    job('%s.delsub.node' % pfx, ['C10', 'C16'], unit, 'proofs/tree/delsub.c', defines=['PART=2', 'POL=' + pol],
        roots={'DELSUB': POLICY}, stubs=dict(ADTP, **{'N%d_DELSUB' % n: node_rx(n, db=dbn) + r'delete_subtree\([^()]*\)$' for n in (4, 16, 48, 256)}), cfgs=cfgs, thorough_cfgs=ALL_CFGS,
        unwind=8, floor=5, timeout=600, memsafe=False, under_contract=['basic_art_policy<%s>::delete_subtree (children through the class routine, then the node itself, statistics)' % dbn],
        trusted=['induction over the height of a finite acyclic tree'])
    job('%s.clear' % pfx, ['C10', 'C01', 'C16'], unit, 'proofs/tree/delsub.c', defines=['PART=3', 'POL=' + pol],
        roots={'CLEAR': (D64 if dbn == 'db' else r'^unodb::olc_db<unsigned long, %s >::' % SPAN) + r'clear\(\)'}, stubs={'DELSUB': POLICY, 'QSBR_INSTANCE?': r'^unodb::qsbr::instance\(\)', 'QS_SINGLE?': r'^unodb::qsbr_state::single_thread_mode\('}, cfgs=cfgs, thorough_cfgs=ALL_CFGS,
        unwind=8, floor=3, timeout=600, memsafe=False, under_contract=['%s<uint64_t>::clear (whole tree through D, statistics zeroed)' % dbn],
        trusted=['contract D of delete_subtree (proved per function in the delsub jobs + induction)'])
    DBRX = (D64 if dbn == 'db' else r'^unodb::olc_db<unsigned long, %s >::' % SPAN)
    job('%s.dtor' % pfx, ['C10', 'C01', 'C16'], unit, 'proofs/tree/delsub.c', defines=['PART=4', 'POL=' + pol],
        roots={'DTOR': DBRX + r'~(olc_)?db\(\)', 'EMPTY': DBRX + r'empty\(\) const'}, stubs={'DELSUB': POLICY, 'QSBR_INSTANCE?': r'^unodb::qsbr::instance\(\)', 'QS_SINGLE?': r'^unodb::qsbr_state::single_thread_mode\('}, cfgs=cfgs, thorough_cfgs=ALL_CFGS,
        unwind=8, floor=3, timeout=600, memsafe=False, under_contract=['%s<uint64_t>::~%s (whole tree through D)' % (dbn, dbn), '%s<uint64_t>::delete_root_subtree' % dbn, '%s<uint64_t>::empty' % dbn],
        trusted=['contract D of delete_subtree (proved per function in the delsub jobs + induction)'])
# ---- insert at an inner node, prefix-split branch (all classes at once; the add / grow / descend branch is the parked step proof k1-k4)
job('tree.db64.insert.split', ['C01', 'C08', 'C10', 'C16'], 'u_db', 'proofs/tree/insert_split.c', defines=['POL=DB64'],
    roots={'INSERT_INTERNAL': D64 + r'insert_internal\('}, stubs=dict(ADT, **{'AOCS*': r'unodb::detail::impl_helpers::add_or_choose_subtree<unsigned long'}),
    cut=['INSERT_INTERNAL/while_2ebody'], cfgs=CFG_TREE, thorough_cfgs=ALL_CFGS, unwind=10, floor=20, timeout=900, objbits=14, memsafe=False,
    under_contract=['db<uint64_t>::insert_internal (prefix-split branch at an inner node)', 'key_prefix::get_shared_length', 'inode_4::create / basic_inode_4 prefix-split initialisation', 'key_prefix::cut', 'make_db_leaf_ptr'],
    trusted=['node_ptr as an abstract data type', 'the add / descend branch is cut off here (covered only by the registered node-level contracts)'])
# ---- insert at an inner node, add / grow / descend branch: impl_helpers::add_or_choose_subtree<inode_N> with a structural contract (light form of the parked k1-k4 step)
for kind in (1, 2, 3, 4):
    n = CLSN[kind]
    roots = {'AOCS': r'unodb::detail::impl_helpers::add_or_choose_subtree<unsigned long, [^(]*unodb::detail::inode_%d<unsigned long' % n}
    if kind == 3: roots['N48_ADD'] = node_rx(48) + r'add_to_nonfull\('
    if kind == 3: roots['INODE_DELETER'] = r'^unodb::detail::basic_db_inode_deleter<unodb::detail::inode_48<unsigned long, %s >, unodb::db<unsigned long, %s > >::operator\(\)' % (SPAN, SPAN)
    stubs = dict(ADT); stubs['TAG_PTR?'] = stubs.pop('TAG_PTR')
    if kind == 3: stubs['P_GROW'] = node_rx(256) + r'init\(unodb::db<.*>&, unodb::detail::inode_48<[^()]*>&, std::unique_ptr<'
    job('tree.db64.aocs.k%d' % kind, ['C01', 'C08', 'C10', 'C16'], 'u_db', 'proofs/tree/aocs_db.c', defines=['KIND=%d' % kind, 'POL=DB64'], roots=roots, stubs=stubs,
        cfgs=CFG_TREE, thorough_cfgs=ALL_CFGS, unwind={1: 19, 2: 50, 3: 258, 4: 258}[kind], unwindset=({'N48_ADD': 8} if kind == 3 else None),
        unwindset_raw={'nv_load.0': 260, 'nv_load.1': 260, 'nv_child.0': 18, 'nv_wf_small.0': 18, 'nv_wf_48_full.0': 50, 'nv_wf_48_full.1': 260, 'nv_wf_256_full.0': 260, 'node_wf.0': 50, 'adt_tag.0': 10,
                       'lg_freed.0': 6, 'lg_on_free.0': 6, 'stats_load.0': 7, 'stats_load.1': 6, 'stats_check.0': 7, 'stats_check.1': 6},
        floor=20, timeout=1800, mem_gb=(12 if kind == 1 else 20), objbits=14, memsafe=False,
        under_contract=['impl_helpers::add_or_choose_subtree<inode_%d> (db: descend / in-place add / growth, allocation failure)' % n, 'basic_inode_%d::add_to_nonfull' % n] + (['growing constructor of the next larger class'] if kind <= 2 else []),
        trusted=['node_ptr as an abstract data type', 'one-level unfolding of the abstract map (composition with get/insert loop invariants is the induction of DESIGN.md 4.4)'] + (['the copy routine basic_inode_256::init(db, inode_48&, leaf, depth) is replaced by its contract, proved on the real routine in node.db64.ctor.i48_to_i256'] if kind == 3 else []))
# ---- remove at an inner node of class N48 / N256: impl_helpers::remove_or_choose_subtree<inode_N> with a structural contract (light form of the parked remove.k3/k4 step)
for kind in (3, 4):
    n = CLSN[kind]
    stubs = dict(ADT); stubs['TAG_PTR?'] = stubs.pop('TAG_PTR'); stubs['P_SHRINK'] = node_rx(CLSN[kind - 1]) + r'init\(unodb::db<.*>&, unodb::detail::inode_%d<[^()]*>&, unsigned char\)' % n
    job('tree.db64.rocs.k%d' % kind, ['C01', 'C08', 'C10', 'C16'], 'u_db', 'proofs/tree/rocs_db.c', defines=['KIND=%d' % kind, 'POL=DB64'],
        roots={'ROCS': r'unodb::detail::impl_helpers::remove_or_choose_subtree<unsigned long, [^(]*unodb::detail::inode_%d<unsigned long' % n,
               'LEAF_DELETER': r'^unodb::detail::basic_db_leaf_deleter<unodb::db<unsigned long, .*::operator\(\)',
               'INODE_DELETER': r'^unodb::detail::basic_db_inode_deleter<unodb::detail::inode_%d<unsigned long, %s >, unodb::db<unsigned long, %s > >::operator\(\)' % (n, SPAN, SPAN)}, stubs=stubs,
        cfgs=CFG_TREE, thorough_cfgs=ALL_CFGS, unwind=258,
        unwindset_raw={'nv_load.0': 260, 'nv_load.1': 260, 'nv_child.0': 18, 'nv_wf_small.0': 18, 'nv_wf_48_full.0': 50, 'nv_wf_48_full.1': 260, 'nv_wf_256_full.0': 260, 'node_wf.0': 50, 'adt_tag.0': 10,
                       'lg_freed.0': 6, 'lg_on_free.0': 6, 'stats_load.0': 7, 'stats_load.1': 6, 'stats_check.0': 7, 'stats_check.1': 6, 'memcmp.0': 10},
        floor=20, timeout=1800, mem_gb=20, objbits=14, memsafe=False,
        under_contract=['impl_helpers::remove_or_choose_subtree<inode_%d> (db: not found / descend / in-place removal / shrink, allocation failure)' % n, 'basic_inode_%d::remove' % n],
        trusted=['node_ptr as an abstract data type', 'one-level unfolding of the abstract map', 'the copy routine basic_inode_%d::init(db, inode_%d&, uint8_t) is replaced by its contract, proved on the real routine in node.db64.ctor.i%d_to_i%d' % (CLSN[kind - 1], n, n, CLSN[kind - 1])])
# ---- the glue between insert_internal / remove_internal and the per-class step functions: the class dispatcher basic_inode_impl::{add,remove}_or_choose_subtree
#      and the forwarding wrappers inode_N::{add,remove}_or_choose_subtree (art.hpp 700-800), callee = the step contract (recording stub, may throw)
BI = r'unodb::detail::basic_inode_impl<unodb::detail::basic_art_policy<unsigned long, [^(]*unodb::db, [^(]*>::'
IH = r'unodb::detail::impl_helpers::%s_or_choose_subtree<unsigned long, [^(]*unodb::detail::inode_%d<unsigned long'
for what in ('add', 'remove'):
    job('tree.db64.dispatch.' + what, ['C01', 'C08', 'C16'], 'u_db', 'proofs/tree/dispatch.c', defines=['POL=DB64', 'WHAT_' + what.upper()],
        roots={'DISP': BI + what + r'_or_choose_subtree<'}, stubs={'STEP4': IH % (what, 4), 'STEP16': IH % (what, 16), 'STEP48': IH % (what, 48), 'STEP256': IH % (what, 256)},
        cfgs=CFG_TREE, thorough_cfgs=ALL_CFGS, unwind=4, floor=5, timeout=300,
        under_contract=['basic_inode_impl::%s_or_choose_subtree (class dispatch)' % what] + ['inode_%d::%s_or_choose_subtree (forwarding wrapper)' % (n, what) for n in (4, 16, 48, 256)])
OBI = r'unodb::detail::basic_inode_impl<unodb::detail::basic_art_policy<unsigned long, [^(]*unodb::olc_db, [^(]*>::'
OIH = r'unodb::detail::olc_impl_helpers::%s_or_choose_subtree<[^(]*olc_inode_%d<'
for what in ('add', 'remove'):
    job('tree.olc64.dispatch.' + what, ['C01', 'C08', 'C16'], 'u_olc', 'proofs/tree/dispatch.c', defines=['POL=OLC64', 'POL_OLC', 'WHAT_' + what.upper()],
        roots={'DISP': OBI + what + r'_or_choose_subtree<'}, stubs={'STEP4': OIH % (what, 4), 'STEP16': OIH % (what, 16), 'STEP48': OIH % (what, 48), 'STEP256': OIH % (what, 256)},
        cfgs=(BASE, DEBUG), thorough_cfgs=ALL_CFGS, unwind=4, floor=5, timeout=300,
        under_contract=['olc basic_inode_impl::%s_or_choose_subtree (class dispatch)' % what] + ['olc_inode_%d::%s_or_choose_subtree (forwarding wrapper)' % (n, what) for n in (4, 16, 48, 256)])
