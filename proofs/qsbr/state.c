/* C16 (and the function-local part of C05/C06): the REAL unodb::qsbr_epoch / unodb::qsbr_state word functions (qsbr.hpp 84-449, qsbr.cpp 99),
 * extracted, loop-free, over ALL 2^64 state words that satisfy the stated precondition.
 * Abstract view of a word w:  prev(w) = bits 0..29, cnt(w) = bits 32..61, ep(w) = bits 62..63;  I(w): prev(w) <= cnt(w).
 * Contracts (postconditions = the field-wise meaning the QSBR protocol relies on; preconditions = what each caller in qsbr.cpp establishes):
 *   get_*                                    requires I(w)                             ensures result == field
 *   single_thread_mode                       requires I(w)                             ensures result == (cnt < 2)
 *   make_from_epoch(e)                       requires e <= 3                           ensures ep = e, cnt = prev = 0, unused bits 0
 *   inc_thread_count                         requires I(w), cnt < MAX                  ensures cnt+1, prev and ep unchanged, I
 *   dec_thread_count                         requires I(w), cnt > 0, prev < cnt        ensures cnt-1, prev and ep unchanged, I
 *   inc_thread_count_and_threads_in_prev..   requires I(w), cnt < MAX                  ensures cnt+1, prev+1, ep unchanged, I
 *   dec_thread_count_and_threads_in_prev..   requires I(w), cnt > 0, prev > 0          ensures cnt-1, prev-1, ep unchanged, I
 *   inc_epoch_reset_previous                 requires I(w), prev == 0                  ensures ep+1 mod 4, cnt unchanged, prev' = cnt, I
 *   inc_epoch_dec_thread_count_reset_prev..  requires I(w), cnt > 0, prev == 1         ensures ep+1 mod 4, cnt-1, prev' = cnt-1, I
 *   ..._maybe_advance(w, a)                  requires the chosen branch's pre          ensures the chosen branch's post
 *   atomic_fetch_dec_threads_in_previous_epoch(&w)  requires I(w), prev > 0            ensures returns old w, prev-1, cnt and ep unchanged, I
 *   qsbr_epoch{v}, advance(by), ==           requires v <= 3                           ensures (v+by) mod 4, value equality; result <= 3
 * In the assertion-enabled extraction every UNODB_DETAIL_ASSERT inside these functions (assert_invariants, the field cross-checks) is an
 * obligation under the same precondition: "no internal assertion fires for usage that respects the preconditions" (C16).  The same contract is
 * discharged on the NDEBUG extraction: identical results in both configurations. */
#include "x_types.h"
#include "x_body.h"
#include "verif_models.h"
#define VERIF_CANARY(name) __CPROVER_assert(0, "canary: " name)
#define MAXT 0x3FFFFFFFu
static uint32_t prev_(uint64_t w) { return (uint32_t)(w & MAXT); }
static uint32_t cnt_(uint64_t w) { return (uint32_t)((w >> 32) & MAXT); }
static uint8_t ep_(uint64_t w) { return (uint8_t)(w >> 62); }
static _Bool I_(uint64_t w) { return prev_(w) <= cnt_(w); }
static uint64_t unused_(uint64_t w) { return w & 0xC0000000ull; }
uint64_t IN_w; uint8_t IN_e, IN_f; uint32_t IN_by; _Bool IN_a;
#define POST(r, E, C, P, what) do { \
  __CPROVER_assert(ep_(r) == (uint8_t)(E), "C16/qsbr_state " what ": epoch field"); \
  __CPROVER_assert(cnt_(r) == (uint32_t)(C), "C16/qsbr_state " what ": thread count field"); \
  __CPROVER_assert(prev_(r) == (uint32_t)(P), "C16/qsbr_state " what ": threads-in-previous-epoch field"); \
  __CPROVER_assert(I_(r), "C16/qsbr_state " what ": invariant prev <= count preserved"); } while (0)

#ifdef H_GET
void harness(void) { uint64_t w = IN_w = nondet_u64(); __CPROVER_assume(I_(w));
  __CPROVER_assert((uint8_t)ST_GET_EPOCH(w) == ep_(w), "C16/qsbr_state get_epoch == bits 62..63");
  __CPROVER_assert((uint32_t)ST_GET_COUNT(w) == cnt_(w), "C16/qsbr_state get_thread_count == bits 32..61");
  __CPROVER_assert((uint32_t)ST_GET_PREV(w) == prev_(w), "C16/qsbr_state get_threads_in_previous_epoch == bits 0..29");
  __CPROVER_assert((_Bool)ST_SINGLE(w) == (cnt_(w) < 2), "C16/qsbr_state single_thread_mode <=> fewer than two registered threads");
  VERIF_CANARY("getters return"); }
#endif
#ifdef H_MAKE
void harness(void) { uint8_t e = IN_e = nondet_u8(); __CPROVER_assume(e <= 3);
  uint64_t r = ST_MAKE(e); POST(r, e, 0, 0, "make_from_epoch"); __CPROVER_assert(unused_(r) == 0, "C16/qsbr_state make_from_epoch: unused bits clear");
  VERIF_CANARY("make returns"); }
#endif
#ifdef H_INC
void harness(void) { uint64_t w = IN_w = nondet_u64(); __CPROVER_assume(I_(w) && cnt_(w) < MAXT);
  uint64_t r = ST_INC(w); POST(r, ep_(w), cnt_(w) + 1, prev_(w), "inc_thread_count"); __CPROVER_assert(unused_(r) == unused_(w), "C16/qsbr_state inc_thread_count: unused bits untouched");
  VERIF_CANARY("inc returns"); }
#endif
#ifdef H_DEC
void harness(void) { uint64_t w = IN_w = nondet_u64(); __CPROVER_assume(I_(w) && cnt_(w) > 0 && prev_(w) < cnt_(w));
  uint64_t r = ST_DEC(w); POST(r, ep_(w), cnt_(w) - 1, prev_(w), "dec_thread_count"); __CPROVER_assert(unused_(r) == unused_(w), "C16/qsbr_state dec_thread_count: unused bits untouched");
  VERIF_CANARY("dec returns"); }
#endif
#ifdef H_INC2
void harness(void) { uint64_t w = IN_w = nondet_u64(); __CPROVER_assume(I_(w) && cnt_(w) < MAXT);
  uint64_t r = ST_INC2(w); POST(r, ep_(w), cnt_(w) + 1, prev_(w) + 1, "inc_thread_count_and_threads_in_previous_epoch");
  VERIF_CANARY("inc2 returns"); }
#endif
#ifdef H_DEC2
void harness(void) { uint64_t w = IN_w = nondet_u64(); __CPROVER_assume(I_(w) && cnt_(w) > 0 && prev_(w) > 0);
  uint64_t r = ST_DEC2(w); POST(r, ep_(w), cnt_(w) - 1, prev_(w) - 1, "dec_thread_count_and_threads_in_previous_epoch");
  VERIF_CANARY("dec2 returns"); }
#endif
#ifdef H_ADV
void harness(void) { uint64_t w = IN_w = nondet_u64(); __CPROVER_assume(I_(w) && prev_(w) == 0);
  uint64_t r = ST_ADV(w); POST(r, (ep_(w) + 1) & 3, cnt_(w), cnt_(w), "inc_epoch_reset_previous");
  VERIF_CANARY("adv returns"); }
#endif
#ifdef H_ADV_DEC
void harness(void) { uint64_t w = IN_w = nondet_u64(); __CPROVER_assume(I_(w) && cnt_(w) > 0 && prev_(w) == 1);
  uint64_t r = ST_ADV_DEC(w); POST(r, (ep_(w) + 1) & 3, cnt_(w) - 1, cnt_(w) - 1, "inc_epoch_dec_thread_count_reset_previous");
  VERIF_CANARY("adv_dec returns"); }
#endif
#ifdef H_MAYBE
void harness(void) { uint64_t w = IN_w = nondet_u64(); _Bool a = IN_a = nondet_bool(); __CPROVER_assume(I_(w) && cnt_(w) > 0 && (a ? prev_(w) == 1 : prev_(w) > 0));
  uint64_t r = ST_MAYBE(w, a);
  if (a) POST(r, (ep_(w) + 1) & 3, cnt_(w) - 1, cnt_(w) - 1, "maybe_advance(advance)"); else POST(r, ep_(w), cnt_(w) - 1, prev_(w) - 1, "maybe_advance(no advance)");
  VERIF_CANARY("maybe returns"); }
#endif
#ifdef H_FETCH_DEC
void harness(void) { uint64_t w = IN_w = nondet_u64(); __CPROVER_assume(I_(w) && prev_(w) > 0);
  uint64_t *cell = malloc(8); __CPROVER_assume(cell != 0); *cell = w;
  uint64_t old = ST_FETCH_DEC((ST_FETCH_DEC_a0)cell); uint64_t r = *cell;
  __CPROVER_assert(old == w, "C16/qsbr_state atomic_fetch_dec_threads_in_previous_epoch returns the word it replaced");
  POST(r, ep_(w), cnt_(w), prev_(w) - 1, "atomic_fetch_dec_threads_in_previous_epoch");
  VERIF_CANARY("fetch_dec returns"); }
#endif
#ifdef H_EPOCH
void harness(void) { uint8_t e = IN_e = nondet_u8(), f = IN_f = nondet_u8(); uint32_t by = IN_by = nondet_u32(); __CPROVER_assume(e <= 3 && f <= 3);
  __CPROVER_assert((uint8_t)EP_CTOR(e) == e, "C16/qsbr_epoch constructor keeps the value");
  uint8_t r = (uint8_t)EP_ADVANCE(e, by);
  __CPROVER_assert(r == (uint8_t)(((uint64_t)e + by) & 3), "C16/qsbr_epoch advance(by) == (value + by) mod 4");
  __CPROVER_assert(r <= 3, "C16/qsbr_epoch advance stays a valid epoch");
  __CPROVER_assert((_Bool)EP_EQ(e, f) == (e == f), "C16/qsbr_epoch operator== is value equality");
  VERIF_CANARY("epoch returns"); }
#endif
