/* C08, QSBR clauses ("a QSBR resume / thread start or a deferred-deallocation request fails with an exception - an allocation failure injected at any
 * one of the allocations it performs - ... observably unchanged ... nothing leaked ... repeating the operation then succeeds"):
 * the REAL qsbr_per_thread::qsbr_per_thread(), qsbr_resume() and on_next_epoch_deallocate() (qsbr.hpp), extracted, with
 *   - operator new failing nondeterministically at EVERY call (bad_alloc pending), operator delete, and a ghost ledger of live blocks;
 *   - qsbr::instance() -> a ghost instance; qsbr::register_thread() -> recording contract (counts registrations, returns an arbitrary valid epoch).
 * Contracts:
 *  constructor      ensures  exception  => the thread was NOT registered with the global QSBR (G_reg == 0) and every block allocated is released;
 *                            normal     => registered exactly once, last_seen_quiescent_state_epoch == last_seen_epoch == the epoch register_thread
 *                                          returned, both orphan list nodes allocated, distinct, empty; not paused; no pending requests.
 *  qsbr_resume      requires paused, no pending requests, each orphan-node field null or an owned block (the state a FAILED resume leaves behind is
 *                            included, so "repeating the operation succeeds" is the same contract)
 *                   ensures  exception  => still paused, NOT registered, epochs / counters untouched, no block leaked (live blocks == blocks the
 *                                          object owns);
 *                            normal     => registered exactly once, not paused, quiescent-state counter 0, epochs as for the constructor, both
 *                                          nodes fresh and empty, the previously owned nodes released. */
#include "x_types.h"
#include "x_body.h"
#ifdef H_DEFER
static void on_free_(uint8_t *p);
#define VERIF_ON_FREE(p) on_free_(p)
#endif
#include "verif_models.h"
#include "layout.h"
#define VERIF_CANARY(name) __CPROVER_assert(0, "canary: " name)
/* ---- operator new / delete with a ledger */
#define NLIVE 8
static uint8_t *LIVE[NLIVE]; static unsigned N_new, N_del; static _Bool MAY_FAIL = 1;
static int live_count(void) { int n = 0; for (int i = 0; i < NLIVE; i++) if (LIVE[i]) n++; return n; }
static _Bool is_live(const void *p) { if (!p) return 0; for (int i = 0; i < NLIVE; i++) if (LIVE[i] == (const uint8_t *)p) return 1; return 0; }
uint8_t *X__Znwm(uint64_t n) {
  if (MAY_FAIL && nondet_bool()) { verif_exc_pending = 1; return 0; }          /* std::bad_alloc */
  uint8_t *p = malloc(n); __CPROVER_assume(p != 0);
  __CPROVER_assert(N_new < NLIVE, "ledger large enough"); if (N_new < NLIVE) LIVE[N_new] = p; N_new++; return p; }
void X__ZdlPv(uint8_t *p) { if (!p) return; _Bool found = 0; for (int i = 0; i < NLIVE; i++) if (LIVE[i] == p) { LIVE[i] = 0; found = 1; }
  __CPROVER_assert(found, "operator delete only of a live block from operator new (no double release)"); N_del++; free(p); }
#ifdef HAVE_ZDLPVM
#endif
void X__ZdlPvm(uint8_t *p, uint64_t n) { X__ZdlPv(p); }
/* ---- global QSBR */
static uint8_t G_qsbr_obj[1024]; static unsigned G_reg; static uint8_t G_epoch;
QSBR_INSTANCE_ret QSBR_INSTANCE(void) { return (QSBR_INSTANCE_ret)G_qsbr_obj; }
uint8_t X__ZN5unodb4qsbr15register_threadEv(QSBR_INSTANCE_ret self) {
  __CPROVER_assert((uint8_t *)self == G_qsbr_obj, "register_thread on the global instance"); G_reg++; G_epoch = nondet_u8(); __CPROVER_assume(G_epoch <= 3); return G_epoch; }
#define FIELD(o, off, T) (*(T *)((uint8_t *)(o) + (off)))
static _Bool vec_empty(const uint8_t *v) { return FIELD(v, 0, uint64_t) == FIELD(v, 8, uint64_t); }      /* std::vector: begin == end */
static _Bool node_fresh(const uint8_t *n) { return FIELD(n, 0, uint64_t) == 0 && FIELD(n, 8, uint64_t) == 0 && FIELD(n, 16, uint64_t) == 0; }   /* value-initialised: empty vector (next pointer: zero as well) */
static void post_success(uint8_t *t, int owned_before) {
  uint8_t *pn = FIELD(t, LAY_PT_PREV_NODE, uint8_t *), *cn = FIELD(t, LAY_PT_CUR_NODE, uint8_t *);
  __CPROVER_assert(G_reg == 1, "C08/QSBR: on success the thread is registered exactly once");
  __CPROVER_assert(FIELD(t, LAY_PT_LSQE, uint8_t) == G_epoch && FIELD(t, LAY_PT_LSE, uint8_t) == G_epoch, "C08/QSBR: both last-seen epochs are the epoch register_thread returned");
  __CPROVER_assert(FIELD(t, LAY_PT_QSTATES, uint64_t) == 0 && FIELD(t, LAY_PT_PAUSED, uint8_t) == 0, "C08/QSBR: not paused, no quiescent states counted yet");
  __CPROVER_assert(pn != cn && is_live(pn) && is_live(cn) && node_fresh(pn) && node_fresh(cn), "C08/QSBR: both orphan list nodes are allocated, distinct and empty");
  __CPROVER_assert(live_count() == 2 && N_del == (unsigned)owned_before, "C08/QSBR: exactly the two nodes are held; nodes owned before are released");
  __CPROVER_assert(vec_empty(t + LAY_PT_PREV_REQS) && vec_empty(t + LAY_PT_CUR_REQS), "C08/QSBR: no pending requests");
}
#ifdef H_CTOR
void harness(void) {
  uint8_t *t = malloc(LAY_PT_SIZE); __CPROVER_assume(t != 0);
  PT_CTOR((PT_CTOR_a0)t);
  if (verif_exc_pending) {
    __CPROVER_assert(G_reg == 0, "C08/QSBR thread start: if an allocation fails the thread has NOT been registered (nothing to undo, nothing observable happened)");
    __CPROVER_assert(live_count() == 0, "C08/QSBR thread start: if an allocation fails every block allocated so far is released (nothing leaked)");
    VERIF_CANARY("exceptional exit reachable"); return; }
  post_success(t, 0);
  VERIF_CANARY("normal exit reachable");
}
#endif
#ifdef H_RESUME
void harness(void) {
  uint8_t *t = calloc(1, LAY_PT_SIZE); __CPROVER_assume(t != 0);                  /* zeroed: empty request vectors, empty active-pointer registry */
  FIELD(t, LAY_PT_PAUSED, uint8_t) = 1;
  const uint64_t q0 = nondet_u64(); const uint8_t e0 = nondet_u8(), e1 = nondet_u8(); __CPROVER_assume(e0 <= 3 && e1 <= 3);
  FIELD(t, LAY_PT_QSTATES, uint64_t) = q0; FIELD(t, LAY_PT_LSQE, uint8_t) = e0; FIELD(t, LAY_PT_LSE, uint8_t) = e1;
  int owned = 0; MAY_FAIL = 0;                                                  /* a previous failed resume may have left either node allocated */
  if (nondet_bool()) { uint8_t *n = X__Znwm(LAY_DEALLOC_LIST_NODE_SIZE); ((uint64_t *)n)[0] = 0; ((uint64_t *)n)[1] = 0; ((uint64_t *)n)[2] = 0; ((uint64_t *)n)[3] = 0; FIELD(t, LAY_PT_PREV_NODE, uint8_t *) = n; owned++; }
  if (nondet_bool()) { uint8_t *n = X__Znwm(LAY_DEALLOC_LIST_NODE_SIZE); ((uint64_t *)n)[0] = 0; ((uint64_t *)n)[1] = 0; ((uint64_t *)n)[2] = 0; ((uint64_t *)n)[3] = 0; FIELD(t, LAY_PT_CUR_NODE, uint8_t *) = n; owned++; }
  MAY_FAIL = 1;
  PT_RESUME((PT_RESUME_a0)t);
  uint8_t *pn = FIELD(t, LAY_PT_PREV_NODE, uint8_t *), *cn = FIELD(t, LAY_PT_CUR_NODE, uint8_t *);
  if (verif_exc_pending) {
    __CPROVER_assert(G_reg == 0 && FIELD(t, LAY_PT_PAUSED, uint8_t) == 1, "C08/QSBR resume: if an allocation fails the thread is NOT registered and still paused");
    __CPROVER_assert(FIELD(t, LAY_PT_QSTATES, uint64_t) == q0 && FIELD(t, LAY_PT_LSQE, uint8_t) == e0 && FIELD(t, LAY_PT_LSE, uint8_t) == e1, "C08/QSBR resume: ... epochs and counters untouched");
    __CPROVER_assert((pn == 0 || is_live(pn)) && (cn == 0 || is_live(cn)) && (pn == 0 || pn != cn) && live_count() == (pn != 0) + (cn != 0), "C08/QSBR resume: ... nothing leaked: the live blocks are exactly the nodes the object still owns (released by its destructor or by the retry)");
    __CPROVER_assert(vec_empty(t + LAY_PT_PREV_REQS) && vec_empty(t + LAY_PT_CUR_REQS), "C08/QSBR resume: ... no pending requests appear");
    VERIF_CANARY("exceptional exit reachable"); return; }
  post_success(t, owned);
  VERIF_CANARY("normal exit reachable");
}
#endif
#ifdef H_DEFER
/*  on_next_epoch_deallocate(pointer[, size])   (NDEBUG extractions; the assertion-enabled signature carries a std::function and is not covered)
 *     callee contracts: std::vector<deallocation_request>::emplace_back - strong guarantee: appends exactly one request for the given pointer, or throws
 *     bad_alloc with the vector unchanged (ASSUMED, libstdc++); advance_last_seen_epoch - recording contract (takes ownership of the passed vector);
 *     qsbr::deallocate / free_aligned / free run for real on the ledger.
 *   requires not paused
 *   ensures  exception => the per-thread object is byte-for-byte unchanged (last_seen_epoch, both request lists, the running deallocation size),
 *                         advance_last_seen_epoch was NOT called, the pointer was NOT freed (the caller still owns it: nothing leaked, nothing
 *                         half-queued), nothing else was freed;
 *            normal    => exactly one of: single-thread mode: epoch advanced first, then the pointer freed immediately, exactly once, nothing queued;
 *                         new epoch seen: ONE request for the pointer in a fresh list handed to advance_last_seen_epoch, size counter := size;
 *                         same epoch: ONE request for the pointer appended to the current list, size counter += size, no epoch advance. */
static unsigned G_adv, G_emplace, G_freed_ptr, G_freed_other; static uint8_t *G_ptr; static void *G_emplace_vec, *G_adv_vec; static uint8_t G_adv_epoch; static _Bool G_adv_single, G_emplace_before_adv, G_free_after_adv;
EMPLACE_ret EMPLACE(EMPLACE_a0 vec, EMPLACE_a1 pp) {
  __CPROVER_assert(*(uint8_t **)pp == G_ptr, "the queued request is for the caller's pointer");
  if (nondet_bool()) { verif_exc_pending = 1; return (EMPLACE_ret)0; }          /* bad_alloc: vector unchanged */
  G_emplace++; G_emplace_vec = (void *)vec; G_emplace_before_adv = (G_adv == 0); static uint64_t cell; return (EMPLACE_ret)&cell; }
void ADVANCE(ADVANCE_a0 self, ADVANCE_a1 single, ADVANCE_a2 epoch, ADVANCE_a3 vec) { G_adv++; G_adv_single = single & 1; G_adv_epoch = (uint8_t)epoch; G_adv_vec = (void *)vec; }
static void on_free_(uint8_t *p) { if (p == G_ptr) { G_freed_ptr++; G_free_after_adv = (G_adv == 1); } else G_freed_other++; }
void harness(void) {
  uint8_t *t = calloc(1, LAY_PT_SIZE); __CPROVER_assume(t != 0);
  uint8_t img0[LAY_PT_SIZE];
  const uint8_t lse = nondet_u8(); __CPROVER_assume(lse <= 3); FIELD(t, LAY_PT_LSE, uint8_t) = lse; FIELD(t, LAY_PT_LSQE, uint8_t) = nondet_u8(); FIELD(t, LAY_PT_QSTATES, uint64_t) = nondet_u64();
  uint64_t tot0 = 0;
#ifdef VERIF_CFG_STATS
  tot0 = nondet_u64(); FIELD(t, LAY_PT_CUR_TOTAL, uint64_t) = tot0;
#endif
  const uint64_t w = nondet_u64(); __CPROVER_assume((uint32_t)(w & 0x3FFFFFFFu) <= (uint32_t)((w >> 32) & 0x3FFFFFFFu));       /* qsbr_state invariant (qsbr.state.* jobs) */
  FIELD(G_qsbr_obj, LAY_QSBR_STATE, uint64_t) = w; const _Bool single = ((w >> 32) & 0x3FFFFFFFu) < 2; const uint8_t ge = (uint8_t)(w >> 62);
  G_ptr = malloc(8); __CPROVER_assume(G_ptr != 0); const uint64_t size = nondet_u64();
  __CPROVER_array_copy(img0, t);
#ifdef VERIF_CFG_STATS
  PT_DEFER((PT_DEFER_a0)t, G_ptr, size);
#else
  PT_DEFER((PT_DEFER_a0)t, G_ptr);
#endif
  if (verif_exc_pending) {
    _Bool same = 1; for (unsigned i = 0; i < LAY_PT_SIZE; i++) if (t[i] != img0[i]) same = 0;
    __CPROVER_assert(same, "C08/QSBR deferred deallocation: if queuing fails the per-thread state is unchanged (last seen epoch, both request lists, size counter)");
    __CPROVER_assert(G_adv == 0 && G_emplace == 0, "C08/QSBR deferred deallocation: ... no epoch advance happened and nothing was queued");
    __CPROVER_assert(G_freed_ptr == 0 && G_freed_other == 0, "C08/QSBR deferred deallocation: ... the pointer was not freed (the caller still owns it) and nothing else was");
    __CPROVER_assert(!single, "C08/QSBR deferred deallocation: single-thread mode performs no allocation and cannot fail");
    VERIF_CANARY("exceptional exit reachable"); return; }
  __CPROVER_assert(G_freed_other == 0, "deferred deallocation frees nothing but the caller's pointer");
  if (single) {
    __CPROVER_assert(G_adv == 1 && G_adv_single && G_adv_epoch == ge, "single-thread mode: the last seen epoch is advanced to the global epoch");
    __CPROVER_assert(G_freed_ptr == 1 && G_free_after_adv && G_emplace == 0, "single-thread mode: the pointer is freed at once, exactly once, and is not queued");
    VERIF_CANARY("single-thread exit reachable");
  } else if (lse != ge) {
    __CPROVER_assert(G_emplace == 1 && G_emplace_before_adv && G_emplace_vec != (void *)(t + LAY_PT_CUR_REQS) && G_emplace_vec != (void *)(t + LAY_PT_PREV_REQS), "new epoch: exactly one request, queued into a fresh list before anything changes");
    __CPROVER_assert(G_adv == 1 && !G_adv_single && G_adv_epoch == ge && G_freed_ptr == 0, "new epoch: the fresh list is handed to advance_last_seen_epoch(global epoch); the pointer is not freed now");
#ifdef VERIF_CFG_STATS
    __CPROVER_assert(FIELD(t, LAY_PT_CUR_TOTAL, uint64_t) == size, "new epoch: the interval's size counter restarts at this request's size");
#endif
    VERIF_CANARY("new-epoch exit reachable");
  } else {
    __CPROVER_assert(G_emplace == 1 && G_emplace_vec == (void *)(t + LAY_PT_CUR_REQS) && G_adv == 0 && G_freed_ptr == 0, "same epoch: exactly one request appended to the current interval's list; no epoch advance; the pointer is not freed now");
#ifdef VERIF_CFG_STATS
    __CPROVER_assert(FIELD(t, LAY_PT_CUR_TOTAL, uint64_t) == tot0 + size, "same epoch: the interval's size counter grows by this request's size");
#endif
    VERIF_CANARY("same-epoch exit reachable");
  }
}
#endif
