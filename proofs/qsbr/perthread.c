/* C08, QSBR clauses ("a QSBR resume / thread start or a deferred-deallocation request fails with an exception - an allocation failure injected at any
 * one of the allocations it performs - ... observably unchanged ... nothing leaked ... repeating the operation then succeeds"):
 * the REAL qsbr_per_thread::qsbr_per_thread(), qsbr_resume() and on_next_epoch_deallocate() (qsbr.hpp), extracted, with
 *   - operator new failing nondeterministically at EVERY call (bad_alloc pending), operator delete, and a ghost ledger of live blocks;
 *   - qsbr::instance() -> a ghost instance; qsbr::register_thread() -> recording contract (counts registrations, returns an arbitrary valid epoch).
 * Contracts:
 *  constructor      ensures  exception  => the thread was NOT registered with the global QSBR (G_reg == 0) and every block allocated is released;
 *                            normal     => registered exactly once, last_seen_quiescent_state_epoch == last_seen_epoch == the epoch register_thread
 *                                          returned, both orphan list nodes allocated, distinct, empty; not paused; no pending requests.
 *  qsbr_resume      requires paused, no pending requests, each orphan-node field null or an owned block (the state a FAILED resume leaves behind is
 *                            included, so "repeating the operation succeeds" is the same contract)
 *                   ensures  exception  => still paused, NOT registered, epochs / counters untouched, no block leaked (live blocks == blocks the
 *                                          object owns);
 *                            normal     => registered exactly once, not paused, quiescent-state counter 0, epochs as for the constructor, both
 *                                          nodes fresh and empty, the previously owned nodes released. */
#include "x_types.h"
#include "x_body.h"
#include "verif_models.h"
#include "layout.h"
#define VERIF_CANARY(name) __CPROVER_assert(0, "canary: " name)
/* ---- operator new / delete with a ledger */
#define NLIVE 8
static uint8_t *LIVE[NLIVE]; static unsigned N_new, N_del; static _Bool MAY_FAIL = 1;
static int live_count(void) { int n = 0; for (int i = 0; i < NLIVE; i++) if (LIVE[i]) n++; return n; }
static _Bool is_live(const void *p) { if (!p) return 0; for (int i = 0; i < NLIVE; i++) if (LIVE[i] == (const uint8_t *)p) return 1; return 0; }
uint8_t *X__Znwm(uint64_t n) {
  if (MAY_FAIL && nondet_bool()) { verif_exc_pending = 1; return 0; }          /* std::bad_alloc */
  uint8_t *p = malloc(n); __CPROVER_assume(p != 0);
  __CPROVER_assert(N_new < NLIVE, "ledger large enough"); if (N_new < NLIVE) LIVE[N_new] = p; N_new++; return p; }
void X__ZdlPv(uint8_t *p) { if (!p) return; _Bool found = 0; for (int i = 0; i < NLIVE; i++) if (LIVE[i] == p) { LIVE[i] = 0; found = 1; }
  __CPROVER_assert(found, "operator delete only of a live block from operator new (no double release)"); N_del++; free(p); }
#ifdef HAVE_ZDLPVM
#endif
void X__ZdlPvm(uint8_t *p, uint64_t n) { X__ZdlPv(p); }
/* ---- global QSBR */
static uint8_t G_qsbr_obj[1024]; static unsigned G_reg; static uint8_t G_epoch;
QSBR_INSTANCE_ret QSBR_INSTANCE(void) { return (QSBR_INSTANCE_ret)G_qsbr_obj; }
uint8_t X__ZN5unodb4qsbr15register_threadEv(QSBR_INSTANCE_ret self) {
  __CPROVER_assert((uint8_t *)self == G_qsbr_obj, "register_thread on the global instance"); G_reg++; G_epoch = nondet_u8(); __CPROVER_assume(G_epoch <= 3); return G_epoch; }
#define FIELD(o, off, T) (*(T *)((uint8_t *)(o) + (off)))
static _Bool vec_empty(const uint8_t *v) { return FIELD(v, 0, uint64_t) == FIELD(v, 8, uint64_t); }      /* std::vector: begin == end */
static _Bool node_fresh(const uint8_t *n) { return FIELD(n, 0, uint64_t) == 0 && FIELD(n, 8, uint64_t) == 0 && FIELD(n, 16, uint64_t) == 0; }   /* value-initialised: empty vector (next pointer: zero as well) */
static void post_success(uint8_t *t, int owned_before) {
  uint8_t *pn = FIELD(t, LAY_PT_PREV_NODE, uint8_t *), *cn = FIELD(t, LAY_PT_CUR_NODE, uint8_t *);
  __CPROVER_assert(G_reg == 1, "C08/QSBR: on success the thread is registered exactly once");
  __CPROVER_assert(FIELD(t, LAY_PT_LSQE, uint8_t) == G_epoch && FIELD(t, LAY_PT_LSE, uint8_t) == G_epoch, "C08/QSBR: both last-seen epochs are the epoch register_thread returned");
  __CPROVER_assert(FIELD(t, LAY_PT_QSTATES, uint64_t) == 0 && FIELD(t, LAY_PT_PAUSED, uint8_t) == 0, "C08/QSBR: not paused, no quiescent states counted yet");
  __CPROVER_assert(pn != cn && is_live(pn) && is_live(cn) && node_fresh(pn) && node_fresh(cn), "C08/QSBR: both orphan list nodes are allocated, distinct and empty");
  __CPROVER_assert(live_count() == 2 && N_del == (unsigned)owned_before, "C08/QSBR: exactly the two nodes are held; nodes owned before are released");
  __CPROVER_assert(vec_empty(t + LAY_PT_PREV_REQS) && vec_empty(t + LAY_PT_CUR_REQS), "C08/QSBR: no pending requests");
}
#ifdef H_CTOR
void harness(void) {
  uint8_t *t = malloc(LAY_PT_SIZE); __CPROVER_assume(t != 0);
  PT_CTOR((PT_CTOR_a0)t);
  if (verif_exc_pending) {
    __CPROVER_assert(G_reg == 0, "C08/QSBR thread start: if an allocation fails the thread has NOT been registered (nothing to undo, nothing observable happened)");
    __CPROVER_assert(live_count() == 0, "C08/QSBR thread start: if an allocation fails every block allocated so far is released (nothing leaked)");
    VERIF_CANARY("exceptional exit reachable"); return; }
  post_success(t, 0);
  VERIF_CANARY("normal exit reachable");
}
#endif
#ifdef H_RESUME
void harness(void) {
  uint8_t *t = calloc(1, LAY_PT_SIZE); __CPROVER_assume(t != 0);                  /* zeroed: empty request vectors, empty active-pointer registry */
  FIELD(t, LAY_PT_PAUSED, uint8_t) = 1;
  const uint64_t q0 = nondet_u64(); const uint8_t e0 = nondet_u8(), e1 = nondet_u8(); __CPROVER_assume(e0 <= 3 && e1 <= 3);
  FIELD(t, LAY_PT_QSTATES, uint64_t) = q0; FIELD(t, LAY_PT_LSQE, uint8_t) = e0; FIELD(t, LAY_PT_LSE, uint8_t) = e1;
  int owned = 0; MAY_FAIL = 0;                                                  /* a previous failed resume may have left either node allocated */
  if (nondet_bool()) { uint8_t *n = X__Znwm(LAY_DEALLOC_LIST_NODE_SIZE); ((uint64_t *)n)[0] = 0; ((uint64_t *)n)[1] = 0; ((uint64_t *)n)[2] = 0; ((uint64_t *)n)[3] = 0; FIELD(t, LAY_PT_PREV_NODE, uint8_t *) = n; owned++; }
  if (nondet_bool()) { uint8_t *n = X__Znwm(LAY_DEALLOC_LIST_NODE_SIZE); ((uint64_t *)n)[0] = 0; ((uint64_t *)n)[1] = 0; ((uint64_t *)n)[2] = 0; ((uint64_t *)n)[3] = 0; FIELD(t, LAY_PT_CUR_NODE, uint8_t *) = n; owned++; }
  MAY_FAIL = 1;
  PT_RESUME((PT_RESUME_a0)t);
  uint8_t *pn = FIELD(t, LAY_PT_PREV_NODE, uint8_t *), *cn = FIELD(t, LAY_PT_CUR_NODE, uint8_t *);
  if (verif_exc_pending) {
    __CPROVER_assert(G_reg == 0 && FIELD(t, LAY_PT_PAUSED, uint8_t) == 1, "C08/QSBR resume: if an allocation fails the thread is NOT registered and still paused");
    __CPROVER_assert(FIELD(t, LAY_PT_QSTATES, uint64_t) == q0 && FIELD(t, LAY_PT_LSQE, uint8_t) == e0 && FIELD(t, LAY_PT_LSE, uint8_t) == e1, "C08/QSBR resume: ... epochs and counters untouched");
    __CPROVER_assert((pn == 0 || is_live(pn)) && (cn == 0 || is_live(cn)) && (pn == 0 || pn != cn) && live_count() == (pn != 0) + (cn != 0), "C08/QSBR resume: ... nothing leaked: the live blocks are exactly the nodes the object still owns (released by its destructor or by the retry)");
    __CPROVER_assert(vec_empty(t + LAY_PT_PREV_REQS) && vec_empty(t + LAY_PT_CUR_REQS), "C08/QSBR resume: ... no pending requests appear");
    VERIF_CANARY("exceptional exit reachable"); return; }
  post_success(t, owned);
  VERIF_CANARY("normal exit reachable");
}
#endif
