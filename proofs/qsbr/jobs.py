# C16 (function-local part of the QSBR state word, DESIGN.md 7/C16): qsbr_epoch and qsbr_state word functions
S = r'^unodb::qsbr_state::'
ROOTS = {'ST_GET_EPOCH': S + r'get_epoch\(', 'ST_GET_COUNT': S + r'get_thread_count\(', 'ST_GET_PREV': S + r'get_threads_in_previous_epoch\(', 'ST_SINGLE': S + r'single_thread_mode\(',
         'ST_MAKE': S + r'make_from_epoch\(', 'ST_INC': S + r'inc_thread_count\(', 'ST_DEC': S + r'dec_thread_count\(', 'ST_INC2': S + r'inc_thread_count_and_threads_in_previous_epoch\(',
         'ST_DEC2': S + r'dec_thread_count_and_threads_in_previous_epoch\(', 'ST_ADV': S + r'inc_epoch_reset_previous\(', 'ST_ADV_DEC': S + r'inc_epoch_dec_thread_count_reset_previous\(',
         'ST_MAYBE': S + r'dec_thread_count_threads_in_previous_epoch_maybe_advance\(',
         'EP_CTOR': r'^verif_driver::epoch_ctor\(', 'EP_ADVANCE': r'^verif_driver::epoch_advance\(', 'EP_EQ': r'^verif_driver::epoch_eq\('}
NAMES = {'GET': 'qsbr_state::{get_epoch,get_thread_count,get_threads_in_previous_epoch,single_thread_mode,do_get_*,assert_invariants}', 'MAKE': 'qsbr_state::make_from_epoch',
         'INC': 'qsbr_state::inc_thread_count', 'DEC': 'qsbr_state::dec_thread_count', 'INC2': 'qsbr_state::inc_thread_count_and_threads_in_previous_epoch',
         'DEC2': 'qsbr_state::dec_thread_count_and_threads_in_previous_epoch', 'ADV': 'qsbr_state::inc_epoch_reset_previous', 'ADV_DEC': 'qsbr_state::inc_epoch_dec_thread_count_reset_previous',
         'MAYBE': 'qsbr_state::dec_thread_count_threads_in_previous_epoch_maybe_advance', 'EPOCH': 'qsbr_epoch::{qsbr_epoch(epoch_type),advance,operator==,get_val,assert_invariant}'}
QCFG = [c for c in ALL_CFGS if c.startswith('avx2-stats') or c.startswith('avx2-nostats')]
for h, name in NAMES.items():
    job('qsbr.state.' + h.lower(), ['C16'], 'u_qsbrstate', 'proofs/qsbr/state.c', defines=['H_' + h], roots=ROOTS, cfgs=(BASE, DEBUG), thorough_cfgs=QCFG,
        under_contract=[name], floor=3, timeout=300, replay='replay/qsbrstate.cpp', trusted=['no more than 2^30-2 simultaneously registered threads (documented: overflow is not checked)'] if 'INC' in h else [])
job('qsbr.state.fetch_dec', ['C16'], 'repo:qsbr.cpp', 'proofs/qsbr/state.c', defines=['H_FETCH_DEC'], roots={'ST_FETCH_DEC': S + r'atomic_fetch_dec_threads_in_previous_epoch\('},
    cfgs=(BASE, DEBUG), under_contract=['qsbr_state::atomic_fetch_dec_threads_in_previous_epoch'], floor=3, timeout=300, replay='replay/qsbrstate.cpp',
    trusted=['atomic fetch_sub executed sequentially (SC, no interference): the concurrent meaning is outside function contracts'])
# C08 (QSBR clauses: thread start, resume, deferred-deallocation request): the per-thread functions with an allocator that fails at every allocation
PT = r'^unodb::qsbr_per_thread::'
PTSTUBS = {'QSBR_INSTANCE': r'^unodb::qsbr::instance\(\)'}
job('qsbr.c08.ctor', ['C08'], 'u_qsbr_api', 'proofs/qsbr/perthread.c', defines=['H_CTOR'], roots={'PT_CTOR': PT + r'qsbr_per_thread\(\)'}, stubs=PTSTUBS, cfgs=(BASE, DEBUG),
    unwind=10, floor=5, timeout=300, under_contract=['qsbr_per_thread::qsbr_per_thread() (thread start: member initialisers + register_thread)'],
    trusted=['qsbr::register_thread replaced by a recording contract (does not throw)', 'operator new / delete model (fresh object or bad_alloc)'])
job('qsbr.c08.resume', ['C08'], 'u_qsbr_api', 'proofs/qsbr/perthread.c', defines=['H_RESUME'], roots={'PT_RESUME': PT + r'qsbr_resume\(\)'}, stubs=PTSTUBS, cfgs=(BASE, DEBUG),
    unwind=10, floor=5, timeout=300, under_contract=['qsbr_per_thread::qsbr_resume'],
    trusted=['qsbr::register_thread replaced by a recording contract (does not throw)', 'operator new / delete model (fresh object or bad_alloc)'])
NDCFG = [c for c in ALL_CFGS if c.startswith('avx2') and '-ndebug-' in c]
job('qsbr.c08.defer', ['C08'], 'u_qsbr_api', 'proofs/qsbr/perthread.c', defines=['H_DEFER'], roots={'PT_DEFER': PT + r'on_next_epoch_deallocate\('},
    stubs=dict(PTSTUBS, ADVANCE=PT + r'advance_last_seen_epoch\(', EMPLACE=r'^unodb::detail::deallocation_request& std::vector<unodb::detail::deallocation_request, .*>::emplace_back<void\*&>'),
    cfgs=(BASE, 'avx2-nostats-ndebug-pause'), thorough_cfgs=NDCFG, unwind=130, floor=5, timeout=300,
    under_contract=['qsbr_per_thread::on_next_epoch_deallocate (NDEBUG signature)', 'qsbr::deallocate', 'qsbr::get_state'],
    trusted=['std::vector<deallocation_request>::emplace_back replaced by an ASSUMED strong-guarantee contract (append exactly one, or throw with the vector unchanged)',
             'qsbr_per_thread::advance_last_seen_epoch replaced by a recording contract (its list rotation is C05/C06 territory, not decided)',
             'assertion-enabled signature (std::function debug callback) not covered'])
