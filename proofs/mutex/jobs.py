# C13: mutex_db
def regs(K):
    M = r'^unodb::mutex_db<%s, .*::' % K; MV = r'^void unodb::mutex_db<%s, .*::' % K
    D = r'^unodb::db<%s, std::span<std::byte const, \d+ul> >::' % K; DV = r'^void unodb::db<%s, std::span<std::byte const, \d+ul> >::' % K
    roots = {'M_GET': M + r'get\(', 'M_INSERT': M + r'insert\(', 'M_REMOVE': M + r'remove\(', 'M_EMPTY': M + r'empty\(', 'M_CLEAR': M + r'clear\(', 'M_SCAN': MV + r'scan<',
             'M_SCAN_FROM': MV + r'scan_from<', 'M_SCAN_RANGE': MV + r'scan_range<', 'M_MEM': M + r'get_current_memory_use', 'M_KEY_FOUND': M + r'key_found'}
    stubs = {'D_GET': D + r'get_internal\(', 'D_INSERT': D + r'insert_internal\(', 'D_REMOVE': D + r'remove_internal\(', 'D_EMPTY': D + r'empty\(', 'D_CLEAR': D + r'clear\(',
             'D_SCAN': DV + r'scan<', 'D_SCAN_FROM': DV + r'scan_from<', 'D_SCAN_RANGE': DV + r'scan_range<', 'D_MEM': D + r'get_current_memory_use'}
    return roots, stubs
for kn, K, defs in (('u64', 'unsigned long', []), ('kv', r'std::span<std::byte const, \d+ul>', ['KEYVIEW'])):
    roots, stubs = regs(K)
    for h in ('h_get', 'h_insert', 'h_remove', 'h_empty', 'h_clear', 'h_scan', 'h_scan_from', 'h_scan_range', 'h_mem'):
        job('mutex.%s.%s' % (kn, h), ['C13'], 'u_mutex', 'proofs/mutex/mutex.c', entry=h, roots=roots, stubs=stubs, defines=defs, cfgs=(BASE, DEBUG), floor=5, timeout=300, replay='replay/mutex.cpp' if h == 'h_get' else None,
            under_contract=['unodb::mutex_db<%s>::%s (+ *_internal, std::lock_guard/unique_lock/mutex)' % (kn, h[2:])],
            trusted=['std::mutex provides mutual exclusion and happens-before (pthread_mutex_* modelled by a ghost owner flag that never fails)',
                     'linearizability then follows from mutual exclusion + C01 (every effect inside the critical section): textbook argument, not mechanised'])
