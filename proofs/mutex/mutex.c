/* C13: every public method of the REAL unodb::mutex_db (extracted: the method, its *_internal helper, std::lock_guard /
 * std::unique_lock / std::mutex down to pthread_mutex_lock/unlock).
 * Modular: each call into the wrapped unodb::db is replaced by a contract that REQUIRES the index mutex to be held by this thread
 * (and may throw where the real function may: insert -> bad_alloc / length_error).  pthread_mutex_* is a ghost owner flag:
 * lock asserts "not already mine", unlock asserts "mine".
 *   ensures  get:   result.second.owns_lock() == result.first.has_value() == (mutex held on return)        [a hit pins the entry]
 *            every other method: mutex not held on return, on normal AND exceptional exit; the inner call happened exactly once
 *            key_found(result) == result.first.has_value(), and its debug assertion holds for results produced by get */
#include "x_types.h"
#include "x_body.h"
#include "verif_models.h"
#include "layout.h"
#define VERIF_CANARY(name) __CPROVER_assert(0, "canary: " name)
static void *G_mutex; static _Bool G_held; static unsigned G_locks, G_unlocks, G_inner; static void *G_db;
uint32_t X_pthread_mutex_lock(void *m) { __CPROVER_assert(m == G_mutex, "locks the index mutex"); __CPROVER_assert(!G_held, "no self-deadlock: mutex not already held by this thread"); G_held = 1; G_locks++; return 0; }
uint32_t X_pthread_mutex_unlock(void *m) { __CPROVER_assert(m == G_mutex, "unlocks the index mutex"); __CPROVER_assert(G_held, "unlock only while held"); G_held = 0; G_unlocks++; return 0; }
void X__ZSt20__throw_system_errori(uint32_t e) { __CPROVER_assert(0, "std::__throw_system_error not reached (pthread_mutex_lock model never fails)"); __CPROVER_assume(0); }
#define INNER(self) do { __CPROVER_assert(G_held, "C13: the wrapped index is only touched while the mutex is held"); __CPROVER_assert((void *)(self) == G_db, "inner call on the wrapped db_"); G_inner++; } while (0)
#define MAY_THROW() do { if (nondet_bool()) { verif_exc_pending = 1; } } while (0)
static _Bool G_hit; _Bool IN_hit; uint64_t IN_vlen;
#ifdef KEYVIEW
#define KP(n) uint8_t *kp##n, uint64_t kl##n
#define KA(n) (uint8_t *)nondet_ptr(), nondet_u64()
#else
#define KP(n) uint64_t k##n
#define KA(n) nondet_u64()
#endif
void D_GET(D_GET_a0 out, D_GET_a1 self, KP(1)) { INNER(self); uint8_t *o = (uint8_t *)out; IN_hit = G_hit = nondet_bool(); IN_vlen = nondet_u64(); *(uint8_t **)o = nondet_ptr(); *(uint64_t *)(o + 8) = IN_vlen; o[LAY_OPT_VV_ENGAGED] = G_hit; }
_Bool D_INSERT(D_INSERT_a0 self, KP(1), uint8_t *vp, uint64_t vl) { INNER(self); MAY_THROW(); return nondet_bool(); }
_Bool D_REMOVE(D_REMOVE_a0 self, KP(1)) { INNER(self); MAY_THROW(); return nondet_bool(); }
_Bool D_EMPTY(D_EMPTY_a0 self) { INNER(self); return nondet_bool(); }
void D_CLEAR(D_CLEAR_a0 self) { INNER(self); }
void D_SCAN(D_SCAN_a0 self, _Bool fwd) { INNER(self); }
void D_SCAN_FROM(D_SCAN_FROM_a0 self, KP(1), _Bool fwd) { INNER(self); }
void D_SCAN_RANGE(D_SCAN_RANGE_a0 self, KP(1), KP(2)) { INNER(self); }
uint64_t D_MEM(D_MEM_a0 self) { INNER(self); return nondet_u64(); }
static M_EMPTY_a0 mk(void) {
  M_EMPTY_a0 m = malloc(sizeof(*m)); __CPROVER_assume(m != 0);
  __CPROVER_assert(sizeof(*m) == LAY_MUTEXDB_SIZE, "generated struct has the real size");
  G_db = (uint8_t *)m + LAY_MUTEXDB_DB; G_mutex = (uint8_t *)m + LAY_MUTEXDB_MUTEX; G_held = 0; return m;
}
static void released(const char *unused) {
  __CPROVER_assert(!G_held && G_locks == 1 && G_unlocks == 1, "C13: the mutex was taken exactly once and is released on return (normal and exceptional exit)");
  __CPROVER_assert(G_inner == 1, "exactly one call into the wrapped index, inside the critical section");
}
void h_get(void) {
  M_EMPTY_a0 m = mk();
  uint8_t *res = malloc(LAY_MGET_SIZE); __CPROVER_assume(res != 0);
  M_GET((M_GET_a0)res, (M_GET_a1)m, KA(1));
  _Bool has = res[LAY_OPT_VV_ENGAGED] != 0;
  void *dev = *(void **)(res + LAY_MGET_SECOND + LAY_ULOCK_DEVICE); _Bool owns = res[LAY_MGET_SECOND + LAY_ULOCK_OWNS] != 0;
  __CPROVER_assert(has == G_hit, "get returns what the wrapped index returned");
  __CPROVER_assert(owns == has, "C13: the returned handle owns the index lock iff the key was found");
  __CPROVER_assert(G_held == has, "C13: the mutex is still held on return exactly on a hit (the entry is pinned), released on a miss");
  __CPROVER_assert(!has || dev == G_mutex, "the handle refers to the index mutex");
  __CPROVER_assert(G_inner == 1 && G_locks == 1 && G_unlocks == (has ? 0 : 1), "one inner call, one lock, unlock only on a miss");
  _Bool kf = M_KEY_FOUND((M_KEY_FOUND_a0)res);
  __CPROVER_assert(kf == has, "key_found reports presence (its debug assertion 'found => owns lock' is an obligation of the debug extraction)");
  VERIF_CANARY("get returns"); if (has) VERIF_CANARY("hit reachable"); else VERIF_CANARY("miss reachable");
}
void h_insert(void) { M_EMPTY_a0 m = mk(); (void)M_INSERT((M_INSERT_a0)m, KA(1), (uint8_t *)nondet_ptr(), nondet_u64()); released(0); VERIF_CANARY("insert returns"); if (verif_exc_pending) VERIF_CANARY("exceptional exit reachable"); }
void h_remove(void) { M_EMPTY_a0 m = mk(); (void)M_REMOVE((M_REMOVE_a0)m, KA(1)); released(0); VERIF_CANARY("remove returns"); if (verif_exc_pending) VERIF_CANARY("exceptional exit reachable"); }
void h_empty(void) { M_EMPTY_a0 m = mk(); (void)M_EMPTY(m); released(0); VERIF_CANARY("empty returns"); }
void h_clear(void) { M_EMPTY_a0 m = mk(); M_CLEAR((M_CLEAR_a0)m); released(0); VERIF_CANARY("clear returns"); }
void h_scan(void) { M_EMPTY_a0 m = mk(); M_SCAN((M_SCAN_a0)m, nondet_bool()); released(0); VERIF_CANARY("scan returns"); }
void h_scan_from(void) { M_EMPTY_a0 m = mk(); M_SCAN_FROM((M_SCAN_FROM_a0)m, KA(1), nondet_bool()); released(0); VERIF_CANARY("scan_from returns"); }
void h_scan_range(void) { M_EMPTY_a0 m = mk(); M_SCAN_RANGE((M_SCAN_RANGE_a0)m, KA(1), KA(2)); released(0); VERIF_CANARY("scan_range returns"); }
void h_mem(void) { M_EMPTY_a0 m = mk(); (void)M_MEM((M_MEM_a0)m); released(0); VERIF_CANARY("get_current_memory_use returns"); }
