/* C02: contracts of basic_art_key::cmp (REAL code) - the comparison that picks the direction and the end of scan_range.
 * KEYKIND kv : byte-string keys.  cmp(art_key) and cmp(key_view) must order the two KEY BYTE STRINGS lexicographically (first difference,
 *              shorter first, 0 iff equal), wherever the buffers live in memory ("never depends on where the caller's key buffers live").
 * KEYKIND u64: 8-byte binary-comparable keys: sign of the comparison of the two original integers.
 * memcmp on the key bytes is the libc contract over the ghost first-difference index D; on any other (short) buffers it is exact. */
#include "x_types.h"
#include "x_body.h"
#include "verif_models.h"
#include "spec_enc.h"
#define VERIF_CANARY(name) __CPROVER_assert(0, "canary: " name)
static const uint8_t *GA, *GB; uint64_t IN_D, IN_NA, IN_NB; uint8_t IN_aD, IN_bD; uint64_t IN_x, IN_y;
uint32_t X_memcmp(uint8_t *a, uint8_t *b, uint64_t n) {
  __CPROVER_assert(n == 0 || (__CPROVER_r_ok(a, n) && __CPROVER_r_ok(b, n)), "memcmp: both regions readable for n bytes");
  if (a == GA && b == GB && GA) { if (IN_D < n) { uint32_t mag = nondet_u32(); __CPROVER_assume(mag >= 1 && mag <= 255); return a[IN_D] < b[IN_D] ? (uint32_t)(-(int32_t)mag) : mag; } return 0; }
  __CPROVER_assert(n <= 16, "memcmp on anything but the key bytes is short");
  for (unsigned i = 0; i < 16; i++) if (i < n && a[i] != b[i]) return a[i] < b[i] ? (uint32_t)-1 : 1u;
  return 0;
}
#ifdef KEYKIND_KV
static void mk(uint8_t **pa, uint8_t **pb) {
  IN_NA = nondet_u64(); IN_NB = nondet_u64(); __CPROVER_assume(IN_NA <= (1ULL << 32) && IN_NB <= (1ULL << 32));
  uint8_t *a = malloc(IN_NA), *b = malloc(IN_NB); __CPROVER_assume(a && b); GA = a; GB = b;       /* two distinct buffers, anywhere in memory */
  uint64_t mn = IN_NA < IN_NB ? IN_NA : IN_NB;
  IN_D = nondet_u64(); __CPROVER_assume(IN_D <= mn && (IN_D == mn || a[IN_D] != b[IN_D]));
  if (IN_D < mn) { IN_aD = a[IN_D]; IN_bD = b[IN_D]; }
  *pa = a; *pb = b;
}
void h_cmp_key(void) {
  uint8_t *a, *b; mk(&a, &b);
  struct { uint8_t *p; uint64_t n; } self = {a, IN_NA};
  int32_t r = (int32_t)CMP_KEY((CMP_KEY_a0)&self, b, IN_NB);
  int want = spec_lex_cmp(a, IN_NA, b, IN_NB, IN_D);
  __CPROVER_assert((r < 0) == (want < 0) && (r > 0) == (want > 0), "C02: art_key.cmp(art_key) orders byte-string keys by their bytes, independent of buffer addresses");
  VERIF_CANARY("cmp(art_key) returns"); if (want == 0) VERIF_CANARY("equal keys in different buffers reachable");
}
void h_cmp_view(void) {
  uint8_t *a, *b; mk(&a, &b);
  struct { uint8_t *p; uint64_t n; } self = {a, IN_NA};
  int32_t r = (int32_t)CMP_VIEW((CMP_VIEW_a0)&self, b, IN_NB);
  int want = spec_lex_cmp(a, IN_NA, b, IN_NB, IN_D);
  __CPROVER_assert((r < 0) == (want < 0) && (r > 0) == (want > 0), "C02: art_key.cmp(key_view) orders byte-string keys by their bytes");
  VERIF_CANARY("cmp(key_view) returns");
}
#else
void h_cmp_key(void) {
  IN_x = nondet_u64(); IN_y = nondet_u64();
  uint64_t kx = 0, ky = 0; CTOR((CTOR_a0)&kx, IN_x); CTOR((CTOR_a0)&ky, IN_y);        /* the real constructor makes the key binary comparable */
  int32_t r = (int32_t)CMP_KEY((CMP_KEY_a0)&kx, ky);
  __CPROVER_assert((r < 0) == (IN_x < IN_y) && (r > 0) == (IN_x > IN_y), "C02: for 64-bit keys cmp has the sign of the integer comparison");
  VERIF_CANARY("cmp(art_key) returns");
}
void h_cmp_view(void) {
  IN_x = nondet_u64(); IN_y = nondet_u64();
  uint64_t kx = 0, ky = 0; CTOR((CTOR_a0)&kx, IN_x); CTOR((CTOR_a0)&ky, IN_y);
  int32_t r = (int32_t)CMP_VIEW((CMP_VIEW_a0)&kx, (uint8_t *)&ky, 8);
  __CPROVER_assert((r < 0) == (IN_x < IN_y) && (r > 0) == (IN_x > IN_y), "C02: cmp(key_view of an 8-byte key) has the sign of the integer comparison");
  VERIF_CANARY("cmp(key_view) returns");
}
#endif
