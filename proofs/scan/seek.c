/* C02: db<uint64_t>::iterator::seek, REAL code of the descent, MODULAR: the iterator stack (std::stack) is a ghost sequence with push/pop/top/empty
 * contracts; the per-node operations find_child / gte_key_byte / lte_key_byte / get_child are replaced by their contracts (discharged on all
 * four node classes by the node.* jobs) over an abstract node; left_/right_most_traversal and next()/prior() are replaced by recording contracts
 * (their own step proofs are the scan.iter.* jobs).  The descent loop is cut at its head.
 * Invariant: `node` is the subtree reached along the search key's path at depth d, remaining_key == k >> 8d, the stack is the path pushed so
 * far, match == false.  One iteration, all cases (NODEKIND 0 leaf / 1 inner node):
 *   leaf            push it; equal key: match, stay; forward: stay if the leaf is > k else step to the successor; reverse: dually
 *   prefix differs  key byte < prefix byte: every key below is greater: forward = left-most leaf of this subtree, reverse = left-most then predecessor;
 *                   key byte > prefix byte: forward = right-most then successor, reverse = right-most leaf
 *   child present   push (node, byte, handle, prefix), continue in exactly that child with the key shifted by prefix length + 1
 *   child absent    forward: least greater key byte exists -> push it and take the left-most leaf below it;
 *                   none (the bound "falls off" this node: everything below is smaller) -> the answer is the SUCCESSOR of the current
 *                   path, i.e. exactly one next() step on the unchanged stack  [this is where the pinned tree went wrong: it dropped the
 *                   parent entry and re-descended into the child it came from];   reverse: dually with lte / right-most / prior() */
#include "verif_rt.h"
static void base_(void *node_p, void *rk_p); static void head_(void *node_p, void *rk_p); static void back_(uint64_t node, uint64_t rk);
#define VERIF_LOOP_HEAD_SEEK_while_2ebody do { base_(&m_node, &m_remaining_key); VERIF_LOOP_HAVOC_SEEK_while_2ebody; head_(&m_node, &m_remaining_key); } while (0)
#define VERIF_LOOP_BACK_SEEK_while_2ebody back_(*(uint64_t *)&m_node, *(uint64_t *)&m_remaining_key)
#include "x_types.h"
#include "x_body.h"
#include "verif_models.h"
#include "layout.h"
#include "spec_prefix.h"
#define VERIF_CANARY(name) __CPROVER_assert(0, "canary: " name)
uint32_t X_memcmp(uint8_t *a, uint8_t *b, uint64_t n) { __CPROVER_assert(n == 8, "memcmp of two 8-byte keys"); for (unsigned i = 0; i < 8; i++) if (a[i] != b[i]) return a[i] < b[i] ? (uint32_t)-1 : 1u; return 0; }
/* ---- ghost stack */
struct ent { uint64_t node; uint8_t kb, h; uint64_t prefix; };
#define SMAX 8
static struct ent STK[SMAX]; static int SP; static uint8_t TOPBUF[LAY_ITER_SIZE];
static void put(uint8_t *r, struct ent e) { *(uint64_t *)(r + LAY_ITER_NODE) = e.node; r[LAY_ITER_KEY] = e.kb; r[LAY_ITER_INDEX] = e.h; *(uint64_t *)(r + LAY_ITER_PREFIX) = e.prefix; }
static struct ent get(const uint8_t *r) { struct ent e; e.node = *(const uint64_t *)(r + LAY_ITER_NODE); e.kb = r[LAY_ITER_KEY]; e.h = r[LAY_ITER_INDEX]; e.prefix = *(const uint64_t *)(r + LAY_ITER_PREFIX); return e; }
static _Bool ent_eq(struct ent a, struct ent b) { return a.node == b.node && a.kb == b.kb && a.h == b.h && a.prefix == b.prefix; }
_Bool EMPTY(EMPTY_a0 self) { return SP == 0; }
TOP_ret TOP(TOP_a0 self) { __CPROVER_assert(SP > 0, "top() only on a non-empty stack"); put(TOPBUF, STK[SP > 0 ? SP - 1 : 0]); return (TOP_ret)TOPBUF; }
void POP(POP_a0 self) { __CPROVER_assert(SP > 0, "pop() only on a non-empty stack"); if (SP > 0) SP--; }
static void push_(struct ent e) { __CPROVER_assert(SP < SMAX, "ghost stack large enough"); if (SP < SMAX) STK[SP++] = e; }
void PUSH_E(PUSH_E_a0 self, PUSH_E_a1 e) { push_(get((const uint8_t *)e)); }
void PUSH4(PUSH4_a0 self, PUSH4_a1 node, PUSH4_a2 kb, PUSH4_a3 h, PUSH4_a4 prefix) { struct ent e = {node, kb, h, prefix}; push_(e); }
void PUSH_LEAF(PUSH_LEAF_a0 self, PUSH_LEAF_a1 node) { struct ent e = {node, 0, 0, 0}; push_(e); }
INVALIDATE_ret INVALIDATE(INVALIDATE_a0 self) { SP = 0; return self; }
/* ---- recording contracts of the traversal helpers and of the successor / predecessor step */
static unsigned G_nsteps; static int G_step[3]; static uint64_t G_step_arg[3]; static int G_step_sp[3];        /* 1 LMT, 2 RMT, 3 next, 4 prior */
static void rec(int what, uint64_t arg) { __CPROVER_assert(G_nsteps < 3, "at most two chained steps"); if (G_nsteps < 3) { G_step[G_nsteps] = what; G_step_arg[G_nsteps] = arg; G_step_sp[G_nsteps] = SP; } G_nsteps++; }
LMT_ret LMT(LMT_a0 self, LMT_a1 node) { rec(1, node); return self; }
RMT_ret RMT(RMT_a0 self, RMT_a1 node) { rec(2, node); return self; }
NEXT_ret NEXT(NEXT_a0 self) { rec(3, 0); return self; }
PRIOR_ret PRIOR(PRIOR_a0 self) { rec(4, 0); return self; }
/* ---- abstract inner node: ghost results of its (separately proved) operations for the one key byte this step asks about */
uint64_t IN_k; unsigned IN_depth; _Bool IN_fwd; uint8_t IN_has_child, IN_has_sib; uint64_t IN_prefix; uint64_t IN_leafkey; int IN_sp0;
static uint64_t G_nodew, G_childw, G_sibchildw; static uint8_t G_b, G_h, G_sib_kb, G_sib_h; static uint64_t *G_childslot; static unsigned G_L;
static uint8_t *G_obj; static _Bool G_head_seen; static struct ent STK0[SMAX]; static uint8_t *G_matchp;
N_FIND_ret N_FIND(N_FIND_a0 self, N_FIND_a1 type, N_FIND_a2 b) {
  __CPROVER_assert((uint8_t *)self == G_obj && b == G_b, "find_child is asked for the search key's byte after the prefix, on this node");
  N_FIND_ret r; if (IN_has_child) { r.f0 = G_h; r.f1 = (void *)G_childslot; } else { r.f0 = 0xFF; r.f1 = 0; } return r;
}
static void sib(uint8_t *out, uint8_t b, int dir) {      /* contract of gte_key_byte / lte_key_byte when the byte itself is absent */
  __CPROVER_assert(!IN_has_child && b == G_b, "gte/lte_key_byte is asked only after find_child missed, for the same byte");
  if (IN_has_sib) { struct ent e = {G_nodew, G_sib_kb, G_sib_h, IN_prefix}; put(out, e); out[LAY_ITEROPT_ENGAGED] = 1; __CPROVER_assume(dir > 0 ? G_sib_kb > b : G_sib_kb < b); } else out[LAY_ITEROPT_ENGAGED] = 0;
}
void N_GTE(N_GTE_a0 out, N_GTE_a1 self, N_GTE_a2 type, N_GTE_a3 b) { __CPROVER_assert(IN_fwd, "gte_key_byte only in a forward seek"); sib((uint8_t *)out, b, +1); }
void N_LTE(N_LTE_a0 out, N_LTE_a1 self, N_LTE_a2 type, N_LTE_a3 b) { __CPROVER_assert(!IN_fwd, "lte_key_byte only in a reverse seek"); sib((uint8_t *)out, b, -1); }
N_GET_ret N_GET(N_GET_a0 self, N_GET_a1 type, N_GET_a2 h) {
  if ((uint8_t *)self == G_obj && IN_has_sib && !IN_has_child && h == G_sib_h) return G_sibchildw;
  return nondet_u64();                                  /* any other node / handle (ancestors on the stack): unconstrained */
}
void N_NEXT(N_NEXT_a0 out, N_NEXT_a1 self, N_NEXT_a2 type, N_NEXT_a3 h) { uint8_t *o = (uint8_t *)out; struct ent e = {nondet_u64(), nondet_u8(), nondet_u8(), nondet_u64()}; put(o, e); o[LAY_ITEROPT_ENGAGED] = nondet_bool(); }   /* ancestors are abstract */
void N_PRIOR(N_PRIOR_a0 out, N_PRIOR_a1 self, N_PRIOR_a2 type, N_PRIOR_a3 h) { uint8_t *o = (uint8_t *)out; struct ent e = {nondet_u64(), nondet_u8(), nondet_u8(), nondet_u64()}; put(o, e); o[LAY_ITEROPT_ENGAGED] = nondet_bool(); }
/* ---- node_ptr: concrete words over materialised objects (one leaf or one inner-node header) */
static uint8_t *G_anc;    /* an opaque ancestor header object for ptr() of stack entries (only handed to abstract node operations) */
PTR_LEAF_ret PTR_LEAF(PTR_LEAF_a0 self) { __CPROVER_assert(*(uint64_t *)self == G_nodew, "leaf ptr() only of the node under the loop"); return (PTR_LEAF_ret)G_obj; }
PTR_INODE_ret PTR_INODE(PTR_INODE_a0 self) { return (PTR_INODE_ret)(*(uint64_t *)self == G_nodew ? G_obj : G_anc); }
static inline uint8_t kbyte(uint64_t k, unsigned i) { return i < 8 ? (uint8_t)(k >> (8 * i)) : 0; }
static uint64_t G_root;
static void base_(void *node_p, void *rk_p) {
  __CPROVER_assert(*(uint64_t *)node_p == G_root && *(uint64_t *)rk_p == IN_k && SP == 0 && !*G_matchp, "loop invariant holds on entry (base): node = root, remaining key = k, empty stack, match = false");
}
static void head_(void *node_p, void *rk_p) {
  G_head_seen = 1;
  IN_depth = nondet_uint(); __CPROVER_assume(IN_depth < 8);
  *(uint64_t *)rk_p = IN_k >> (8 * IN_depth);
  IN_sp0 = nondet_int(); __CPROVER_assume(IN_sp0 >= 0 && IN_sp0 <= 5); SP = IN_sp0;
  for (int i = 0; i < SMAX; i++) { STK[i].node = nondet_u64(); STK[i].kb = nondet_u8(); STK[i].h = nondet_u8(); STK[i].prefix = nondet_u64(); STK0[i] = STK[i]; }
  *G_matchp = 0;
#if NODEKIND == 0
  G_obj = malloc(LAY_DB64_LEAF_DATA + 8 + 4); __CPROVER_assume(G_obj != 0); *(uint32_t *)(G_obj + LAY_DB64_LEAF_KEYSIZE) = 8; IN_leafkey = *(uint64_t *)(G_obj + LAY_DB64_LEAF_DATA);
  G_nodew = ((uint64_t)1 << 3) | 0;
#else
  { __typeof__(*(N_FIND_a0)0) *t = malloc(sizeof(*t)); __CPROVER_assume(t != 0); G_obj = (uint8_t *)t; }
  IN_prefix = *(uint64_t *)(G_obj + LAY_DB64_I4_PREFIX); __CPROVER_assume(kp_wf(IN_prefix) && IN_depth + kp_len(IN_prefix) < 8);
  G_L = kp_len(IN_prefix); G_b = kbyte(IN_k, IN_depth + G_L);
  G_nodew = ((uint64_t)1 << 3) | (1 + nondet_uint() % 4);
  IN_has_child = nondet_bool(); IN_has_sib = nondet_bool(); G_h = nondet_u8(); G_sib_kb = nondet_u8(); G_sib_h = nondet_u8(); G_childw = nondet_u64(); G_sibchildw = nondet_u64();
  __CPROVER_assume(G_childw != 0 && G_sibchildw != 0);
  G_childslot = malloc(8); __CPROVER_assume(G_childslot != 0); *G_childslot = G_childw;
#endif
  *(uint64_t *)node_p = G_nodew;
}
static void back_(uint64_t node, uint64_t rk) {
#if NODEKIND == 1
  unsigned shared = 0; while (shared < G_L && kbyte(IN_k, IN_depth + shared) == kp_byte(IN_prefix, shared)) shared++;
  __CPROVER_assert(shared == G_L && IN_has_child, "loop invariant preserved (step): the descent continues only when the prefix matches and the key byte has a child");
  struct ent e = {G_nodew, G_b, G_h, IN_prefix};
  __CPROVER_assert(SP == IN_sp0 + 1 && ent_eq(STK[IN_sp0], e), "loop invariant preserved (step): exactly (node, key byte, handle, prefix snapshot) is pushed");
  for (int i = 0; i < SMAX; i++) if (i < IN_sp0) __CPROVER_assert(ent_eq(STK[i], STK0[i]), "the path pushed so far is untouched");
  __CPROVER_assert(node == G_childw && rk == ((IN_depth + G_L + 1) >= 8 ? 0 : IN_k >> (8 * (IN_depth + G_L + 1))), "loop invariant preserved (step): continues in exactly that child, remaining key shifted by prefix length + 1");
  __CPROVER_assert(G_nsteps == 0 && !*G_matchp, "no traversal or step yet, match still false");
  VERIF_CANARY("descent reachable");
#else
  __CPROVER_assert(0, "a leaf is never descended into");
#endif
  __CPROVER_assume(0);
}
void harness(void) {
  SEEK_a0 it = malloc(sizeof(*it)); __CPROVER_assume(it != 0); G_anc = malloc(16); __CPROVER_assume(G_anc != 0);
  uint8_t *itb = (uint8_t *)it; uint8_t *dbobj = malloc(LAY_DB64_DB_SIZE); __CPROVER_assume(dbobj != 0);
  *(uint8_t **)(itb + LAY_ITERATOR_DB) = dbobj;
  IN_k = nondet_u64(); IN_fwd = nondet_bool(); G_root = nondet_u64(); __CPROVER_assume(G_root != 0); *(uint64_t *)(dbobj + LAY_DB64_DB_ROOT) = G_root;
  _Bool match = nondet_bool(); G_matchp = (uint8_t *)&match; SP = nondet_int(); __CPROVER_assume(SP >= 0 && SP <= 3);    /* a stale stack from an earlier use */
  SEEK_ret r = SEEK(it, IN_k, (SEEK_a2)&match, IN_fwd);
  __CPROVER_assert(r == it && G_head_seen, "returns *this; non-empty tree: the loop is entered");
  for (int i = 0; i < SMAX; i++) if (i < IN_sp0) __CPROVER_assert(ent_eq(STK[i], STK0[i]), "the path pushed before this node is untouched by this step");
#if NODEKIND == 0
  __CPROVER_assert(SP == IN_sp0 + 1 && STK[IN_sp0].node == G_nodew, "leaf: it is pushed");
  /* internal keys are byte-reversed integers: byte-wise order of the 8 key bytes */
  int c = 0; for (unsigned i = 0; i < 8; i++) if (c == 0 && kbyte(IN_k, i) != kbyte(IN_leafkey, i)) c = kbyte(IN_k, i) < kbyte(IN_leafkey, i) ? -1 : 1;     /* sign of k - leaf key */
  __CPROVER_assert(match == (c == 0), "C02 seek: match reports an exact hit");
  if (c == 0 || (IN_fwd && c < 0) || (!IN_fwd && c > 0)) __CPROVER_assert(G_nsteps == 0, "C02 seek: the leaf itself is the answer (equal, or on the requested side of the bound)");
  else __CPROVER_assert(G_nsteps == 1 && G_step[0] == (IN_fwd ? 3 : 4) && G_step_sp[0] == IN_sp0 + 1, "C02 seek: otherwise exactly one successor (forward) / predecessor (reverse) step from this leaf");
  VERIF_CANARY("leaf case reachable");
#else
  unsigned shared = 0; while (shared < G_L && kbyte(IN_k, IN_depth + shared) == kp_byte(IN_prefix, shared)) shared++;
  __CPROVER_assert(!match, "no exact hit without reaching a leaf");
  if (shared < G_L) {
    _Bool key_lt = kbyte(IN_k, IN_depth + shared) < kp_byte(IN_prefix, shared);
    __CPROVER_assert(SP == IN_sp0 && G_nsteps >= 1 && G_step_arg[0] == G_nodew && G_step_sp[0] == IN_sp0, "prefix mismatch: a traversal of THIS subtree starts from the unchanged path");
    if (IN_fwd && key_lt) __CPROVER_assert(G_nsteps == 1 && G_step[0] == 1, "C02 seek: key < prefix, forward: the left-most leaf of this subtree");
    else if (IN_fwd) __CPROVER_assert(G_nsteps == 2 && G_step[0] == 2 && G_step[1] == 3, "C02 seek: key > prefix, forward: right-most leaf of this subtree, then its successor");
    else if (key_lt) __CPROVER_assert(G_nsteps == 2 && G_step[0] == 1 && G_step[1] == 4, "C02 seek: key < prefix, reverse: left-most leaf of this subtree, then its predecessor");
    else __CPROVER_assert(G_nsteps == 1 && G_step[0] == 2, "C02 seek: key > prefix, reverse: the right-most leaf of this subtree");
    VERIF_CANARY("prefix mismatch reachable");
  } else {
    __CPROVER_assert(!IN_has_child, "a present child is descended into (loop continues)");
    if (IN_has_sib) {
      struct ent e = {G_nodew, G_sib_kb, G_sib_h, IN_prefix};
      __CPROVER_assert(SP == IN_sp0 + 1 && ent_eq(STK[IN_sp0], e), "C02 seek: the least greater (greatest smaller) key byte of this node is pushed");
      __CPROVER_assert(G_nsteps == 1 && G_step[0] == (IN_fwd ? 1 : 2) && G_step_arg[0] == G_sibchildw && G_step_sp[0] == IN_sp0 + 1, "C02 seek: ... and the left-most (right-most) leaf below that child is taken");
      VERIF_CANARY("sibling inside the node reachable");
    } else {
      __CPROVER_assert(SP == IN_sp0, "C02 seek fall-off: the path to this node is left exactly as it is");
      __CPROVER_assert(G_nsteps == 1 && G_step[0] == (IN_fwd ? 3 : 4) && G_step_sp[0] == IN_sp0, "C02 seek fall-off: everything below this node is on the wrong side of the bound, so the answer is exactly the successor (predecessor) step from the current path");
      VERIF_CANARY("fall-off reachable");
    }
  }
#endif
  VERIF_CANARY("seek returns");
}
