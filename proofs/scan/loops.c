/* C02: db<uint64_t>::scan / scan_from / scan_range, REAL code of the three scan drivers (conversion of the bounds to internal keys,
 * basic_art_key::cmp, direction choice, the visitor loops), MODULAR over the iterator: first/last/next/prior/seek/valid/cmp are replaced by
 * their contracts over the abstract content of the index, an ascending sequence of entries E[0..N) (N arbitrary):
 *     position p in [-1, N]: valid iff 0 <= p < N;  first: p = 0;  last: p = N-1;  next: p+1;  prior: p-1;
 *     seek(k, fwd): p = least index with E[p] >= k  (fwd)  /  greatest index with E[p] <= k  (reverse);   cmp(k) = sign(E[p] - k)
 * (the iterator's own contracts against the tree are separate jobs).  The entry keys are abstract: only their order relative to the two
 * bounds matters, so E is represented by the ghost cut points  A = #entries < from,  A2 = #entries <= from,  B = #entries < to,  B2 = #entries <= to.
 * The visitor is an opaque callback: it records the position it is shown and halts nondeterministically.
 * Each visitor loop is cut at its head.  Invariant: not halted, the iterator stands on the next position due (start + dir * calls so far).
 * Obligations (from the property statement): the visitor is called exactly once per position of the requested interval, consecutively in
 * the scan direction, starting at the first position of the interval; nothing is visited outside it; no call after the visitor returned
 * true; when the loop ends without a halt the interval is exhausted; scan_range with equal bounds visits nothing. */
#include "verif_rt.h"
static void head_(const char *unused); static void back_(const char *unused);
#define VERIF_LOOP_HEAD_SCAN_while_2econd do { VERIF_LOOP_HAVOC_SCAN_while_2econd; head_(0); } while (0)
#define VERIF_LOOP_BACK_SCAN_while_2econd back_(0)
#if LOOPTWO == 13
#define VERIF_LOOP_HEAD_SCAN_while_2econd13 do { VERIF_LOOP_HAVOC_SCAN_while_2econd13; head_(0); } while (0)
#define VERIF_LOOP_BACK_SCAN_while_2econd13 back_(0)
#elif LOOPTWO == 17
#define VERIF_LOOP_HEAD_SCAN_while_2econd17 do { VERIF_LOOP_HAVOC_SCAN_while_2econd17; head_(0); } while (0)
#define VERIF_LOOP_BACK_SCAN_while_2econd17 back_(0)
#elif LOOPTWO == 29
#define VERIF_LOOP_HEAD_SCAN_while_2econd29 do { VERIF_LOOP_HAVOC_SCAN_while_2econd29; head_(0); } while (0)
#define VERIF_LOOP_BACK_SCAN_while_2econd29 back_(0)
#endif
#include "x_types.h"
#include "x_body.h"
#include "verif_models.h"
#define VERIF_CANARY(name) __CPROVER_assert(0, "canary: " name)
uint64_t IN_from, IN_to; _Bool IN_fwd; int64_t IN_N, IN_A, IN_A2, IN_B, IN_B2;
static int64_t G_pos; static _Bool G_positioned; static void *G_it;
static int64_t G_start, G_end_excl; static int G_dir;          /* expected interval of positions: start, start+dir, ... up to but excluding end */
static int64_t G_calls; static _Bool G_halted, G_cut;
uint32_t X_memcmp(uint8_t *a, uint8_t *b, uint64_t n) { __CPROVER_assert(n == 8, "memcmp of two 8-byte keys"); for (unsigned i = 0; i < 8; i++) if (a[i] != b[i]) return a[i] < b[i] ? (uint32_t)-1 : 1u; return 0; }
/* ---- iterator contracts */
void ITER_CTOR(ITER_CTOR_a0 self, ITER_CTOR_a1 db) { G_it = self; G_positioned = 0; }
void ITER_DTOR(ITER_DTOR_a0 self) { }
ITER_FIRST_ret ITER_FIRST(ITER_FIRST_a0 self) { __CPROVER_assert(self == G_it, "iterator identity"); G_pos = 0; G_positioned = 1; return self; }
ITER_LAST_ret ITER_LAST(ITER_LAST_a0 self) { G_pos = IN_N - 1; G_positioned = 1; return self; }
ITER_NEXT_ret ITER_NEXT(ITER_NEXT_a0 self) { __CPROVER_assert(G_positioned && G_pos >= 0 && G_pos < IN_N, "next() only on a valid iterator"); G_pos++; return self; }
ITER_PRIOR_ret ITER_PRIOR(ITER_PRIOR_a0 self) { __CPROVER_assert(G_positioned && G_pos >= 0 && G_pos < IN_N, "prior() only on a valid iterator"); G_pos--; return self; }
ITER_SEEK_ret ITER_SEEK(ITER_SEEK_a0 self, ITER_SEEK_a1 key, ITER_SEEK_a2 match, ITER_SEEK_a3 fwd) {
  uint64_t internal_from = __builtin_bswap64(IN_from);
  __CPROVER_assert((uint64_t)key == internal_from, "seek is given the binary-comparable form of the from bound");
  G_pos = fwd ? IN_A : IN_A2 - 1; G_positioned = 1; *(_Bool *)match = (IN_A2 > IN_A); return self;
}
_Bool ITER_VALID(ITER_VALID_a0 self) { return G_positioned && G_pos >= 0 && G_pos < IN_N; }
uint32_t ITER_CMP(ITER_CMP_a0 self, ITER_CMP_a1 key) {
  __CPROVER_assert(G_positioned && G_pos >= 0 && G_pos < IN_N, "cmp() only on a valid iterator");
  __CPROVER_assert((uint64_t)key == __builtin_bswap64(IN_to), "the loop compares against the binary-comparable form of the to bound");
  if (G_pos < IN_B) return (uint32_t)-1; if (G_pos < IN_B2) return 0; return 1;
}
void VISITOR_CTOR(VISITOR_CTOR_a0 self, VISITOR_CTOR_a1 it) { __CPROVER_assert(it == G_it, "the visitor shows the scan's iterator"); }
/* ---- the opaque visitor */
_Bool X_verif_visit(uint8_t *visitor) {
  __CPROVER_assert(!G_halted, "C02: no visitor call after the visitor returned true");
  __CPROVER_assert(G_pos >= 0 && G_pos < IN_N, "C02: the visitor is only shown existing entries");
  __CPROVER_assert(G_pos == G_start + G_dir * G_calls, "C02: entries are presented consecutively in the scan direction, each exactly once, starting at the first entry of the interval");
  __CPROVER_assert(G_dir > 0 ? G_pos < G_end_excl : G_pos > G_end_excl, "C02: nothing outside the requested interval is presented");
  G_calls++; G_halted = nondet_bool(); return G_halted;
}
static void head_(const char *unused) {   /* arbitrary state satisfying the invariant */
  G_cut = 1; G_calls = nondet_u64(); __CPROVER_assume(G_calls >= 0 && G_calls <= IN_N + 1);
  G_pos = G_start + G_dir * G_calls; G_halted = 0; G_positioned = 1;
  __CPROVER_assume(G_dir > 0 ? G_pos <= G_end_excl : G_pos >= G_end_excl);      /* everything presented so far lies inside the interval */
}
static void back_(const char *unused) {
  __CPROVER_assert(!G_halted && G_pos == G_start + G_dir * G_calls, "loop invariant preserved (step): not halted, iterator on the next position due");
  __CPROVER_assert(G_dir > 0 ? G_pos <= G_end_excl : G_pos >= G_end_excl, "loop invariant preserved (step): still inside the interval (or just at its end)");
  __CPROVER_assume(0);
}
static void setup(void) {
  IN_N = nondet_u64(); IN_A = nondet_u64(); IN_A2 = nondet_u64(); IN_B = nondet_u64(); IN_B2 = nondet_u64();
  __CPROVER_assume(IN_N >= 0 && IN_N < (1LL << 40) && 0 <= IN_A && IN_A <= IN_A2 && IN_A2 <= IN_N && IN_A2 <= IN_A + 1 && 0 <= IN_B && IN_B <= IN_B2 && IN_B2 <= IN_N && IN_B2 <= IN_B + 1);
  IN_from = nondet_u64(); IN_to = nondet_u64();
  /* the cut points are consistent with the order of the two bounds (E ascending, distinct keys) */
  if (IN_from < IN_to) __CPROVER_assume(IN_A2 <= IN_B); else if (IN_from > IN_to) __CPROVER_assume(IN_B2 <= IN_A); else __CPROVER_assume(IN_A == IN_B && IN_A2 == IN_B2);
}
static void finish(void) {
  if (!G_halted) __CPROVER_assert(G_dir > 0 ? G_start + G_calls >= G_end_excl : G_start - G_calls <= G_end_excl, "C02: a scan that is not halted presents every entry of the interval (completeness)");
  VERIF_CANARY("scan returns"); if (G_calls > 0 && G_cut) VERIF_CANARY("visits reachable"); if (G_halted) VERIF_CANARY("early halt reachable");
}
#if LOOPTWO == 13
void h_scan(void) {
  setup(); IN_fwd = nondet_bool(); G_dir = IN_fwd ? 1 : -1; G_start = IN_fwd ? 0 : IN_N - 1; G_end_excl = IN_fwd ? IN_N : -1;
  uint8_t db[8]; SCAN((SCAN_a0)db, IN_fwd); finish();
}
#elif LOOPTWO == 17
void h_scan_from(void) {
  setup(); IN_fwd = nondet_bool(); G_dir = IN_fwd ? 1 : -1; G_start = IN_fwd ? IN_A : IN_A2 - 1; G_end_excl = IN_fwd ? IN_N : -1;   /* bound included */
  uint8_t db[8]; SCAN((SCAN_a0)db, IN_from, IN_fwd); finish();
}
#else
void h_scan_range(void) {
  setup();
  if (IN_from < IN_to) { G_dir = 1; G_start = IN_A; G_end_excl = IN_B; }            /* [from, to) ascending */
  else { G_dir = -1; G_start = IN_A2 - 1; G_end_excl = IN_B2 - 1; }                /* (to, from] descending */
  uint8_t db[8]; SCAN((SCAN_a0)db, IN_from, IN_to);
  if (IN_from == IN_to) __CPROVER_assert(G_calls == 0 && !G_cut, "C02: scan_range with equal bounds presents nothing");
  else finish();
  VERIF_CANARY("scan_range returns");
}
#endif
