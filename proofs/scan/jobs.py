# C02: comparison, scan loops, iterator steps
SPAN = r'std::span<std::byte const, \d+ul>'
AK = {'kv': r'^unodb::detail::basic_art_key<%s >::' % SPAN, 'u64': r'^unodb::detail::basic_art_key<unsigned long>::'}
for kk in ('kv', 'u64'):
    roots = {'CMP_KEY': AK[kk] + r'cmp\(unodb::detail::basic_art_key<', 'CMP_VIEW': AK[kk] + r'cmp\(%s\) const' % SPAN}
    if kk == 'u64': roots['CTOR'] = AK[kk] + r'basic_art_key\(unsigned long\)'
    for h in ('h_cmp_key', 'h_cmp_view'):
        job('scan.cmp.%s.%s' % (kk, h[2:]), ['C02'], 'u_db', 'proofs/scan/cmp.c', entry=h, defines=['KEYKIND_' + kk.upper()], roots=roots, cfgs=(BASE, DEBUG), unwind=20, floor=5, timeout=300,
            under_contract=['basic_art_key<%s>::cmp(%s)' % (kk, 'basic_art_key' if 'key' in h else 'key_view')], replay='replay/cmp.cpp',
            trusted=['memcmp: libc contract stated over the ghost first-difference index'])
D64 = r'unodb::db<unsigned long, %s >::' % SPAN
IT = r'^' + D64 + r'iterator::'
ITSTUBS = {'ITER_CTOR': IT + r'iterator\(', 'ITER_DTOR': IT + r'~iterator\(\)', 'ITER_FIRST': IT + r'first\(\)', 'ITER_LAST': IT + r'last\(\)', 'ITER_NEXT': IT + r'next\(\)', 'ITER_PRIOR': IT + r'prior\(\)',
           'ITER_SEEK': IT + r'seek\(', 'ITER_VALID': IT + r'valid\(\) const', 'ITER_CMP': IT + r'cmp\(', 'VISITOR_CTOR': r'^unodb::visitor<' + D64 + r'iterator>::visitor\('}
for h, fn, l2 in (('h_scan', 'scan<', 13), ('h_scan_from', 'scan_from<', 17), ('h_scan_range', 'scan_range<', 29)):
    job('scan.loops.u64.%s' % h[2:], ['C02'], 'u_db', 'proofs/scan/loops.c', entry=h, defines=['LOOPTWO=%d' % l2], roots={'SCAN': r'^void ' + D64 + fn}, stubs=ITSTUBS, cfgs=(BASE, DEBUG), unwind=10, floor=10, timeout=300,
        cut=['SCAN/while_2econd', 'SCAN/while_2econd%d' % l2], under_contract=['db<uint64_t>::%s (visitor loops, direction and bounds)' % fn.rstrip('<')],
        trusted=['iterator contracts over an abstract ascending sequence (the iterator itself is proved separately / not covered: see level_note)'])
IMPL = r'^unodb::detail::basic_inode_impl<unodb::detail::basic_art_policy<unsigned long, %s, unodb::db, .*>::' % SPAN
NP = r'^auto\* unodb::detail::basic_node_ptr<unodb::detail::node_header>::ptr<unodb::detail::'
SEEK_STUBS = {'EMPTY': IT + r'empty\(\) const', 'TOP': IT + r'top\(\) const', 'POP': IT + r'pop\(\)', 'PUSH_E': IT + r'push\(unodb::detail::iter_result', 'PUSH4': IT + r'push\(unodb::detail::basic_node_ptr',
              'PUSH_LEAF': IT + r'push_leaf\(', 'INVALIDATE': IT + r'invalidate\(\)', 'LMT': IT + r'left_most_traversal\(', 'RMT': IT + r'right_most_traversal\(', 'NEXT': IT + r'next\(\)', 'PRIOR': IT + r'prior\(\)',
              'N_NEXT': IMPL + r'next\(unodb::node_type, unsigned char\)', 'N_PRIOR': IMPL + r'prior\(unodb::node_type, unsigned char\)', 'N_GTE': IMPL + r'gte_key_byte\(unodb::node_type, std::byte\)',
              'N_LTE': IMPL + r'lte_key_byte\(unodb::node_type, std::byte\)', 'N_FIND': IMPL + r'find_child\(unodb::node_type, std::byte\)', 'N_GET': IMPL + r'get_child\(unodb::node_type, unsigned char\)',
              'PTR_LEAF': NP + r'basic_leaf<unsigned long, unodb::detail::node_header>\*>\(\) const', 'PTR_INODE': NP + r'inode<unsigned long, %s >\*>\(\) const' % SPAN}
for nk in (0, 1):
    job('scan.iter.u64.seek.k%d' % nk, ['C02'], 'u_db', 'proofs/scan/seek.c', defines=['NODEKIND=%d' % nk], roots={'SEEK': IT + r'seek\('}, stubs=SEEK_STUBS, cut=['SEEK/while_2ebody'], cfgs=(BASE, DEBUG),
        unwind=12, floor=20, timeout=600, replay='replay/seek.cpp', under_contract=['db<uint64_t>::iterator::seek (descent step at a %s)' % ('leaf' if nk == 0 else 'inner node')],
        bounded=None, trusted=['std::stack replaced by a ghost sequence contract', 'ordering consequence of the structural postconditions (two-probe lemma over path consistency and ascending child enumeration) is not mechanised'])

# ---- iterator steps: next / prior / left-most / right-most traversal / first / last (glue over the node enumeration contracts and the ghost stack)
STEP_STUBS = {k + '?': v for k, v in SEEK_STUBS.items() if k not in ('N_GTE', 'N_LTE', 'N_FIND', 'PUSH4', 'NEXT', 'PRIOR')}
STEP_STUBS.update({'N_BEGIN?': IMPL + r'begin\(unodb::node_type\)', 'N_LAST?': IMPL + r'last\(unodb::node_type\)'})
for f, alias, rx, label in (('lmt', 'LMT', r'left_most_traversal\(', 'while_2ebody'), ('rmt', 'RMT', r'right_most_traversal\(', 'while_2ebody'), ('next', 'NEXT', r'next\(\)', 'while_2econd'),
                            ('prior', 'PRIOR', r'prior\(\)', 'while_2econd'), ('first', 'FIRST', r'first\(\)', None), ('last', 'LAST', r'last\(\)', None)):
    for nk in (((9, 0, 1) if f in ('lmt', 'rmt') else (0, 1)) if label else (0,)):     # next / prior start at their loop head: no separate entry proof
        stubs = {k: v for k, v in STEP_STUBS.items() if k != alias + '?'}
        job('scan.iter.u64.%s.k%d' % (f, nk), ['C02'], 'u_db', 'proofs/scan/step.c', defines=['NODEKIND=%d' % nk, 'FUNC_%s=1' % alias], roots={alias: IT + rx}, stubs=stubs,
            cut=(['%s/%s' % (alias, label)] if label else []), cfgs=(BASE, DEBUG), unwind=12, floor=3, timeout=300, memsafe=False,
            under_contract=['db<uint64_t>::iterator::%s (%s)' % (rx.split('\\')[0], 'entry' if nk == 9 else 'step at a leaf' if nk == 0 and label else 'step at an inner node' if label else 'straight-line')],
            trusted=['std::stack replaced by a ghost sequence contract', 'node enumeration operations by contract (proved in node.db64.*)', 'ordering consequence of the structural postconditions is not mechanised'])
