# C02: comparison, scan loops, iterator steps
SPAN = r'std::span<std::byte const, \d+ul>'
AK = {'kv': r'^unodb::detail::basic_art_key<%s >::' % SPAN, 'u64': r'^unodb::detail::basic_art_key<unsigned long>::'}
for kk in ('kv', 'u64'):
    roots = {'CMP_KEY': AK[kk] + r'cmp\(unodb::detail::basic_art_key<', 'CMP_VIEW': AK[kk] + r'cmp\(%s\) const' % SPAN}
    if kk == 'u64': roots['CTOR'] = AK[kk] + r'basic_art_key\(unsigned long\)'
    for h in ('h_cmp_key', 'h_cmp_view'):
        job('scan.cmp.%s.%s' % (kk, h[2:]), ['C02'], 'u_db', 'proofs/scan/cmp.c', entry=h, defines=['KEYKIND_' + kk.upper()], roots=roots, cfgs=(BASE, DEBUG), unwind=20, floor=5, timeout=300,
            under_contract=['basic_art_key<%s>::cmp(%s)' % (kk, 'basic_art_key' if 'key' in h else 'key_view')], replay='replay/cmp.cpp',
            trusted=['memcmp: libc contract stated over the ghost first-difference index'])
D64 = r'unodb::db<unsigned long, %s >::' % SPAN
IT = r'^' + D64 + r'iterator::'
ITSTUBS = {'ITER_CTOR': IT + r'iterator\(', 'ITER_DTOR': IT + r'~iterator\(\)', 'ITER_FIRST': IT + r'first\(\)', 'ITER_LAST': IT + r'last\(\)', 'ITER_NEXT': IT + r'next\(\)', 'ITER_PRIOR': IT + r'prior\(\)',
           'ITER_SEEK': IT + r'seek\(', 'ITER_VALID': IT + r'valid\(\) const', 'ITER_CMP': IT + r'cmp\(', 'VISITOR_CTOR': r'^unodb::visitor<' + D64 + r'iterator>::visitor\('}
for h, fn, l2 in (('h_scan', 'scan<', 13), ('h_scan_from', 'scan_from<', 17), ('h_scan_range', 'scan_range<', 29)):
    job('scan.loops.u64.%s' % h[2:], ['C02'], 'u_db', 'proofs/scan/loops.c', entry=h, defines=['LOOPTWO=%d' % l2], roots={'SCAN': r'^void ' + D64 + fn}, stubs=ITSTUBS, cfgs=(BASE, DEBUG), unwind=10, floor=10, timeout=300,
        cut=['SCAN/while_2econd', 'SCAN/while_2econd%d' % l2], under_contract=['db<uint64_t>::%s (visitor loops, direction and bounds)' % fn.rstrip('<')],
        trusted=['iterator contracts over an abstract ascending sequence (the iterator itself is proved separately / not covered: see level_note)'])
