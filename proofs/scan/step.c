/* C02: db<uint64_t>::iterator::next / prior / left_most_traversal / right_most_traversal / first / last, REAL code of each, MODULAR as seek.c:
 * the iterator stack is a ghost sequence with push / pop / top / empty contracts, the per-node operations begin / last / next / prior / get_child
 * are replaced by their contracts (discharged on all four node classes by the node.* jobs) over an abstract node, and calls from one of these
 * functions into another are replaced by recording contracts.  The stack is the path root -> ... -> current position; entry = (node, key byte,
 * child handle, prefix snapshot).  Every loop is cut at its head.
 *   left-most (right-most) traversal of `node`: invariant: node != null, stack = S0 ++ the entries pushed so far.  Step: a leaf is pushed and the
 *       traversal ends; at an inner node EXACTLY the entry begin() (last()) returns - the least (greatest) key byte - is pushed and the descent
 *       continues in EXACTLY the child that entry designates.
 *   next (prior): invariant: the stack is a path.  Step on the top entry: a leaf is popped; an inner node whose child enumeration has nothing
 *       after (before) the recorded handle is popped; otherwise the top entry is REPLACED by the entry next() (prior()) returns for the recorded
 *       handle on the recorded node and the result is the left-most (right-most) traversal of exactly that child.  Empty stack: end().
 *   first (last): stack cleared; empty tree: end(); otherwise the left-most (right-most) traversal of the root.
 * Together with the node-level enumeration contracts this is the in-order successor / predecessor on paths (the ordering consequence is the
 * two-probe lemma of seek.c, not mechanised). */
#include "verif_rt.h"
static void base_(void *node_p); static void head_(void *node_p); static void back_(void *node_p);
#if defined(FUNC_LMT)
#define VERIF_LOOP_HEAD_LMT_while_2ebody do { base_(&m_node); VERIF_LOOP_HAVOC_LMT_while_2ebody; head_(&m_node); } while (0)
#define VERIF_LOOP_BACK_LMT_while_2ebody back_(&m_node)
#elif defined(FUNC_RMT)
#define VERIF_LOOP_HEAD_RMT_while_2ebody do { base_(&m_node); VERIF_LOOP_HAVOC_RMT_while_2ebody; head_(&m_node); } while (0)
#define VERIF_LOOP_BACK_RMT_while_2ebody back_(&m_node)
#elif defined(FUNC_NEXT)
#define VERIF_LOOP_HEAD_NEXT_while_2econd do { base_(0); VERIF_LOOP_HAVOC_NEXT_while_2econd; head_(0); } while (0)
#define VERIF_LOOP_BACK_NEXT_while_2econd back_(0)
#elif defined(FUNC_PRIOR)
#define VERIF_LOOP_HEAD_PRIOR_while_2econd do { base_(0); VERIF_LOOP_HAVOC_PRIOR_while_2econd; head_(0); } while (0)
#define VERIF_LOOP_BACK_PRIOR_while_2econd back_(0)
#endif
#include "x_types.h"
#include "x_body.h"
#include "verif_models.h"
#include "layout.h"
#define VERIF_CANARY(name) __CPROVER_assert(0, "canary: " name)
/* ---- ghost stack */
struct ent { uint64_t node; uint8_t kb, h; uint64_t prefix; };
#define SMAX 10
static struct ent STK[SMAX], STK0[SMAX]; static int SP, SP0; static uint8_t TOPBUF[LAY_ITER_SIZE];
static void put(uint8_t *r, struct ent e) { *(uint64_t *)(r + LAY_ITER_NODE) = e.node; r[LAY_ITER_KEY] = e.kb; r[LAY_ITER_INDEX] = e.h; *(uint64_t *)(r + LAY_ITER_PREFIX) = e.prefix; }
static struct ent get(const uint8_t *r) { struct ent e; e.node = *(const uint64_t *)(r + LAY_ITER_NODE); e.kb = r[LAY_ITER_KEY]; e.h = r[LAY_ITER_INDEX]; e.prefix = *(const uint64_t *)(r + LAY_ITER_PREFIX); return e; }
static _Bool ent_eq(struct ent a, struct ent b) { return a.node == b.node && a.kb == b.kb && a.h == b.h && a.prefix == b.prefix; }
#ifdef HAVE_EMPTY
_Bool EMPTY(EMPTY_a0 self) { return SP == 0; }
#endif
#ifdef HAVE_TOP
TOP_ret TOP(TOP_a0 self) { __CPROVER_assert(SP > 0, "top() only on a non-empty stack"); put(TOPBUF, STK[SP > 0 ? SP - 1 : 0]); return (TOP_ret)TOPBUF; }
#endif
#ifdef HAVE_POP
void POP(POP_a0 self) { __CPROVER_assert(SP > 0, "pop() only on a non-empty stack"); if (SP > 0) SP--; }
#endif
static void push_(struct ent e) { __CPROVER_assert(SP < SMAX, "ghost stack large enough"); if (SP < SMAX) STK[SP++] = e; }
#ifdef HAVE_PUSH_E
void PUSH_E(PUSH_E_a0 self, PUSH_E_a1 e) { push_(get((const uint8_t *)e)); }
#endif
#ifdef HAVE_PUSH_LEAF
void PUSH_LEAF(PUSH_LEAF_a0 self, PUSH_LEAF_a1 node) { struct ent e = {node, 0xFF, 0xFF, 0}; push_(e); }
#endif
#ifdef HAVE_INVALIDATE
INVALIDATE_ret INVALIDATE(INVALIDATE_a0 self) { SP = 0; return self; }
#endif
/* ---- recording contracts of calls into the other iterator functions */
static unsigned G_ncalls; static int G_call; static uint64_t G_call_arg; static int G_call_sp;            /* 1 LMT, 2 RMT */
static void rec(int what, uint64_t arg) { __CPROVER_assert(G_ncalls == 0, "at most one traversal call"); G_call = what; G_call_arg = arg; G_call_sp = SP; G_ncalls++; }
#if defined(HAVE_LMT) && !defined(FUNC_LMT)
LMT_ret LMT(LMT_a0 self, LMT_a1 node) { rec(1, node); return self; }
#endif
#if defined(HAVE_RMT) && !defined(FUNC_RMT)
RMT_ret RMT(RMT_a0 self, RMT_a1 node) { rec(2, node); return self; }
#endif
/* ---- abstract inner node: ghost results of its (separately proved) enumeration operations */
static uint8_t *G_obj; static uint64_t G_nodew, G_childw; static struct ent G_e2; static _Bool G_has; static _Bool G_head_seen; static uint8_t G_h0;
static unsigned G_enum_calls, G_get_calls;
static void enum_first(uint8_t *out, void *self, uint8_t type) {               /* begin() / last(): a well-formed inner node has children */
  __CPROVER_assert((uint8_t *)self == G_obj && type == (G_nodew & 7), "begin()/last() on the node under the cursor, with its own type");
  G_enum_calls++; put(out, G_e2);
}
static void enum_step(uint8_t *out, void *self, uint8_t type, uint8_t h) {      /* next(h) / prior(h) */
  __CPROVER_assert((uint8_t *)self == G_obj && type == (G_nodew & 7) && h == G_h0, "next()/prior() on the node recorded in the top entry, from the child handle recorded there");
  G_enum_calls++; if (G_has) { put(out, G_e2); out[LAY_ITEROPT_ENGAGED] = 1; } else out[LAY_ITEROPT_ENGAGED] = 0;
}
#ifdef HAVE_N_BEGIN
void N_BEGIN(N_BEGIN_a0 out, N_BEGIN_a1 self, N_BEGIN_a2 type) {
#if defined(FUNC_RMT)
  __CPROVER_assert(0, "the right-most traversal never asks for the first child");
#endif
  enum_first((uint8_t *)out, self, type); }
#endif
#ifdef HAVE_N_LAST
void N_LAST(N_LAST_a0 out, N_LAST_a1 self, N_LAST_a2 type) {
#if defined(FUNC_LMT)
  __CPROVER_assert(0, "the left-most traversal never asks for the last child");
#endif
  enum_first((uint8_t *)out, self, type); }
#endif
#ifdef HAVE_N_NEXT
void N_NEXT(N_NEXT_a0 out, N_NEXT_a1 self, N_NEXT_a2 type, N_NEXT_a3 h) {
#if defined(FUNC_PRIOR)
  __CPROVER_assert(0, "prior() never enumerates forward");
#endif
  enum_step((uint8_t *)out, self, type, h); }
#endif
#ifdef HAVE_N_PRIOR
void N_PRIOR(N_PRIOR_a0 out, N_PRIOR_a1 self, N_PRIOR_a2 type, N_PRIOR_a3 h) {
#if defined(FUNC_NEXT)
  __CPROVER_assert(0, "next() never enumerates backward");
#endif
  enum_step((uint8_t *)out, self, type, h); }
#endif
#ifdef HAVE_N_GET
N_GET_ret N_GET(N_GET_a0 self, N_GET_a1 type, N_GET_a2 h) {
  __CPROVER_assert((uint8_t *)self == G_obj && type == (G_nodew & 7) && h == G_e2.h, "get_child with the handle of the entry just pushed, on the same node");
  G_get_calls++; return G_childw; }
#endif
#ifdef HAVE_PTR_INODE
PTR_INODE_ret PTR_INODE(PTR_INODE_a0 self) { __CPROVER_assert(*(uint64_t *)self == G_nodew, "ptr() of the node under the cursor"); return (PTR_INODE_ret)G_obj; }
#endif
static void snapshot(void) { SP0 = SP; for (int i = 0; i < SMAX; i++) STK0[i] = STK[i]; }
static _Bool prefix_kept(int n) { for (int i = 0; i < SMAX; i++) if (i < n && !ent_eq(STK[i], STK0[i])) return 0; return 1; }
static void arbitrary_stack(int maxsp) { SP = nondet_int(); __CPROVER_assume(SP >= 0 && SP <= maxsp); for (int i = 0; i < SMAX; i++) { STK[i].node = nondet_u64(); STK[i].kb = nondet_u8(); STK[i].h = nondet_u8(); STK[i].prefix = nondet_u64(); } }
static void mk_inner(void) { G_obj = malloc(64); __CPROVER_assume(G_obj != 0); unsigned t = 1 + nondet_uint() % 4; G_nodew = ((uint64_t)(uintptr_t)G_obj) | t;
  G_e2.node = G_nodew; G_e2.kb = nondet_u8(); G_e2.h = nondet_u8(); G_e2.prefix = nondet_u64(); G_childw = nondet_u64(); __CPROVER_assume(G_childw != 0); }
#if defined(FUNC_LMT) || defined(FUNC_RMT)
static void base_(void *node_p) {
  __CPROVER_assert(*(uint64_t *)node_p != 0 && SP == SP0 && prefix_kept(SP0), "invariant on entry (base): node is the argument (not null), nothing pushed yet");
#if NODEKIND == 9
  VERIF_CANARY("loop head reachable from the entry"); __CPROVER_assume(0);
#endif
}
static void head_(void *node_p) {
  G_head_seen = 1; arbitrary_stack(SMAX - 2); snapshot(); G_enum_calls = 0; G_get_calls = 0;
#if NODEKIND == 0
  G_nodew = nondet_u64(); __CPROVER_assume(G_nodew != 0 && (G_nodew & 7) == 0);            /* a leaf */
#else
  mk_inner();
#endif
  *(uint64_t *)node_p = G_nodew;
}
static void back_(void *node_p) {
  __CPROVER_assert(NODEKIND == 1, "invariant preserved (step): only an inner node continues the descent");
  __CPROVER_assert(G_enum_calls == 1 && G_get_calls == 1 && SP == SP0 + 1 && prefix_kept(SP0) && ent_eq(STK[SP0], G_e2), "C02 traversal step: EXACTLY the entry begin()/last() returned is pushed on top of the unchanged path");
  __CPROVER_assert(*(uint64_t *)node_p == G_childw, "C02 traversal step: the descent continues in EXACTLY the child that entry designates");
#if NODEKIND == 1
  VERIF_CANARY("descent reachable");
#endif
  __CPROVER_assume(0);
}
#elif defined(FUNC_NEXT) || defined(FUNC_PRIOR)
static void base_(void *unused) {
  __CPROVER_assert(SP == SP0 && prefix_kept(SP0), "C02 step, invariant on entry (base): the loop starts from the caller's path - nothing is popped or pushed before the first test (the caller may have a leaf OR an inner entry on top)");
#if NODEKIND == 9
  VERIF_CANARY("loop head reachable from the entry"); __CPROVER_assume(0);
#endif
}
static void head_(void *unused) {
  G_head_seen = 1; arbitrary_stack(SMAX - 1); G_enum_calls = 0; G_get_calls = 0; G_ncalls = 0;
  if (SP > 0) {
#if NODEKIND == 0
    G_nodew = nondet_u64(); __CPROVER_assume(G_nodew != 0 && (G_nodew & 7) == 0);
#else
    mk_inner(); G_has = nondet_bool();
#endif
    STK[SP - 1].node = G_nodew; G_h0 = STK[SP - 1].h;
  }
  snapshot();
}
static void back_(void *unused) {
  __CPROVER_assert(SP0 > 0 && SP == SP0 - 1 && prefix_kept(SP0 - 1) && G_ncalls == 0, "C02 step: the loop continues only after popping exactly the top entry (a leaf, or an inner node with nothing left on that side)");
#if NODEKIND == 1
  __CPROVER_assert(G_enum_calls == 1 && !G_has && G_get_calls == 0, "C02 step: an inner entry is dropped only when its node has no further child on that side");
#endif
#if NODEKIND != 9
  VERIF_CANARY("next iteration reachable");
#endif
  __CPROVER_assume(0);
}
#else
static void base_(void *u) {} static void head_(void *u) {} static void back_(void *u) {}
#endif
void harness(void) {
#if defined(FUNC_LMT)
  typedef __typeof__(*(LMT_a0)0) ITER_T;
#elif defined(FUNC_RMT)
  typedef __typeof__(*(RMT_a0)0) ITER_T;
#elif defined(FUNC_NEXT)
  typedef __typeof__(*(NEXT_a0)0) ITER_T;
#elif defined(FUNC_PRIOR)
  typedef __typeof__(*(PRIOR_a0)0) ITER_T;
#elif defined(FUNC_FIRST)
  typedef __typeof__(*(FIRST_a0)0) ITER_T;
#else
  typedef __typeof__(*(LAST_a0)0) ITER_T;
#endif
  ITER_T *it = malloc(sizeof(ITER_T)); __CPROVER_assume(it != 0);
  uint8_t *db = malloc(LAY_DB64_DB_SIZE); __CPROVER_assume(db != 0); *(void **)((uint8_t *)it + LAY_ITERATOR_DB) = (void *)db;
  arbitrary_stack(SMAX - 2); snapshot();
#if defined(FUNC_LMT) || defined(FUNC_RMT)
  uint64_t n0 = nondet_u64(); __CPROVER_assume(n0 != 0);
#if defined(FUNC_LMT)
  LMT(it, n0);
#else
  RMT(it, n0);
#endif
  __CPROVER_assert(G_head_seen, "the loop head is reached");
#if NODEKIND == 0
  { struct ent le = {G_nodew, 0xFF, 0xFF, 0};
    __CPROVER_assert(SP == SP0 + 1 && prefix_kept(SP0) && STK[SP0].node == G_nodew, "C02 traversal: a leaf is pushed on top of the unchanged path and the traversal ends there");
    __CPROVER_assert(G_enum_calls == 0 && G_get_calls == 0, "... without touching any node operation"); (void)le; }
  VERIF_CANARY("traversal returns at a leaf");
#else
  __CPROVER_assert(0, "an inner node never ends the traversal");
#endif
#elif defined(FUNC_NEXT) || defined(FUNC_PRIOR)
#if defined(FUNC_NEXT)
  NEXT(it);
#else
  PRIOR(it);
#endif
  if (!G_head_seen) { __CPROVER_assert(0, "the loop head is always reached"); return; }
  if (SP0 == 0) { __CPROVER_assert(SP == 0 && G_ncalls == 0 && G_enum_calls == 0, "C02 step: on an empty stack the iterator stays at end()"); VERIF_CANARY("end() reachable"); }
  else {
#if NODEKIND == 1
    __CPROVER_assert(G_has && G_enum_calls == 1 && G_get_calls == 1, "C02 step: the function returns from an inner entry only when its node has a further child on that side");
    __CPROVER_assert(SP == SP0 && prefix_kept(SP0 - 1) && ent_eq(STK[SP0 - 1], G_e2), "C02 step: the top entry is REPLACED by the entry next()/prior() returned, the path below is unchanged");
#if defined(FUNC_NEXT)
    __CPROVER_assert(G_ncalls == 1 && G_call == 1 && G_call_arg == G_childw && G_call_sp == SP0, "C02 step: the successor is the LEFT-most leaf below exactly that child");
#else
    __CPROVER_assert(G_ncalls == 1 && G_call == 2 && G_call_arg == G_childw && G_call_sp == SP0, "C02 step: the predecessor is the RIGHT-most leaf below exactly that child");
#endif
    VERIF_CANARY("sibling step reachable");
#else
    __CPROVER_assert(0, "a leaf on top never ends the step");
#endif
  }
#else
  uint64_t root = nondet_u64(); *(uint64_t *)(db + LAY_DB64_DB_ROOT) = root;
#if defined(FUNC_FIRST)
  FIRST(it);
  __CPROVER_assert(root == 0 ? (SP == 0 && G_ncalls == 0) : (G_ncalls == 1 && G_call == 1 && G_call_arg == root && G_call_sp == 0), "C02 first(): stack cleared; empty tree: end(); otherwise the left-most traversal of the root");
#else
  LAST(it);
  __CPROVER_assert(root == 0 ? (SP == 0 && G_ncalls == 0) : (G_ncalls == 1 && G_call == 2 && G_call_arg == root && G_call_sp == 0), "C02 last(): stack cleared; empty tree: end(); otherwise the right-most traversal of the root");
#endif
#endif
#if (defined(FUNC_LMT) || defined(FUNC_RMT)) ? (NODEKIND == 0) : (defined(FUNC_NEXT) || defined(FUNC_PRIOR)) ? (NODEKIND != 9) : 1
  VERIF_CANARY("the function returns");
#endif
}
