#!/usr/bin/env python3
"""LLVM-14 textual IR (clang++ -O0 -fno-discard-value-names) -> goto-style C for CBMC.

One C function per IR function (same mangled name, sanitised), closed opcode set; anything unknown raises
ExtractionError (the runner maps that to exit 2 = extraction break, never a verdict).  See DESIGN.md section 3.2 for what
is dropped/assumed.  Usage as a library: M = load(path); out = translate(M, roots, stubs)."""
import re, sys, collections

# ---------------------------------------------------------------- tokenizer
TOK = re.compile(r'''
   (?P<ws>\s+|;[^\n]*)
 | (?P<str>c?"(?:[^"\\]|\\.)*")
 | (?P<local>%"(?:[^"\\]|\\.)*"|%[-a-zA-Z$._0-9]+)
 | (?P<glob>@"(?:[^"\\]|\\.)*"|@[-a-zA-Z$._0-9]+)
 | (?P<meta>![-a-zA-Z$._0-9]*|!\{[^}]*\}|!"[^"]*")
 | (?P<attr>\#\d+)
 | (?P<comdat>\$"(?:[^"\\]|\\.)*"|\$[-a-zA-Z$._0-9]+)
 | (?P<hex>0x[KMLHR]?[0-9A-Fa-f]+)
 | (?P<num>-?\d+\.\d+(?:e[+-]?\d+)?|-?\d+)
 | (?P<dots>\.\.\.)
 | (?P<id>[a-zA-Z_][a-zA-Z0-9_.]*)
 | (?P<p>[{}\[\]<>(),*=:|])
''', re.X)

def tokenize(s):
    out = []; i = 0; n = len(s)
    while i < n:
        m = TOK.match(s, i)
        if not m: raise SyntaxError('tok at %r' % s[i:i+60])
        i = m.end()
        k = m.lastgroup
        if k == 'ws': continue
        out.append((k, m.group(k)))
    return out

# ---------------------------------------------------------------- types
class T:
    pass
class Int(T):
    def __init__(s, b): s.b = b
    def __repr__(s): return 'i%d' % s.b
class Flt(T):
    def __init__(s, k): s.k = k
    def __repr__(s): return s.k
class Void(T):
    def __repr__(s): return 'void'
class Ptr(T):
    def __init__(s, t): s.t = t
    def __repr__(s): return '%r*' % s.t
class Arr(T):
    def __init__(s, n, t): s.n = n; s.t = t
    def __repr__(s): return '[%d x %r]' % (s.n, s.t)
class Vec(T):
    def __init__(s, n, t): s.n = n; s.t = t
    def __repr__(s): return '<%d x %r>' % (s.n, s.t)
class Struct(T):
    def __init__(s, f, packed=False): s.f = f; s.packed = packed
    def __repr__(s): return ('<{%s}>' if s.packed else '{%s}') % ', '.join(map(repr, s.f))
class Named(T):
    def __init__(s, n): s.n = n
    def __repr__(s): return s.n
class Fn(T):
    def __init__(s, r, a, va): s.r = r; s.a = a; s.va = va
    def __repr__(s): return '%r (%s)' % (s.r, ', '.join(map(repr, s.a)))
class Other(T):
    def __init__(s, n): s.n = n
    def __repr__(s): return s.n

class P:
    """token stream parser"""
    def __init__(s, toks): s.t = toks; s.i = 0
    def peek(s, k=0): return s.t[s.i + k] if s.i + k < len(s.t) else ('eof', '')
    def next(s): x = s.t[s.i]; s.i += 1; return x
    def at(s, v): return s.peek()[1] == v
    def eat(s, v):
        if s.peek()[1] == v: s.i += 1; return True
        return False
    def expect(s, v):
        x = s.next()
        if x[1] != v: raise SyntaxError('expected %r got %r near %r' % (v, x, s.t[max(0,s.i-8):s.i+5]))
    def type(s):
        k, v = s.next()
        if k == 'id':
            if re.fullmatch(r'i\d+', v): t = Int(int(v[1:]))
            elif v in ('float', 'double', 'half', 'x86_fp80', 'fp128'): t = Flt(v)
            elif v == 'void': t = Void()
            elif v in ('label', 'metadata', 'token', 'opaque', 'x86_mmx'): t = Other(v)
            else: raise SyntaxError('type? %r' % v)
        elif k == 'local': t = Named(v)
        elif v == '[':
            n = int(s.next()[1]); s.expect('x'); e = s.type(); s.expect(']'); t = Arr(n, e)
        elif v == '<':
            if s.at('{'):
                s.next(); f = s.typelist('}'); s.expect('>'); t = Struct(f, True)
            else:
                n = int(s.next()[1]); s.expect('x'); e = s.type(); s.expect('>'); t = Vec(n, e)
        elif v == '{':
            t = Struct(s.typelist('}'))
        else: raise SyntaxError('type? %r %r' % (k, v))
        while True:
            if s.at('*'): s.next(); t = Ptr(t)
            elif s.at('(') :
                s.next(); a = []; va = False
                while not s.at(')'):
                    if s.at('...'): s.next(); va = True
                    else: a.append(s.type())
                    s.eat(',')
                s.next(); t = Fn(t, a, va)
            else: break
        return t
    def typelist(s, close):
        f = []
        while not s.at(close):
            f.append(s.type()); s.eat(',')
        s.next(); return f

# ---------------------------------------------------------------- values
class V:  # value
    def __init__(s, kind, ty=None, **kw): s.kind = kind; s.ty = ty; s.__dict__.update(kw)
    def __repr__(s): return 'V(%s %r %s)' % (s.kind, s.ty, {k: v for k, v in s.__dict__.items() if k not in ('kind', 'ty')})

PARAM_ATTRS = {'noundef','nonnull','zeroext','signext','nocapture','readonly','readnone','writeonly','noalias','returned','inreg','nest','immarg','nofree','swiftself','inalloca','noundef'}
FLAGS = {'nuw','nsw','exact','inbounds','fast','nnan','ninf','nsz','arcp','contract','afn','reassoc','volatile','atomic','tail','musttail','notail','weak'}
CASTS = {'bitcast','ptrtoint','inttoptr','trunc','zext','sext','fptoui','fptosi','uitofp','sitofp','fpext','fptrunc','addrspacecast'}
BINOPS = {'add','sub','mul','udiv','sdiv','urem','srem','shl','lshr','ashr','and','or','xor','fadd','fsub','fmul','fdiv','frem'}

def skip_param_attrs(p):
    while True:
        k, v = p.peek()
        if k == 'id' and v in PARAM_ATTRS: p.next()
        elif k == 'id' and v in ('align',):
            p.next(); p.next()
        elif k == 'id' and v in ('dereferenceable', 'dereferenceable_or_null'):
            p.next(); p.expect('('); p.next(); p.expect(')')
        elif k == 'id' and v in ('byval', 'sret', 'byref', 'preallocated', 'elementtype'):
            p.next(); p.expect('('); p.type(); p.expect(')')
        else: break

def value(p, ty):
    """parse a value of known type"""
    k, v = p.next()
    if k == 'local': return V('local', ty, name=v)
    if k == 'glob': return V('global', ty, name=v)
    if k == 'num' or k == 'hex':
        return V('const', ty, text=v)
    if k == 'str': return V('cstr', ty, text=v)
    if k == 'id':
        if v in ('true', 'false', 'null', 'undef', 'poison', 'zeroinitializer', 'none'):
            return V('const', ty, text=v)
        if v in CASTS:
            p.expect('('); st = p.type(); sv = value(p, st); p.expect('to'); dt = p.type(); p.expect(')')
            return V('cexpr', ty, op=v, args=[sv], dty=dt)
        if v == 'getelementptr':
            while p.peek()[1] in ('inbounds',): p.next()
            p.expect('('); bt = p.type(); p.expect(',')
            args = []
            while not p.at(')'):
                if p.at('inrange'): p.next()
                t = p.type(); args.append(value(p, t)); p.eat(',')
            p.next()
            return V('cexpr', ty, op='getelementptr', bty=bt, args=args)
        if v in BINOPS or v in ('icmp', 'fcmp', 'select'):
            depth = 0
            # rarely used in O0; skip generically
            raise SyntaxError('constexpr %s unsupported' % v)
    if v == '{' or v == '[' or v == '<':
        close = {'{': '}', '[': ']', '<': '>'}[v]
        packed = False
        if v == '<' and p.at('{'):
            p.next(); close = '}'; packed = True
        elems = []
        while not p.at(close):
            t = p.type(); elems.append(value(p, t)); p.eat(',')
        p.next()
        if packed: p.expect('>')
        return V('agg', ty, elems=elems)
    raise SyntaxError('value? %r %r' % (k, v))

def tvalue(p):
    t = p.type(); skip_param_attrs(p); return value(p, t)

def is_union(t):
    return isinstance(t, Named) and t.n.lstrip('%').strip('"').startswith('union.')

class I:  # instruction
    def __init__(s, op, res=None, **kw): s.op = op; s.res = res; s.__dict__.update(kw)

def skip_meta(p):
    while p.at(','):
        if p.peek(1)[0] == 'meta':
            p.next(); p.next()
            if p.peek()[0] == 'meta': p.next()
        elif p.peek(1)[1] == 'align':
            p.next(); p.next(); p.next()
        else: break

def parse_call(p, op):
    # [cconv] [ret attrs] ty|fnty  callee(args) [attrs] [bundles]
    while p.peek()[0] == 'id' and p.peek()[1] in ('fastcc', 'ccc', 'coldcc', 'zeroext', 'signext', 'noundef', 'nonnull', 'noalias', 'inreg'): p.next()
    skip_param_attrs(p)
    rt = p.type()
    fnty = None
    if isinstance(rt, Fn): fnty = rt; rt = rt.r
    # (LLVM 14 never writes the callee type as a pointer: 'void (i8*)* @f(..)' is a call RETURNING a function pointer)
    callee = value(p, None)
    p.expect('(')
    args = []
    while not p.at(')'):
        t = p.type(); skip_param_attrs(p)
        if isinstance(t, Other) and t.n == 'metadata':
            # metadata arg; skip tokens until , or )
            while not p.at(',') and not p.at(')'): p.next()
            args.append(V('const', t, text='0'))
        else:
            args.append(value(p, t))
        p.eat(',')
    p.next()
    nounwind = False
    while p.peek()[0] == 'attr' or (p.peek()[0] == 'id' and p.peek()[1] in ('nounwind', 'noreturn', 'readnone', 'readonly', 'builtin', 'nobuiltin', 'cold', 'allocsize', 'nomerge')):
        a = p.next()
        if a[1] == 'nounwind': nounwind = True
        attrs = a
    ins = I(op, rty=rt, callee=callee, args=args, fnty=fnty)
    if op == 'invoke':
        p.expect('to'); p.expect('label'); ins.normal = p.next()[1]
        p.expect('unwind'); p.expect('label'); ins.unwind = p.next()[1]
    return ins

def parse_instr(p):
    res = None
    if p.peek()[0] == 'local' and p.peek(1)[1] == '=':
        res = p.next()[1]; p.next()
    k, op = p.next()
    while p.peek()[0] == 'id' and p.peek()[1] in ('tail', 'musttail', 'notail') and op in ('tail','musttail','notail'):
        pass
    if op in ('tail', 'musttail', 'notail'):
        k, op = p.next()
    if op == 'alloca':
        if p.at('inalloca'): p.next()
        t = p.type(); n = None
        if p.at(',') and p.peek(1)[1] != 'align' and p.peek(1)[0] != 'meta':
            p.next(); n = tvalue(p)
        skip_meta(p)
        ins = I('alloca', ty=t, n=n)
    elif op == 'load':
        atomic = p.eat('atomic'); p.eat('volatile')
        t = p.type(); p.expect(','); ptr = tvalue(p)
        order = None
        if p.peek()[0] == 'id' and p.peek()[1] in ('syncscope',): p.next(); p.expect('('); p.next(); p.expect(')')
        if p.peek()[0] == 'id' and p.peek()[1] in ('unordered','monotonic','acquire','release','acq_rel','seq_cst'): order = p.next()[1]
        skip_meta(p)
        ins = I('load', ty=t, ptr=ptr, atomic=atomic, order=order)
    elif op == 'store':
        atomic = p.eat('atomic'); p.eat('volatile')
        v = tvalue(p); p.expect(','); ptr = tvalue(p)
        order = None
        if p.peek()[0] == 'id' and p.peek()[1] in ('unordered','monotonic','acquire','release','acq_rel','seq_cst'): order = p.next()[1]
        skip_meta(p)
        ins = I('store', val=v, ptr=ptr, atomic=atomic, order=order)
    elif op == 'getelementptr':
        p.eat('inbounds')
        bt = p.type(); p.expect(',')
        args = [tvalue(p)]
        while p.at(',') and p.peek(1)[0] != 'meta':
            p.next(); args.append(tvalue(p))
        skip_meta(p)
        ins = I('gep', bty=bt, args=args)
    elif op in CASTS:
        v = tvalue(p); p.expect('to'); dt = p.type(); skip_meta(p)
        ins = I('cast', cop=op, val=v, dty=dt)
    elif op in BINOPS:
        flags = []
        while p.peek()[0] == 'id' and p.peek()[1] in FLAGS: flags.append(p.next()[1])
        t = p.type(); a = value(p, t); p.expect(','); b = value(p, t); skip_meta(p)
        ins = I('bin', bop=op, ty=t, a=a, b=b, flags=flags)
    elif op in ('icmp', 'fcmp'):
        while p.peek()[0] == 'id' and p.peek()[1] in FLAGS: p.next()
        pred = p.next()[1]; t = p.type(); a = value(p, t); p.expect(','); b = value(p, t); skip_meta(p)
        ins = I(op, pred=pred, ty=t, a=a, b=b)
    elif op == 'fneg':
        t = p.type(); a = value(p, t); ins = I('fneg', ty=t, a=a)
    elif op == 'select':
        c = tvalue(p); p.expect(','); a = tvalue(p); p.expect(','); b = tvalue(p); skip_meta(p)
        ins = I('select', c=c, a=a, b=b)
    elif op == 'br':
        if p.at('label'):
            p.next(); ins = I('br', cond=None, t=p.next()[1])
        else:
            c = tvalue(p); p.expect(','); p.expect('label'); t = p.next()[1]; p.expect(','); p.expect('label'); f = p.next()[1]
            ins = I('br', cond=c, t=t, f=f)
        skip_meta(p)
    elif op == 'switch':
        v = tvalue(p); p.expect(','); p.expect('label'); d = p.next()[1]; p.expect('[')
        cases = []
        while not p.at(']'):
            cv = tvalue(p); p.expect(','); p.expect('label'); cases.append((cv, p.next()[1]))
        p.next(); skip_meta(p)
        ins = I('switch', val=v, default=d, cases=cases)
    elif op == 'ret':
        if p.at('void') and p.peek(1)[1] not in ('(', '*'): p.next(); ins = I('ret', val=None)
        else: ins = I('ret', val=tvalue(p))
        skip_meta(p)
    elif op == 'unreachable':
        ins = I('unreachable'); skip_meta(p)
    elif op == 'resume':
        ins = I('resume', val=tvalue(p)); skip_meta(p)
    elif op in ('call', 'invoke'):
        ins = parse_call(p, op); skip_meta(p)
    elif op == 'landingpad':
        t = p.type(); cleanup = False; clauses = []
        while True:
            if p.at('cleanup'): p.next(); cleanup = True
            elif p.at('catch'): p.next(); clauses.append(('catch', tvalue(p)))
            elif p.at('filter'): p.next(); clauses.append(('filter', tvalue(p)))
            else: break
        ins = I('landingpad', ty=t, cleanup=cleanup, clauses=clauses)
    elif op == 'phi':
        t = p.type(); inc = []
        while True:
            p.expect('['); v = value(p, t); p.expect(','); b = p.next()[1]; p.expect(']'); inc.append((v, b))
            if p.at(',') and p.peek(1)[1] == '[': p.next()
            else: break
        skip_meta(p)
        ins = I('phi', ty=t, inc=inc)
    elif op == 'extractvalue':
        v = tvalue(p); idx = []
        while p.at(',') and p.peek(1)[0] == 'num': p.next(); idx.append(int(p.next()[1]))
        skip_meta(p)
        ins = I('extractvalue', val=v, idx=idx)
    elif op == 'insertvalue':
        a = tvalue(p); p.expect(','); e = tvalue(p); idx = []
        while p.at(',') and p.peek(1)[0] == 'num': p.next(); idx.append(int(p.next()[1]))
        skip_meta(p)
        ins = I('insertvalue', agg=a, elt=e, idx=idx)
    elif op == 'extractelement':
        v = tvalue(p); p.expect(','); i = tvalue(p); skip_meta(p)
        ins = I('extractelement', val=v, idx=i)
    elif op == 'insertelement':
        v = tvalue(p); p.expect(','); e = tvalue(p); p.expect(','); i = tvalue(p); skip_meta(p)
        ins = I('insertelement', val=v, elt=e, idx=i)
    elif op == 'shufflevector':
        a = tvalue(p); p.expect(','); b = tvalue(p); p.expect(','); m = tvalue(p); skip_meta(p)
        ins = I('shufflevector', a=a, b=b, mask=m)
    elif op == 'fence':
        if p.at('syncscope'): p.next(); p.expect('('); p.next(); p.expect(')')
        ins = I('fence', order=p.next()[1])
    elif op == 'cmpxchg':
        p.eat('weak'); p.eat('volatile')
        ptr = tvalue(p); p.expect(','); cmp = tvalue(p); p.expect(','); new = tvalue(p)
        o1 = p.next()[1]; o2 = p.next()[1]; skip_meta(p)
        ins = I('cmpxchg', ptr=ptr, cmp=cmp, new=new)
    elif op == 'atomicrmw':
        p.eat('volatile'); rop = p.next()[1]
        ptr = tvalue(p); p.expect(','); val = tvalue(p); o = p.next()[1]; skip_meta(p)
        ins = I('atomicrmw', rop=rop, ptr=ptr, val=val)
    elif op == 'freeze':
        ins = I('freeze', val=tvalue(p))
    else:
        raise SyntaxError('instr? %r' % op)
    ins.res = res
    return ins

class Func:
    pass

def parse_define(p):
    """p positioned after 'define' ; returns Func"""
    f = Func()
    # skip linkage etc until a type parses followed by glob
    skipset = {'extern_weak','linkonce_odr','dso_local','internal','private','weak','weak_odr','linkonce','available_externally','external','hidden','protected','default','unnamed_addr','local_unnamed_addr','noundef','nonnull','zeroext','signext','noalias','fastcc','ccc','inreg'}
    while p.peek()[0] == 'id' and p.peek()[1] in skipset: p.next()
    skip_param_attrs(p)
    f.rty = p.type()
    f.name = p.next()[1]
    p.expect('(')
    f.params = []; f.va = False
    while not p.at(')'):
        if p.at('...'): p.next(); f.va = True
        else:
            t = p.type()
            attrs = []
            start = p.i
            skip_param_attrs(p)
            attrs = [x[1] for x in p.t[start:p.i]]
            nm = None
            if p.peek()[0] == 'local': nm = p.next()[1]
            f.params.append((t, nm, attrs))
        p.eat(',')
    p.next()
    return f

def parse_module(text):
    M = type('M', (), {})()
    M.types = collections.OrderedDict(); M.funcs = collections.OrderedDict(); M.decls = {}; M.globals = collections.OrderedDict()
    # split top-level by lines
    lines = text.split('\n'); i = 0
    while i < len(lines):
        l = lines[i]
        if l.startswith('%') and ' = type ' in l:
            name, rhs = l.split(' = type ', 1)
            p = P(tokenize(rhs))
            M.types[name.strip()] = p.type() if rhs.strip() != 'opaque' else Other('opaque')
        elif l.startswith('define '):
            j = i
            while lines[j] != '}': j += 1
            body = '\n'.join(lines[i:j])
            hdr_end = body.index('{\n') if '{\n' in body else None
            # header is the first line up to trailing '{'
            first = lines[i]
            assert first.rstrip().endswith('{'), first
            p = P(tokenize(first.rstrip()[:-1][len('define '):]))
            f = parse_define(p)
            f.attrs_text = first
            f.body_text = '\n'.join(lines[i+1:j])
            f.blocks = None
            M.funcs[f.name] = f
            i = j
        elif l.startswith('declare '):
            p = P(tokenize(l[len('declare '):]))
            f = parse_define(p); f.decl_text = l
            M.decls[f.name] = f
        elif l.startswith('@'):
            M.globals[l.split(' = ', 1)[0].strip()] = l
        i += 1
    return M

def parse_body(f):
    if f.blocks is not None: return
    blocks = collections.OrderedDict(); cur = 'entry'; buf = []
    # split labels (lines ending with ':' possibly followed by comment)
    chunks = []
    for line in f.body_text.split('\n'):
        m = re.match(r'^("(?:[^"\\]|\\.)*"|[-a-zA-Z$._0-9]+):', line)
        if m and not line.startswith(' '):
            chunks.append((cur, buf)); cur = m.group(1); buf = []
        else: buf.append(line)
    chunks.append((cur, buf))
    for name, buf in chunks:
        toks = tokenize('\n'.join(buf))
        p = P(toks); ins = []
        while p.peek()[0] != 'eof':
            ins.append(parse_instr(p))
        if ins or name != 'entry' or True:
            blocks['%' + name] = ins
    f.blocks = blocks

# ---------------------------------------------------------------- C emission
def san(n):
    n = n.lstrip('%@')
    if n.startswith('"'): n = n[1:-1]
    return re.sub(r'[^A-Za-z0-9_]', lambda m: '_%02x' % ord(m.group(0)), n)

class Emitter:
    def __init__(s, M):
        s.M = M; s.typedefs = collections.OrderedDict(); s.lit = {}; s.done_struct = set(); s.struct_order = []
        s.out_fn = []; s.need = []; s.helpers = set(); s.loop_hooks = []; s.alias_of = {}; s.loop_havoc = {}; s.loop_iv = {}; s.asserts = []
    def fn_id(s, name):
        import hashlib
        if name in s.alias_of: return s.alias_of[name]
        return 'F' + hashlib.sha1(name.encode()).hexdigest()[:8]
    # ---- types
    def resolve(s, t):
        while isinstance(t, Named): t = s.M.types[t.n]
        return t
    def cty(s, t):
        if isinstance(t, Int):
            if t.b == 1: return '_Bool'
            if t.b in (8, 16, 32, 64): return 'uint%d_t' % t.b
            if t.b == 128: return '__CPROVER_bitvector_128' if False else 'unsigned __int128'
            return 'unsigned __CPROVER_bitvector[%d]' % t.b
        if isinstance(t, Flt): return {'float': 'float', 'double': 'double', 'x86_fp80': 'long double'}[t.k]
        if isinstance(t, Void): return 'void'
        if isinstance(t, Ptr):
            if isinstance(t.t, Fn): return s.fnptr(t.t)
            if isinstance(t.t, Void) or (isinstance(t.t, Other)): return 'void *'
            return s.cty(t.t) + ' *'
        if isinstance(t, Named):
            r = s.M.types[t.n]
            nm = 'struct S_' + san(t.n)
            s.want_struct(nm, r)
            return nm
        if isinstance(t, (Struct, Arr, Vec)):
            key = repr(t)
            if key not in s.lit:
                if isinstance(t, Vec) and isinstance(t.t, (Int, Flt)):
                    s.lit[key] = 'struct V%dx%s' % (t.n, repr(t.t))
                else:
                    s.lit[key] = 'struct L%d' % len(s.lit)
                s.want_struct(s.lit[key], t)
            return s.lit[key]
        if isinstance(t, Fn): return s.fnptr(t).rstrip('*')
        if isinstance(t, Other): return 'void'
        raise TypeError(t)
    def fnptr(s, f):
        key = 'fn:' + repr(f)
        if key not in s.typedefs:
            nm = 'fnp%d' % len(s.typedefs)
            s.typedefs[key] = None
            args = ', '.join(s.cty(a) for a in f.a) or 'void'
            if f.va: args += ', ...'
            s.typedefs[key] = (nm, 'typedef %s (*%s)(%s);' % (s.cty(f.r), nm, args))
        return s.typedefs[key][0] if s.typedefs[key] else 'void*'
    def want_struct(s, nm, t):
        if nm in s.done_struct: return
        s.done_struct.add(nm)
        if isinstance(t, Other):
            s.struct_order.append((nm, None)); return
        if nm.startswith('struct S_union_2e') and isinstance(t, Struct):
            # LLVM models a C++ union as one representative member plus pointer casts.  CBMC 6.11 mis-reads elements reached through a
            # pointer into such a type-punned nested aggregate (array of structs holding arrays), so unions are emitted as opaque,
            # correctly sized and aligned byte arrays: every access then is an explicit byte-level reinterpretation.
            sz, al = s.size_align(t)
            s.struct_order.append((nm, '%s { uint8_t b[%d]; } __attribute__((aligned(%d)));' % (nm, sz, al))); return
        # emit dependencies first (by-value members)
        if isinstance(t, Struct):
            fields = []
            for i, f in enumerate(t.f):
                fields.append('%s f%d;' % (s.cty_member(f), i))
            body = ' '.join(fields) if fields else 'char __empty[0];'
            s.struct_order.append((nm, '%s { %s }%s;' % (nm, body, ' __attribute__((packed))' if t.packed else '')))
        elif isinstance(t, Arr):
            s.struct_order.append((nm, '%s { %s a[%d]; };' % (nm, s.cty_member(t.t), t.n)))
        elif isinstance(t, Vec):
            et = s.cty(t.t);
            size = t.n * (max(t.t.b, 8) // 8 if isinstance(t.t, Int) else (4 if t.t.k == 'float' else 8))
            s.struct_order.append((nm, '%s { %s v[%d]; } __attribute__((aligned(%d)));' % (nm, et, t.n, min(size, 32))))
    def cty_member(s, t):
        # members need complete types: force struct definitions emitted before
        return s.cty(t)
    # ---- values
    def val(s, v, fn=None):
        t = v.ty
        if v.kind == 'local': return 'v_' + san(v.name)
        if v.kind == 'global':
            s.need.append(v.name)
            n = san(v.name)
            if v.name in s.M.funcs: return n
            if v.name in s.M.decls: return 'X_' + n
            return '(&g_%s)' % n
        if v.kind == 'const':
            x = v.text
            if x in ('true',): return '1'
            if x in ('false',): return '0'
            if x == 'null': return '((%s)0)' % s.cty(t)
            if x in ('undef', 'poison', 'zeroinitializer'):
                rt = s.resolve(t)
                if isinstance(rt, (Int, Flt, Ptr)): return '((%s)0)' % s.cty(t)
                return '((%s){0})' % s.cty(t)
            if isinstance(t, Flt):
                import struct as S
                if x.startswith('0x'): d = S.unpack('<d', S.pack('<Q', int(x[2:], 16)))[0]   # LLVM prints float constants as double hex
                else: d = float(x)
                if t.k == 'float': return 'verif_f32_bits(0x%08xU)' % S.unpack('<I', S.pack('<f', d))[0]
                if t.k == 'double': return 'verif_f64_bits(0x%016xULL)' % S.unpack('<Q', S.pack('<d', d))[0]
                raise ValueError('float constant of type %s' % t.k)
            if isinstance(t, Int):
                n = int(x)
                if n < 0: n += 1 << t.b
                if t.b == 1: return str(n)
                return '((%s)%dU%s)' % (s.cty(t), n, 'LL' if t.b > 32 else '')
            return x
        if v.kind == 'agg':
            rt = s.resolve(t)
            if is_union(t):
                def allzero(e): return (e.kind == 'const' and e.text in ('0', 'false', 'null', 'undef', 'poison', 'zeroinitializer', '0.000000e+00')) or (e.kind == 'agg' and all(allzero(x) for x in e.elems))
                if all(allzero(e) for e in v.elems): return '((%s){{0}})' % s.cty(t)
                raise ValueError('non-zero constant of union type %s' % t.n)
            if isinstance(rt, Struct): return '((%s){%s})' % (s.cty(t), ', '.join(s.val(e) for e in v.elems))
            return '((%s){{%s}})' % (s.cty(t), ', '.join(s.val(e) for e in v.elems))
        if v.kind == 'cstr':
            body = v.text[2:-1]
            bs = []
            i = 0
            while i < len(body):
                if body[i] == '\\': bs.append(int(body[i+1:i+3], 16)); i += 3
                else: bs.append(ord(body[i])); i += 1
            return '((%s){{%s}})' % (s.cty(t), ', '.join(map(str, bs)))
        if v.kind == 'cexpr':
            if v.op in ('bitcast', 'inttoptr', 'ptrtoint', 'addrspacecast'):
                return '((%s)%s)' % (s.cty(v.dty), s.val(v.args[0]))
            if v.op == 'getelementptr':
                return s.gep_expr(v.bty, v.args)
            if v.op in ('trunc', 'zext'):
                return '((%s)%s)' % (s.cty(v.dty), s.val(v.args[0]))
        raise ValueError(v)
    def fconst(s, d, suf):
        import math
        if math.isnan(d): return '(__builtin_nan%s(""))' % ('f' if suf else '')
        if math.isinf(d): return '(%s__builtin_inf%s())' % ('-' if d < 0 else '', 'f' if suf else '')
        return '(%s%s)' % (repr(d), suf)
    def gep_expr(s, bty, args):
        base = s.val(args[0])
        # first index: pointer arithmetic
        e = '(%s)' % base
        idx0 = args[1]
        e = '(%s + %s)' % (e, s.idx(idx0))
        cur = bty; acc = '(*%s)' % e
        for a in args[2:]:
            rt = s.resolve(cur)
            if is_union(cur) and isinstance(rt, Struct):
                i = int(a.text); off = s.field_offset(rt, i)
                acc = '(*(%s *)((uint8_t *)&%s + %d))' % (s.cty(rt.f[i]), acc, off); cur = rt.f[i]
            elif isinstance(rt, Struct):
                i = int(a.text); acc = '%s.f%d' % (acc, i); cur = rt.f[i]
            elif isinstance(rt, Arr):
                acc = '%s.a[%s]' % (acc, s.idx(a)); cur = rt.t
            elif isinstance(rt, Vec):
                acc = '%s.v[%s]' % (acc, s.idx(a)); cur = rt.t
            else: raise TypeError('gep into %r' % rt)
        return '(&%s)' % acc
    def idx(s, a):
        if a.kind == 'const':
            return str(int(a.text))
        b = a.ty.b
        return '(int%d_t)%s' % (b if b in (8, 16, 32, 64) else 64, s.val(a))

    # ---- functions
    def proto(s, f, name=None):
        ps = []
        for i, (t, nm, attrs) in enumerate(f.params):
            ps.append('%s %s' % (s.cty(t), 'v_' + san(nm) if nm else 'a%d' % i))
        if f.va: ps.append('...')
        return '%s %s(%s)' % (s.cty(f.rty), name or san(f.name), ', '.join(ps) or 'void')

    def signed(s, t, e):
        b = t.b
        if b == 1: return '(-(int)%s)' % e
        if b in (8, 16, 32, 64): return '((int%d_t)%s)' % (b, e)
        return '((signed __CPROVER_bitvector[%d])%s)' % (b, e)

    def emit_function(s, f):
        parse_body(f)
        s.cur_defs = {}
        for _bn, _ins in f.blocks.items():
            for _x in _ins:
                if _x.res: s.cur_defs[_x.res] = _x
        L = []
        decls = collections.OrderedDict()
        def decl(name, t):
            decls['v_' + san(name)] = s.cty(t)
        # predecessors for phi handling
        phis = collections.defaultdict(list)  # block -> [(res, ty, inc)]
        for bn, ins in f.blocks.items():
            for x in ins:
                if x.op == 'phi': phis[bn].append(x)
        def goto(frm, to):
            out = []
            for ph in phis.get(to, []):
                for v, b in ph.inc:
                    if b == frm:
                        out.append('v_%s = %s;' % (san(ph.res), s.val(v)))
            out.append('goto L_%s;' % san(to))
            return ' '.join(out)
        unwinds = f.attrs_text
        # ---- natural loops: back edge = edge to a dominating block
        succ = {}
        for bn, ins in f.blocks.items():
            t = ins[-1] if ins else None
            ss = []
            if t is not None:
                if t.op == 'br': ss = [t.t] + ([t.f] if t.cond is not None else [])
                elif t.op == 'switch': ss = [t.default] + [l for _, l in t.cases]
                elif t.op == 'invoke': ss = [t.normal, t.unwind]
            succ[bn] = ss
        names = list(f.blocks.keys())
        allb = set(names); dom = {b: set(allb) for b in names}
        if names: dom[names[0]] = {names[0]}
        reach = set(); stk_ = [names[0]] if names else []
        while stk_:
            b_ = stk_.pop()
            if b_ in reach: continue
            reach.add(b_); stk_.extend(succ.get(b_, []))
        preds = collections.defaultdict(list)
        for b, ss in succ.items():
            if b not in reach: continue          # blocks without predecessors (after noreturn calls) must not spoil dominators
            for x_ in ss: preds[x_].append(b)
        ch = True
        while ch:
            ch = False
            for b in names[1:]:
                ps = [dom[p_] for p_ in preds[b] if p_ in dom]
                nd = (set.intersection(*ps) if ps else set()) | {b}
                if nd != dom[b]: dom[b] = nd; ch = True
        backedges = set((b, h) for b, ss in succ.items() if b in reach for h in ss if h in dom.get(b, ()))
        heads = set(h for _, h in backedges)
        fid = s.fn_id(f.name)
        # natural loop body of each head = union over its back edges of nodes that reach the tail without passing the head
        loop_body = {}
        for h in heads:
            body = {h}
            stack_ = [b for (b, hh) in backedges if hh == h]
            while stack_:
                n_ = stack_.pop()
                if n_ in body: continue
                body.add(n_); stack_.extend(preds[n_])
            loop_body[h] = body
        # root alloca of every pointer-typed SSA value (through gep / cast)
        root_alloca = {}
        for _bn, _ins in f.blocks.items():
            for _x in _ins:
                if _x.op == 'alloca': root_alloca[_x.res] = _x.res
        chg = True
        while chg:
            chg = False
            for _bn, _ins in f.blocks.items():
                for _x in _ins:
                    if _x.res and _x.res not in root_alloca:
                        src = None
                        if _x.op == 'gep': src = _x.args[0]
                        elif _x.op == 'cast' and _x.cop in ('bitcast',): src = _x.val
                        if src is not None and src.kind == 'local' and src.name in root_alloca:
                            root_alloca[_x.res] = root_alloca[src.name]; chg = True
        alloca_ty = {x_.res: x_.ty for _b, _i in f.blocks.items() for x_ in _i if x_.op == 'alloca'}
        for h in heads:
            hv = collections.OrderedDict()
            for b in names:
                if b not in loop_body[h]: continue
                for x_ in f.blocks[b]:
                    ptrs = []
                    if x_.op == 'store': ptrs = [x_.ptr]
                    elif x_.op in ('call', 'invoke'):
                        cn_ = x_.callee.name if x_.callee.kind == 'global' else ''
                        if cn_.startswith(('@llvm.memcpy', '@llvm.memmove')): ptrs = [x_.args[0]]      # only the destination is written
                        elif cn_.startswith(('@llvm.lifetime', '@llvm.dbg', '@llvm.assume', '@llvm.expect')): ptrs = []
                        else: ptrs = list(x_.args)
                    elif x_.op in ('cmpxchg', 'atomicrmw'): ptrs = [x_.ptr]
                    for p_ in ptrs:
                        if p_.kind == 'local' and p_.name in root_alloca: hv[root_alloca[p_.name]] = 1
                    if x_.op == 'phi' and b == h: hv['phi:' + x_.res] = x_.ty
            items = []
            for a_ in hv:
                if a_.startswith('phi:'): items.append(('v_' + san(a_[4:]), s.cty(hv[a_])))
                else: items.append(('m_' + san(a_), s.cty(alloca_ty[a_])))
            s.loop_havoc[(fid, san(h))] = items
            # induction variable: the alloca that is loaded in the header block and stored in a latch block (source of a back edge)
            ld = set(root_alloca[x_.ptr.name] for x_ in f.blocks[h] if x_.op == 'load' and x_.ptr.kind == 'local' and x_.ptr.name in root_alloca)
            st = set()
            for (b_, hh) in backedges:
                if hh != h: continue
                for x_ in f.blocks[b_]:
                    if x_.op == 'store' and x_.ptr.kind == 'local' and x_.ptr.name in root_alloca: st.add(root_alloca[x_.ptr.name])
            iv = sorted(ld & st)
            s.loop_iv[(fid, san(h))] = ('m_' + san(iv[0])) if len(iv) == 1 else None
            s.loop_hooks.append((fid, san(h), s.M.dem.get(f.name, f.name)))
        _goto = goto
        def goto(frm, to, _g=_goto):
            if (frm, to) in backedges: return 'VERIF_LOOP_BACK_%s_%s; ' % (fid, san(to)) + _g(frm, to)
            return _g(frm, to)
        for bn, ins in f.blocks.items():
            L.append('L_%s: ;' % san(bn))
            if bn in heads: L.append('VERIF_LOOP_HEAD_%s_%s;' % (fid, san(bn)))
            for x in ins:
                r = 'v_' + san(x.res) if x.res else None
                if x.op == 'alloca':
                    decl(x.res, Ptr(x.ty))
                    decls['m_' + san(x.res)] = s.cty(x.ty)
                    L.append('%s = &m_%s;' % (r, san(x.res)))
                elif x.op == 'load':
                    decl(x.res, x.ty)
                    if x.atomic: L.append('%s = VERIF_ATOMIC_LOAD(%s);' % (r, s.val(x.ptr)))
                    else: L.append('%s = *%s;' % (r, s.val(x.ptr)))
                elif x.op == 'store':
                    if x.atomic: L.append('VERIF_ATOMIC_STORE(%s, %s);' % (s.val(x.ptr), s.val(x.val)))
                    else: L.append('*%s = %s;' % (s.val(x.ptr), s.val(x.val)))
                elif x.op == 'gep':
                    rt = s.gep_type(x.bty, x.args)
                    decl(x.res, Ptr(rt))
                    L.append('%s = %s;' % (r, s.gep_expr(x.bty, x.args)))
                elif x.op == 'cast':
                    decl(x.res, x.dty)
                    L.append(s.cast(r, x))
                elif x.op == 'bin':
                    decl(x.res, x.ty)
                    L.extend(s.binop(r, x))
                elif x.op == 'icmp':
                    rt = s.resolve(x.ty)
                    if isinstance(rt, Vec):
                        decl(x.res, Vec(rt.n, Int(1)))
                        for i in range(rt.n):
                            L.append('%s.v[%d] = %s;' % (r, i, s.icmp(x.pred, rt.t, '%s.v[%d]' % (s.val(x.a), i), '%s.v[%d]' % (s.val(x.b), i))))
                    else:
                        decl(x.res, Int(1))
                        L.append('%s = %s;' % (r, s.icmp(x.pred, rt, s.val(x.a), s.val(x.b))))
                elif x.op == 'fcmp':
                    decl(x.res, Int(1))
                    a, b = s.val(x.a), s.val(x.b)
                    P_ = {'oeq': '(%s == %s)', 'ogt': '(%s > %s)', 'oge': '(%s >= %s)', 'olt': '(%s < %s)', 'ole': '(%s <= %s)',
                          'one': '(%s < %s || %s > %s)', 'une': '(%s != %s)', 'uno': '(%s != %s || %s != %s)', 'ord': '(%s == %s && %s == %s)'}
                    pr = x.pred
                    if pr in ('one',): e = '(%s < %s || %s > %s)' % (a, b, a, b)
                    elif pr == 'uno': e = '(%s != %s || %s != %s)' % (a, a, b, b)
                    elif pr == 'ord': e = '(%s == %s && %s == %s)' % (a, a, b, b)
                    elif pr in ('ueq',): e = '(!(%s < %s || %s > %s))' % (a, b, a, b)
                    elif pr in ('ugt', 'uge', 'ult', 'ule'):
                        neg = {'ugt': '<=', 'uge': '<', 'ult': '>=', 'ule': '>'}[pr]
                        e = '(!(%s %s %s))' % (a, neg, b)
                    else: e = P_[pr] % (a, b)
                    L.append('%s = %s;' % (r, e))
                elif x.op == 'fneg':
                    decl(x.res, x.ty); L.append('%s = -%s;' % (r, s.val(x.a)))
                elif x.op == 'select':
                    decl(x.res, x.a.ty)
                    L.append('%s = %s ? %s : %s;' % (r, s.val(x.c), s.val(x.a), s.val(x.b)))
                elif x.op == 'br':
                    if x.cond is None: L.append(goto(bn, x.t))
                    else: L.append('if (%s) { %s } else { %s }' % (s.val(x.cond), goto(bn, x.t), goto(bn, x.f)))
                elif x.op == 'switch':
                    L.append('switch (%s) {' % s.val(x.val))
                    for cv, lab in x.cases: L.append(' case %s: { %s }' % (s.val(cv), goto(bn, lab)))
                    L.append(' default: { %s } }' % goto(bn, x.default))
                elif x.op == 'ret':
                    L.append('return %s;' % (s.val(x.val) if x.val else ''))
                elif x.op == 'unreachable':
                    L.append('VERIF_UNREACHABLE();')
                elif x.op in ('call', 'invoke'):
                    L.extend(s.call(f, bn, x, r, decl, goto))
                elif x.op == 'landingpad':
                    decl(x.res, x.ty)
                    L.append('VERIF_LANDINGPAD(%s);' % r)
                elif x.op == 'resume':
                    L.append('VERIF_RESUME(%s); return %s;' % (s.val(x.val), s.zero(f.rty)))
                elif x.op == 'phi':
                    decl(x.res, x.ty)
                elif x.op == 'extractvalue':
                    t = x.val.ty; acc = s.val(x.val)
                    for i in x.idx:
                        rt = s.resolve(t)
                        if is_union(t): raise NotImplementedError('extractvalue through a union')
                        if isinstance(rt, Struct): acc += '.f%d' % i; t = rt.f[i]
                        else: acc += '.a[%d]' % i; t = rt.t
                    decl(x.res, t); L.append('%s = %s;' % (r, acc))
                elif x.op == 'insertvalue':
                    decl(x.res, x.agg.ty)
                    L.append('%s = %s;' % (r, s.val(x.agg)))
                    t = x.agg.ty; acc = r
                    for i in x.idx:
                        rt = s.resolve(t)
                        if isinstance(rt, Struct): acc += '.f%d' % i; t = rt.f[i]
                        else: acc += '.a[%d]' % i; t = rt.t
                    L.append('%s = %s;' % (acc, s.val(x.elt)))
                elif x.op == 'insertelement':
                    decl(x.res, x.val.ty)
                    L.append('%s = %s; %s.v[%s] = %s;' % (r, s.val(x.val), r, s.idx(x.idx), s.val(x.elt)))
                elif x.op == 'extractelement':
                    decl(x.res, s.resolve(x.val.ty).t)
                    L.append('%s = %s.v[%s];' % (r, s.val(x.val), s.idx(x.idx)))
                elif x.op == 'shufflevector':
                    va = s.resolve(x.a.ty); n = va.n
                    if x.mask.kind == 'agg': mask = [None if e.text in ('undef', 'poison') else int(e.text) for e in x.mask.elems]
                    else: mask = [0] * s.resolve(x.mask.ty).n
                    decl(x.res, Vec(len(mask), va.t))
                    for i, m_ in enumerate(mask):
                        if m_ is None: continue
                        src = '%s.v[%d]' % (s.val(x.a), m_) if m_ < n else '%s.v[%d]' % (s.val(x.b), m_ - n)
                        L.append('%s.v[%d] = %s;' % (r, i, src))
                elif x.op == 'fence':
                    L.append('VERIF_FENCE();')
                elif x.op == 'cmpxchg':
                    vt = x.cmp.ty
                    rty = Struct([vt, Int(1)]); decl(x.res, rty)
                    L.append('VERIF_CMPXCHG(%s, %s, %s, %s);' % (r, s.val(x.ptr), s.val(x.cmp), s.val(x.new)))
                elif x.op == 'atomicrmw':
                    decl(x.res, x.val.ty)
                    L.append('VERIF_ATOMICRMW_%s(%s, %s, %s);' % (x.rop.upper(), r, s.val(x.ptr), s.val(x.val)))
                else:
                    raise NotImplementedError(x.op)
        hdr = s.proto(f) + '\n{\n'
        hdr += ''.join('  %s %s;\n' % (t, n) for n, t in decls.items())
        return hdr + '\n'.join('  ' + l for l in L) + '\n}\n'

    def size_align(s, t):
        t = s.resolve(t)
        if isinstance(t, Int): b = max(1, (t.b + 7) // 8); b2 = 1
        if isinstance(t, Int):
            n = 1
            while n < b: n *= 2
            return n, n
        if isinstance(t, Flt): return {'float': (4, 4), 'double': (8, 8), 'x86_fp80': (16, 16)}[t.k]
        if isinstance(t, Ptr): return 8, 8
        if isinstance(t, Arr):
            sz, al = s.size_align(t.t); return sz * t.n, al
        if isinstance(t, Vec):
            sz, al = s.size_align(t.t); return sz * t.n, min(sz * t.n, 32)
        if isinstance(t, Struct):
            off = 0; mal = 1
            for f in t.f:
                sz, al = s.size_align(f)
                if t.packed: al = 1
                mal = max(mal, al); off = (off + al - 1) // al * al + sz
            return (off + mal - 1) // mal * mal, mal
        raise TypeError(t)
    def field_offset(s, st, idx):
        off = 0
        for k, f in enumerate(st.f):
            sz, al = s.size_align(f)
            if st.packed: al = 1
            off = (off + al - 1) // al * al
            if k == idx: return off
            off += sz
        raise IndexError(idx)
    def zero(s, t):
        if isinstance(t, Void): return ''
        rt = s.resolve(t)
        if isinstance(rt, (Int, Flt, Ptr)): return '((%s)0)' % s.cty(t)
        return '((%s){0})' % s.cty(t)

    def gep_type(s, bty, args):
        cur = bty
        for a in args[2:]:
            rt = s.resolve(cur)
            if isinstance(rt, Struct): cur = rt.f[int(a.text)]
            else: cur = rt.t
        return cur

    def icmp(s, pred, t, a, b):
        if isinstance(t, Ptr):
            op = {'eq': '==', 'ne': '!=', 'ult': '<', 'ule': '<=', 'ugt': '>', 'uge': '>='}[pred]
            return '(%s %s %s)' % (a, op, b)
        if pred[0] == 's':
            a = s.signed(t, a); b = s.signed(t, b); pred = pred[1:]
        elif pred[0] == 'u': pred = pred[1:]
        op = {'eq': '==', 'ne': '!=', 'lt': '<', 'le': '<=', 'gt': '>', 'ge': '>='}[pred]
        return '(%s %s %s)' % (a, op, b)

    def cast(s, r, x):
        st = s.resolve(x.val.ty); dt = s.resolve(x.dty); v = s.val(x.val)
        if isinstance(st, Vec) or isinstance(dt, Vec):
            if x.cop == 'bitcast':
                return '{ union { %s s; %s d; } __u; __u.s = %s; %s = __u.d; }' % (s.cty(x.val.ty), s.cty(x.dty), v, r)
            out = []
            for i in range(dt.n):
                out.append(s.cast_scalar('%s.v[%d]' % (r, i), x.cop, st.t, dt.t, '%s.v[%d]' % (v, i)))
            return ' '.join(out)
        if x.cop == 'bitcast' and not isinstance(st, Ptr):
            return '{ union { %s s; %s d; } __u; __u.s = %s; %s = __u.d; }' % (s.cty(x.val.ty), s.cty(x.dty), v, r)
        return s.cast_scalar(r, x.cop, st, dt, v, x.dty)
    def lvalue_tmp(s, v, t):
        return v  # v is always a named local or compound literal; both addressable in C99/GNU
    def cast_scalar(s, r, cop, st, dt, v, dty=None):
        ct = s.cty(dty if dty is not None else dt)
        if cop == 'sext': return '%s = (%s)%s;' % (r, ct, s.signed(st, v))
        if cop == 'trunc' and isinstance(dt, Int) and dt.b == 1: return '%s = (%s & 1);' % (r, v)
        if cop in ('fptosi',): return '%s = (%s)(int%d_t)%s;' % (r, ct, dt.b, v)
        if cop in ('sitofp',): return '%s = (%s)%s;' % (r, ct, s.signed(st, v))
        if cop == 'ptrtoint': return '%s = (%s)(uintptr_t)%s;' % (r, ct, v)
        if cop == 'inttoptr': return '%s = (%s)(uintptr_t)%s;' % (r, ct, v)
        return '%s = (%s)%s;' % (r, ct, v)

    def binop(s, r, x):
        rt = s.resolve(x.ty)
        if isinstance(rt, Vec):
            out = []
            for i in range(rt.n):
                out.extend(s.binop_scalar('%s.v[%d]' % (r, i), x.bop, rt.t, '%s.v[%d]' % (s.val(x.a), i), '%s.v[%d]' % (s.val(x.b), i), x.flags))
            return out
        return s.binop_scalar(r, x.bop, rt, s.val(x.a), s.val(x.b), x.flags)
    def binop_scalar(s, r, op, t, a, b, flags):
        out = []
        ct = s.cty(t)
        if isinstance(t, Flt):
            o = {'fadd': '+', 'fsub': '-', 'fmul': '*', 'fdiv': '/'}[op]
            return ['%s = %s %s %s;' % (r, a, o, b)]
        if 'nsw' in flags and op in ('add', 'sub', 'mul'):
            chk = {'add': 'plus', 'sub': 'minus', 'mul': 'mult'}[op]
            out.append('VERIF_NSW(!__CPROVER_overflow_%s(%s, %s));' % (chk, s.signed(t, a), s.signed(t, b)))
        if op in ('add', 'sub', 'mul', 'and', 'or', 'xor'):
            o = {'add': '+', 'sub': '-', 'mul': '*', 'and': '&', 'or': '|', 'xor': '^'}[op]
            out.append('%s = (%s)(%s %s %s);' % (r, ct, a, o, b))
        elif op in ('udiv', 'urem'):
            out.append('%s = (%s)(%s %s %s);' % (r, ct, a, '/' if op == 'udiv' else '%', b))
        elif op in ('sdiv', 'srem'):
            out.append('%s = (%s)(%s %s %s);' % (r, ct, s.signed(t, a), '/' if op == 'sdiv' else '%', s.signed(t, b)))
        elif op in ('shl', 'lshr'):
            out.append('VERIF_SHIFT_OK(%s < %d);' % (b, t.b))
            out.append('%s = (%s)((%s)%s %s %s);' % (r, ct, ct, a, '<<' if op == 'shl' else '>>', b))
        elif op == 'ashr':
            out.append('VERIF_SHIFT_OK(%s < %d);' % (b, t.b))
            out.append('%s = (%s)(%s >> %s);' % (r, ct, s.signed(t, a), b))
        else: raise NotImplementedError(op)
        return out

    def call(s, f, bn, x, r, decl, goto):
        out = []
        cal = x.callee
        if cal.kind == 'global' and cal.name in s.M.aliases: cal = V('global', cal.ty, name=s.M.aliases[cal.name])
        if cal.kind == 'global':
            dn = s.M.dem.get(cal.name) or s.M.dem_decl.get(cal.name, cal.name)
            fatal = None
            if cal.name == '@__assert_fail':
                fatal = 'VERIF_ASSERT_FAIL("%s", %s);' % (s.cstr_text(x.args[0]), s.val(x.args[2]))
            elif re.match(r'unodb::detail::assert_failure\(', dn):
                fatal = 'VERIF_ASSERT_FAIL("%s", %s);' % (s.cstr_text(x.args[3]), s.val(x.args[1]))
            elif re.match(r'unodb::detail::cannot_happen\(', dn):
                fatal = 'VERIF_CANNOT_HAPPEN(%s);' % s.val(x.args[1])
            elif re.match(r'(unodb::detail::crash\(|unodb::detail::msg_stacktrace_abort\(|std::terminate\(\)$|__clang_call_terminate$|abort$|std::__throw_bad_optional_access|std::__glibcxx_assert_fail|__cxa_pure_virtual$|std::__throw_bad_function_call)', dn):
                fatal = 'VERIF_FATAL("%s");' % dn.split('(')[0]
            if fatal:
                s.asserts.append((s.M.dem.get(f.name, f.name), fatal))
                return [fatal + ' return %s;' % s.zero(f.rty)]
        args = ', '.join(s.val(a) for a in x.args)
        if cal.kind == 'global':
            name = cal.name
            s.need.append(name)
            cname = san(name)
            if name in s.M.decls and name not in s.M.funcs and not name.startswith('@llvm.'):
                cname = 'X_' + cname
            if name.startswith('@llvm.'):
                cname = 'VERIF_' + san(name)
                if name.startswith(('@llvm.lifetime', '@llvm.dbg', '@llvm.experimental.noalias')): return []
        else:
            cname = '(%s)' % s.val(cal)
        if cal.kind == 'global' and cal.name.startswith('@llvm.memcpy') and x.args[2].kind == 'const':
            # a constant-size copy whose source or destination is (a bitcast of) a pointer to an aggregate of exactly that size is a
            # typed struct assignment: CBMC then keeps pointer members intact (byte-wise copies lose pointer provenance)
            n_ = int(x.args[2].text); ty_ = None
            for a_ in (x.args[0], x.args[1]):
                df = s.cur_defs.get(a_.name) if a_.kind == 'local' else None
                if df is not None and df.op == 'cast' and df.cop == 'bitcast' and isinstance(df.val.ty, Ptr) and not isinstance(s.resolve(df.val.ty.t), (Int, Flt, Ptr, Void, Other, Fn)):
                    try: sz = s.size_align(df.val.ty.t)[0]
                    except Exception: sz = -1
                    if sz == n_: ty_ = df.val.ty.t; break
            if ty_ is not None:
                return ['*(%s *)%s = *(%s *)%s; /* typed memcpy %d */' % (s.cty(ty_), s.val(x.args[0]), s.cty(ty_), s.val(x.args[1]), n_)]
        if cal.kind == 'global' and cal.name.startswith('@llvm.memcpy') and x.args[2].kind == 'const' and int(x.args[2].text) in (1, 2, 4, 8):
            n_ = int(x.args[2].text)      # small constant-size copy: one scalar load/store instead of a byte loop
            return ['VERIF_MEMCPY_SMALL(%s, %s, %d);' % (s.val(x.args[0]), s.val(x.args[1]), n_ * 8)]
        if cal.kind == 'global' and cal.name.startswith(('@llvm.memcpy', '@llvm.memmove')) and x.args[2].kind == 'const':
            # constant-size copies (struct copies, small buffers) are always exact; only symbolic-length copies go through VERIF_MEMCPY,
            # which a harness may redirect to the witness contract
            return ['VERIF_MEMCPY_CONST(%s, %s, %s);' % (s.val(x.args[0]), s.val(x.args[1]), s.val(x.args[2]))]
        isvoid = isinstance(x.rty, Void)
        if not isvoid: decl(x.res or ('__unused%d' % id(x)), x.rty)
        lhs = '' if isvoid or not x.res else r + ' = '
        out.append('%s%s(%s);' % (lhs, cname, args))
        if x.op == 'invoke':
            out.append('if (verif_exc_pending) { %s } else { %s }' % (goto(bn, x.unwind), goto(bn, x.normal)))
        else:
            nounw = cal.kind == 'global' and s.is_nounwind(cal.name)
            if not nounw:
                out.append('if (verif_exc_pending) return %s;' % s.zero(f.rty))
        return out
    def cstr_text(s, v):
        """text of a C string constant referenced by a (gep of a) global, for obligation names"""
        g = None
        if v.kind == 'global': g = v.name
        elif v.kind == 'cexpr' and v.args and v.args[0].kind == 'global': g = v.args[0].name
        line = s.M.globals.get(g, '') if g else ''
        m = re.search(r'c"((?:[^"\\]|\\.)*)"', line)
        if not m: return '?'
        t = re.sub(r'\\([0-9A-Fa-f]{2})', lambda mm: chr(int(mm.group(1), 16)), m.group(1)).rstrip('\0')
        t = re.sub(r'[^ -~]', '?', t).replace('\\', '/').replace('"', "'")
        return t[:160]
    def is_nounwind(s, name):
        if name.startswith('@llvm.'): return True
        f = s.M.funcs.get(name) or s.M.decls.get(name)
        if f is None: return False
        txt = getattr(f, 'attrs_text', None) or getattr(f, 'decl_text', '')
        m = re.search(r'\) (?:[a-z_]+ )*#(\d+)', txt)
        if m:
            return int(m.group(1)) in s.M.nounwind_groups
        return 'nounwind' in txt

class ExtractionError(Exception):
    pass

def load(path):
    """parse module skeleton (function bodies are parsed lazily) and demangle all names"""
    import subprocess
    text = open(path).read()
    M = parse_module(text)
    M.nounwind_groups = set()
    for m in re.finditer(r'^attributes #(\d+) = \{([^}]*)\}', text, flags=re.M):
        if 'nounwind' in m.group(2).split(): M.nounwind_groups.add(int(m.group(1)))
    def dem(names):
        raw = [n[1:].strip('"') for n in names]
        out = subprocess.run(['llvm-cxxfilt'], input='\n'.join(raw), capture_output=True, text=True, check=True).stdout.split('\n')
        return dict(zip(names, out))
    M.aliases = {}
    for gname, line in M.globals.items():
        m_ = re.search(r' alias [^@]*(@"(?:[^"\\]|\\.)*"|@[-a-zA-Z$._0-9]+)\s*$', line)
        if m_: M.aliases[gname] = m_.group(1)
    M.dem = dem(list(M.funcs.keys()))
    M.dem_decl = dem(list(M.decls.keys()))
    return M

def resolve_names(M, table, what):
    """table: {alias: regex over demangled names}; each must match exactly one definition.  An alias ending in '*' may match one or more
    definitions (template instantiations that share one contract): they become ALIAS_0, ALIAS_1, ... plus an ALIAS_FOREACH(X) macro."""
    res = collections.OrderedDict(); groups = collections.OrderedDict()
    for alias, rx in table.items():
        hits = [n for n in M.funcs if re.search(rx, M.dem[n])]
        if alias.endswith('?'):          # optional: zero or one definition (e.g. an overload that only a modified tree instantiates)
            if len(hits) > 1: raise ExtractionError('%s %s: optional regex %r matches %d definitions' % (what, alias, rx, len(hits)))
            if hits: res[alias[:-1]] = hits[0]
            continue
        if alias.endswith('*'):
            if not hits: raise ExtractionError('%s %s: regex %r matches no definition' % (what, alias, rx))
            groups[alias[:-1]] = []
            for k, h in enumerate(sorted(hits)): res['%s_%d' % (alias[:-1], k)] = h; groups[alias[:-1]].append('%s_%d' % (alias[:-1], k))
            continue
        if len(hits) != 1:
            raise ExtractionError('%s %s: regex %r matches %d definitions%s' % (what, alias, rx, len(hits),
                                  ''.join('\n    ' + M.dem[h][:200] for h in hits[:6])))
        res[alias] = hits[0]
    res.groups = groups
    return res

def translate(M, roots, stubs=None, rt1='verif_rt.h', rt2='verif_rt2.h'):
    """roots/stubs: OrderedDict alias -> regex over demangled names.  Returns dict(types=..., body=..., info=...)."""
    stubs = stubs or {}
    rn = resolve_names(M, roots, 'root'); sn = resolve_names(M, stubs, 'stub')
    E = Emitter(M)
    for a, n in list(rn.items()) + list(sn.items()): E.alias_of[n] = a
    stubbed = set(sn.values())
    done = collections.OrderedDict(); work = list(rn.values()); called_stubs = set()
    while work:
        n = work.pop(0)
        if n in done or n not in M.funcs: continue
        if n in stubbed: called_stubs.add(n); continue
        E.need = []
        try:
            done[n] = E.emit_function(M.funcs[n])
        except Exception as ex:
            raise ExtractionError('cannot translate %s: %r' % (M.dem.get(n, n)[:200], ex))
        for m_ in E.need:
            if m_ in M.funcs and m_ not in done: work.append(m_)
    body = []
    for n in done: body.append(E.proto(M.funcs[n]) + ';')
    for n in sorted(stubbed): body.append(E.proto(M.funcs[n]) + ';  /* replaced by contract */')
    gseen = set()
    for n, c in done.items():
        for g in re.findall(r'&g_(\w+)\)', c): gseen.add(g)
    sanmap = {san(g): g for g in M.globals}
    changed = True
    while changed:
        changed = False
        for gs in list(gseen):
            g = sanmap.get(gs)
            if not g: continue
            for ref in re.findall(r'@"(?:[^"\\]|\\.)*"|@[-a-zA-Z$._0-9]+', M.globals[g].split(' = ', 1)[1]):
                if ref in M.globals and san(ref) not in gseen: gseen.add(san(ref)); changed = True
    for gname, line in M.globals.items():
        if san(gname) not in gseen: continue
        rhs = line.split(' = ', 1)[1]
        p = P(tokenize(rhs))
        while p.peek()[1] not in ('global', 'constant'): p.next()
        isconst = p.next()[1] == 'constant'
        t = p.type()
        if gname.startswith(('@_ZTI', '@_ZTV', '@_ZTS')) or p.peek()[0] == 'eof' or p.at(','):
            body.append('extern %s g_%s;' % (E.cty(t), san(gname))); continue
        try:
            v = value(p, t)
            body.append('static %s%s g_%s = %s;' % ('const ' if isconst else '', E.cty(t), san(gname), E.val(v)))
        except Exception as ex:
            body.append('extern %s g_%s; /* initialiser not translated: %s */' % (E.cty(t), san(gname), str(ex)[:80]))
    externals = []
    allneeded = set()
    for n, c in done.items():
        for g in re.findall(r'\b(X_\w+)', c): allneeded.add(g)
    for n, f in M.decls.items():
        if 'X_' + san(n) in allneeded and not n.startswith('@llvm.'):
            body.append(E.proto(f, 'X_' + san(n)) + ';')
            externals.append(M.dem_decl.get(n, n))
    for n, c in done.items():
        body.append('/* %s */' % M.dem[n][:300].replace('*/', '* /'))
        body.append(c)
    # signature typedefs for aliased functions (so that harnesses never spell generated struct names)
    sig = []
    for a, n in list(rn.items()) + list(sn.items()):
        f = M.funcs[n]
        sig.append('#define %s %s' % (a, san(n)))
        sig.append('#define HAVE_%s 1' % a)
        if not isinstance(f.rty, Void): sig.append('typedef %s %s_ret;' % (E.cty(f.rty), a))
        for i, (t, nm, attrs) in enumerate(f.params): sig.append('typedef %s %s_a%d;' % (E.cty(t), a, i))
    o = ['#include <stdint.h>\n#include <stddef.h>\n#include "%s"\n' % rt1]
    for nm, d in E.struct_order: o.append(nm + ';')
    for k, td in E.typedefs.items(): o.append(td[1])
    emitted = set(); defs = dict(E.struct_order)
    def emit_struct(nm):
        if nm in emitted: return
        emitted.add(nm)
        d = defs.get(nm)
        if d is None: return
        for dep in re.findall(r'(struct \w+) (?:f\d+|a\[|v\[)', d):
            if dep != nm: emit_struct(dep)
        o.append(d)
    for nm, d in E.struct_order: emit_struct(nm)
    vecs = sorted(set(nm.split()[1] for nm, d in E.struct_order if nm.startswith('struct V')))
    for v in vecs: o.append('#define VERIF_HAVE_%s 1' % v)
    o.append('#include "%s"' % rt2)
    o.extend(sig)
    for g_, members_ in list(getattr(rn, 'groups', {}).items()) + list(getattr(sn, 'groups', {}).items()):
        o.append('#define %s_FOREACH(X) %s' % (g_, ' '.join('X(%s)' % m_ for m_ in members_)))
    b = []
    loops = []
    for fid, lab, dem_ in E.loop_hooks:
        b.append('/* loop %s / %s in %s */' % (fid, lab, dem_[:200].replace('*/', '* /')))
        for k in ('HEAD', 'BACK'):
            b.append('#ifndef VERIF_LOOP_%s_%s_%s\n#define VERIF_LOOP_%s_%s_%s ((void)0)\n#endif' % (k, fid, lab, k, fid, lab))
        hv = E.loop_havoc.get((fid, lab), [])
        b.append('#define VERIF_LOOP_HAVOC_%s_%s do { %s } while (0)' % (fid, lab, ' '.join('{ %s t_; %s = t_; }' % (ty, nm) for nm, ty in hv)))
        iv = E.loop_iv.get((fid, lab))
        if iv: b.append('#define VERIF_LOOP_IV_%s_%s %s' % (fid, lab, iv))
        loops.append({'fn': fid, 'label': lab, 'in': dem_[:200], 'havoc': [nm for nm, ty in hv], 'iv': iv})
    b.extend(body)
    info = {'functions': [M.dem[n][:240] for n in done], 'n_functions': len(done), 'stubs': [M.dem[n][:240] for n in sorted(called_stubs)],
            'externals': sorted(externals), 'loops': loops, 'asserts': len(E.asserts),
            'roots': {a: M.dem[n][:240] for a, n in rn.items()}}
    return {'types': '\n'.join(o) + '\n', 'body': '\n'.join(b) + '\n', 'info': info}

def main():
    import argparse, json
    ap = argparse.ArgumentParser()
    ap.add_argument('ir'); ap.add_argument('--out', required=True, help='output prefix: <out>_types.h <out>_body.h <out>_info.json')
    ap.add_argument('--root', action='append', default=[], help='ALIAS=regex'); ap.add_argument('--stub', action='append', default=[])
    a = ap.parse_args()
    try:
        M = load(a.ir)
        r = translate(M, collections.OrderedDict(x.split('=', 1) for x in a.root), collections.OrderedDict(x.split('=', 1) for x in a.stub))
    except ExtractionError as ex:
        print('EXTRACTION-ERROR:', ex, file=sys.stderr); sys.exit(2)
    open(a.out + '_types.h', 'w').write(r['types']); open(a.out + '_body.h', 'w').write(r['body'])
    json.dump(r['info'], open(a.out + '_info.json', 'w'), indent=1)
    print('translated %d functions, %d loops, %d externals' % (r['info']['n_functions'], len(r['info']['loops']), len(r['info']['externals'])), file=sys.stderr)

if __name__ == '__main__':
    main()
