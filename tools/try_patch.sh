#!/bin/sh
# development helper: apply a patch to /repo, run the given run_checks arguments, always restore /repo
p=$1; shift
git -C /repo apply "$p" || exit 3
cd /verif && python3 tools/run_checks.py "$@"; rc=$?
git -C /repo checkout -- . ; echo "rc=$rc; repo restored: $(git -C /repo status --short | grep -v _build | wc -l) dirty files"
exit $rc
