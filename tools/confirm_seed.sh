#!/bin/bash
# usage: confirm_seed.sh <agent-out-name> <seed-id> <property> [demo extra g++ flags...]
# Confirms in a fresh scratch worktree: demo passes on pristine, fails with the patch, test suite passes with the patch. Then stores /verif/seeded/<id>/.
set -u
n=$1; id=$2; prop=$3; shift 3; extra="$*"
out=/tmp/wt/out/$n; wt=/tmp/wt/confirm_$id
git -C /repo worktree remove --force $wt 2>/dev/null; git -C /repo worktree add -q --detach $wt HEAD || exit 3
rmdir $wt/3rd_party/googletest 2>/dev/null; ln -s /repo/3rd_party/googletest $wt/3rd_party/googletest
demo_cmd="g++ -std=c++20 -O1 -DNDEBUG -DUNODB_DETAIL_WITH_STATS -DUNODB_SPINLOCK_LOOP_VALUE=1 -mavx2 $extra -I$wt $out/demo.cpp $wt/qsbr.cpp $wt/qsbr_ptr.cpp $wt/art_internal.cpp -lpthread -o $wt/demo_bin"
if [ -f $out/run.sh ]; then echo "NOTE: run.sh present, check manually"; fi
$demo_cmd 2>$wt/demo_build.log || { echo "demo does not build on pristine"; tail -5 $wt/demo_build.log; }
( cd $wt && timeout 600 ./demo_bin >/dev/null 2>&1 ); rc_pristine=$?
git -C $wt apply $out/patch.diff || { echo "patch does not apply"; exit 3; }
$demo_cmd 2>$wt/demo_build.log || { echo "demo does not build with patch"; }
( cd $wt && timeout 600 ./demo_bin >/dev/null 2>&1 ); rc_patched=$?
( cd $wt && cmake -G Ninja -B _build -DCMAKE_BUILD_TYPE=RelWithDebInfo -DCMAKE_CXX_FLAGS=-Wno-error -DCMAKE_COMPILE_WARNING_AS_ERROR=OFF -DCMAKE_POLICY_VERSION_MINIMUM=3.5 -DBUILD_TESTING=ON -DFETCHCONTENT_SOURCE_DIR_GOOGLETEST=/usr/src/googletest -DFETCHCONTENT_TRY_FIND_PACKAGE_MODE=ALWAYS -DFETCHCONTENT_UPDATES_DISCONNECTED=ON -DCPM_USE_LOCAL_PACKAGES=ON >/dev/null 2>&1 && cmake --build _build -j12 >/dev/null 2>&1 && ctest --test-dir _build -j8 --timeout 900 2>&1 | tail -3 > ctest.log ); 
tests=$(grep -c "100% tests passed" $wt/ctest.log)
echo "seed $id: demo pristine rc=$rc_pristine, patched rc=$rc_patched, tests pass with patch=$tests"
if [ $rc_pristine -eq 0 ] && [ $rc_patched -ne 0 ] && [ $tests -eq 1 ]; then
  mkdir -p /verif/seeded/$id && cp $out/patch.diff $out/demo.cpp /verif/seeded/$id/ && cp $out/NOTES.md /verif/seeded/$id/NOTES.md
  python3 - <<PY
import json
json.dump({"id":"$id","property":"$prop","source":"independent sub-agent given only the property text and its own scratch worktree","demo_flags":"$extra",
 "confirmed":{"demo_on_pristine_rc":$rc_pristine,"demo_with_patch_rc":$rc_patched,"existing_test_suite_with_patch":"10/10 ctest entries pass"},
 "what_ran":"tools/confirm_seed.sh in a fresh scratch worktree: build demo on pristine tree (exit 0), git apply patch.diff, rebuild demo (exit non-zero), cmake+ninja+ctest with the patch (all pass)",
 "needs_to_manifest":"see NOTES.md","detected_by":[]}, open("/verif/seeded/$id/meta.json","w"), indent=1)
PY
  echo CONFIRMED
else echo NOT-CONFIRMED; fi
git -C /repo worktree remove --force $wt
