/* setup_cmd self-test: the intrinsic models of rt/verif_rt2.h against the hardware (exhaustive where small, randomised otherwise). */
#include <stdio.h>
#include <string.h>
#include <immintrin.h>
#define __CPROVER_assert(c, m) ((void)0)
#define __CPROVER_assume(c) ((void)0)
#include <stdint.h>
#include <stdlib.h>
void *verif_exc_tinfo;
struct V16xi8 { uint8_t v[16]; } __attribute__((aligned(16))); struct V32xi8 { uint8_t v[32]; } __attribute__((aligned(32)));
struct V8xi32 { uint32_t v[8]; } __attribute__((aligned(32))); struct V16xi16 { uint16_t v[16]; } __attribute__((aligned(32)));
struct V4xi32 { uint32_t v[4]; } __attribute__((aligned(16))); struct V8xi16 { uint16_t v[8]; } __attribute__((aligned(16)));
struct V4xi64 { uint64_t v[4]; } __attribute__((aligned(32))); struct V2xi64 { uint64_t v[2]; } __attribute__((aligned(16)));
#define VERIF_HAVE_V16xi8 1
#define VERIF_HAVE_V32xi8 1
#define VERIF_HAVE_V8xi32 1
#define VERIF_HAVE_V16xi16 1
#define VERIF_HAVE_V4xi32 1
#define VERIF_HAVE_V8xi16 1
#define VERIF_HAVE_V4xi64 1
#define VERIF_HAVE_V2xi64 1
#include "verif_rt2.h"
static uint64_t s = 88172645463325252ULL; static uint64_t rnd(void) { s ^= s << 13; s ^= s >> 7; s ^= s << 17; return s; }
static uint64_t interesting(void) { uint64_t r = rnd(); switch (rnd() % 6) { case 0: return 0; case 1: return ~0ULL; case 2: return 1ULL << (rnd() % 64); case 3: return r & (r >> 17) & (r << 9); case 4: return r | 0x8000000080000000ULL; default: return r; } }
int main(void) {
  unsigned long n = 0, bad = 0;
  for (uint64_t x = 0; x < (1u << 16); x++) { if (VERIF_llvm_2ebswap_2ei16((uint16_t)x) != __builtin_bswap16((uint16_t)x)) bad++; n++; }
  for (int it = 0; it < 2000000; it++) {
    uint64_t x = interesting(); uint32_t y = (uint32_t)interesting();
    if (VERIF_llvm_2ebswap_2ei64(x) != __builtin_bswap64(x) || VERIF_llvm_2ebswap_2ei32(y) != __builtin_bswap32(y)) bad++;
    if (verif_ctpop64(x) != (uint64_t)__builtin_popcountll(x) || verif_ctpop32(y) != (uint32_t)__builtin_popcount(y)) bad++;
    if (x && (verif_cttz64(x) != (uint64_t)__builtin_ctzll(x) || verif_ctlz64(x) != (uint64_t)__builtin_clzll(x))) bad++;
    if (y && (verif_cttz32(y) != (uint32_t)__builtin_ctz(y) || verif_ctlz32(y) != (uint32_t)__builtin_clz(y))) bad++;
    if (verif_cttz64(0) != 64 || verif_ctlz64(0) != 64 || verif_cttz32(0) != 32 || verif_ctlz32(0) != 32) bad++;
    struct V32xi8 a; struct V8xi32 p, q; struct V4xi64 t, u;
    for (int i = 0; i < 4; i++) { uint64_t w = interesting(); memcpy(a.v + 8 * i, &w, 8); t.v[i] = interesting(); u.v[i] = interesting(); }
    for (int i = 0; i < 8; i++) { p.v[i] = (uint32_t)interesting(); q.v[i] = (uint32_t)interesting(); }
    __m256i va, vp, vq, vt, vu; memcpy(&va, &a, 32); memcpy(&vp, &p, 32); memcpy(&vq, &q, 32); memcpy(&vt, &t, 32); memcpy(&vu, &u, 32);
    if (VERIF_llvm_2ex86_2eavx2_2epmovmskb(a) != (uint32_t)_mm256_movemask_epi8(va)) bad++;
    struct V16xi16 pk = VERIF_llvm_2ex86_2eavx2_2epackssdw(p, q); __m256i hw = _mm256_packs_epi32(vp, vq); if (memcmp(&pk, &hw, 32)) bad++;
    if (VERIF_llvm_2ex86_2eavx_2eptestz_2e256(t, u) != (uint32_t)_mm256_testz_si256(vt, vu)) bad++;
    struct V16xi8 b, c; memcpy(&b, &a, 16); memcpy(&c, a.v + 16, 16); __m128i vb, vc; memcpy(&vb, &b, 16); memcpy(&vc, &c, 16);
    if (VERIF_llvm_2ex86_2esse2_2epmovmskb_2e128(b) != (uint32_t)_mm_movemask_epi8(vb)) bad++;
    struct V16xi8 mx = VERIF_llvm_2eumax_2ev16i8(b, c), mn = VERIF_llvm_2eumin_2ev16i8(b, c); __m128i hmx = _mm_max_epu8(vb, vc), hmn = _mm_min_epu8(vb, vc);
    if (memcmp(&mx, &hmx, 16) || memcmp(&mn, &hmn, 16)) bad++;
    struct V4xi32 p4, q4; memcpy(&p4, &p, 16); memcpy(&q4, &q, 16); __m128i vp4, vq4; memcpy(&vp4, &p4, 16); memcpy(&vq4, &q4, 16);
    struct V8xi16 pk4 = VERIF_llvm_2ex86_2esse2_2epackssdw_2e128(p4, q4); __m128i h4 = _mm_packs_epi32(vp4, vq4); if (memcmp(&pk4, &h4, 16)) bad++;
    struct V2xi64 t2, u2; memcpy(&t2, &t, 16); memcpy(&u2, &u, 16); __m128i vt2, vu2; memcpy(&vt2, &t2, 16); memcpy(&vu2, &u2, 16);
    if (VERIF_llvm_2ex86_2esse41_2eptestz(t2, u2) != (uint32_t)_mm_testz_si128(vt2, vu2)) bad++;
    n += 14;
  }
  printf("intrinsic model self-test: %lu comparisons against the hardware, %lu disagreements\n", n, bad);
  return bad != 0;
}
