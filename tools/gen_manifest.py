#!/usr/bin/env python3
"""Writes /verif/MANIFEST.json from the table below (single source of truth for claims); validates against the schema if jsonschema is importable."""
import json, os, sys
V = os.path.dirname(os.path.dirname(os.path.abspath(__file__)))
props = [json.loads(l)['id'] for l in open(os.path.join(V, 'properties.jsonl'))]

TECH = 'contract-based deductive verification: CBMC 6.11 code contracts / Hoare-style pre-postconditions and loop invariants on the real functions (clang -O0 IR -> C extraction), SAT back end'
CLAIMS = {
 'C11': dict(level='proof', ref='DESIGN.md 7 (C11/C12/C15)',
   text='Functional contracts of every key_encoder::encode overload, encode_text (strip loop closed by invariant + variant), ensure_available/ensure_capacity, append_bytes and detail::compare are discharged on the extracted real functions for all inputs (full 2^128 input-pair domains for the order lemmas of the 64-bit and double encodings, all text lengths). Order of texts and of multi-component keys follows by machine-checked lemmas over those contracts (first-difference witness).',
   note='Trusted: clang-14 front end and the IR->C translation; memcpy/memcmp as assumed libc contracts (witness form); existence of a first-difference index and list induction over the schema length are meta-level steps; sequential code only.'),
 'C12': dict(level='proof', ref='DESIGN.md 7 (C11/C12/C15)',
   text='decode(encode(v)) is proved bit-exact on the real encoder/decoder pair for all ten component types over their full domains (canonical quiet NaN for NaNs), each fixed-size component advances both offsets by exactly sizeof(T); encode from ANY valid encoder state (inline or heap buffer, growth or not) writes the same bytes and preserves earlier bytes; reset() only zeroes the offset; buffer growth preserves content, frees the old heap buffer exactly once and leaves the encoder unchanged on allocation failure.',
   note='As C11. Decoding is proved for an encoder in its inline-buffer state at an arbitrary offset; independence from the buffer state is carried by the any-state encode contracts.'),
 'C15': dict(level='proof', ref='DESIGN.md 7 (C11/C12/C15)',
   text='encode_text contract on the real function: reads only the first min(len, maxlen) input bytes (the caller owns no more; any further read is a failing pointer check), emits n+3 <= maxlen+3 bytes of the documented shape; equality <=> normalised equality and prefix-freedom of blocks are lemmas over that contract; fixed-width components by the round-trip/equality contracts; concatenation lemma for multi-component keys.',
   note='Known finding (genuine, not repaired): text with an interior 0x00 where another text ends breaks prefix-freedom; reported as KNOWN-FINDING, every other violation still alarms. Otherwise as C11.'),
}
NA = {
}
CLAIMS['C13'] = dict(level='proof', ref='DESIGN.md 7 (C13)',
   text='Every public method of the real mutex_db (both key kinds, NDEBUG and assertion-enabled extractions) is proved against: the inner index is touched only while the index mutex is held by the caller (inner calls replaced by contracts that require it), the mutex is taken exactly once and released on every normal and exceptional exit, except get on a hit, which returns a handle that owns the lock (owns_lock == has_value == mutex still held). key_found and its debug assertion included.',
   note='Trusted: std::mutex/pthread_mutex give mutual exclusion and happens-before (ghost owner flag model, lock never fails); linearizability is the textbook consequence of mutual exclusion plus C01 and is not mechanised; the wrapped index operations are covered by C01/C02, not here.',
   technique='Hoare-style contracts on the real mutex_db methods with a ghost lock-owner state; callee contracts for the wrapped index; CBMC (SAT)')
CLAIMS['C07'] = dict(level='proof', ref='DESIGN.md 4.5, 7 (C07)',
   text='Rely/guarantee proof on the extracted real optimistic_lock methods: every atomic access is preceded by an arbitrary burst of other threads\' steps allowed by the rely; every own store/CAS is classified (acquire/release/obsolete) and checked against the guarantee and the lock-word invariant. Client theorems as postconditions: active write guard = unique holder and upgrade only if no writer since the section was opened (T1); successful check/unlock = snapshot, no overlapping writer (T2); obsolete final for new sections, open sections and upgrades (T3); nothing held after guard lifetime, debug read-section counter balanced (T4). NDEBUG and assertion-enabled extractions.',
   note='Assumes sequentially consistent atomics (memory orders dropped), fewer than 2^60 acquisitions (no version wrap), soundness of the R/G rule; the spin loop of try_read_lock is cut with invariant I (partial correctness, no termination claim). Counterexamples are interleavings: reported with no-failing-input-found.',
   technique='rely/guarantee contracts (ghost holder/acquire/release state) on the real lock methods, discharged by CBMC (SAT)')
DEFAULT_NA = 'check not built yet at this commit (see DESIGN.md section 0 for the intended decision)'

checks = []
for p in props:
    if p in CLAIMS:
        c = CLAIMS[p]
        checks.append({'property_id': p, 'quick_cmd': 'python3 tools/run_checks.py --property %s --tier quick' % p,
                       'thorough_cmd': 'python3 tools/run_checks.py --property %s --tier thorough' % p,
                       'evidence_file': 'evidence/%s.json' % p, 'replay_cmd_template': 'python3 tools/run_checks.py --replay {path}',
                       'engine': 'cbmc-contracts', 'level_claimed': {'category': c['level'], 'text': c['text'], 'design_ref': c['ref']},
                       'level_note': c['note'], 'technique': c.get('technique', TECH)})
man = {'version': 1, 'setup_cmd': 'python3 tools/setup.py',
       'hooks': {'guard': 'UNODB_DETAIL_VERIF', 'enable': 'no source hooks are needed: the checks extract clang -O0 LLVM IR of /repo\'s current working tree (IR has no access control); native replay drivers use -fno-access-control',
                 'baseline_off_cmd': 'ctest --test-dir /repo/_build -j8 --timeout 900', 'source_commits': [], 'add_only': True},
       'engines': [{'name': 'cbmc-contracts', 'path': 'tools/run_checks.py', 'serves_properties': sorted(CLAIMS), 'kind_free_text': 'clang -O0 LLVM IR of the real code -> C (tools/ll2c.py) -> goto-cc -> goto-instrument --dfcc / cut-point loop invariants -> cbmc (SAT)'}],
       'checks': checks,
       'notes': 'Exit 0 = all obligations discharged; exit 1 + VIOLATION line = an obligation failed with a verifier counterexample (replayed natively where a driver exists, otherwise the line ends with no-failing-input-found); exit 2 = undecided (extraction break, timeout, vacuity canary passed), never a verdict.',
       'not_applicable': [{'property_id': p, 'reason': NA.get(p, DEFAULT_NA)} for p in props if p not in CLAIMS]}
json.dump(man, open(os.path.join(V, 'MANIFEST.json'), 'w'), indent=1)
try:
    import jsonschema
    jsonschema.validate(man, json.load(open('/root/.vp/MANIFEST.schema.json'))); print('MANIFEST.json valid,', len(checks), 'checks')
except ImportError:
    print('MANIFEST.json written (jsonschema not importable in this interpreter)')
