#!/usr/bin/env python3
"""Command-line front end.  cwd = /verif.
   python3 tools/run_checks.py --property C11 --tier quick|thorough
   python3 tools/run_checks.py --replay replay/C11/<file>.json
   python3 tools/run_checks.py --job enc.fp64 [--keep]        (development)
Every invocation re-extracts from /repo's current working tree into a scratch directory that is removed on exit."""
import os, sys, re, json, time, shutil, argparse, tempfile, collections, subprocess
from concurrent.futures import ProcessPoolExecutor, as_completed
sys.path.insert(0, os.path.dirname(os.path.abspath(__file__)))
import vf

def known_findings():
    p = os.path.join(vf.VERIF, 'known_findings.json')
    if not os.path.exists(p): return {'findings': [], 'fixed': []}
    return json.load(open(p))

def _run(args):
    jid, cfg, scratch, keep, variant = args
    j = [x for x in vf.JOBS if x.id == jid][0]
    r = vf.run_job(j, cfg, scratch, keep=keep, variant=variant)
    extra = {}
    if r.status == 'failed':
        extra['traces'] = {}
        for p in r.failed[:3]:
            if r.job.irfacts: extra['traces'][p['id']] = ('static fact not found in the IR', {}); continue
            try: extra['traces'][p['id']] = vf.trace_for(r, p)
            except Exception as ex: extra['traces'][p['id']] = ('trace unavailable: %s' % ex, {})
    return {'key': r.key, 'job': jid, 'cfg': cfg, 'variant': r.variant, 'status': r.status, 'reason': r.reason, 'props': r.props, 'solver_s': r.solver_s, 'cached': bool(getattr(r, 'cached', False)),
            'wall_s': r.wall_s, 'failed': r.failed, 'known_hit': r.known_hit, 'canaries': r.canaries, 'info': r.info, 'cmd': r.cmd,
            'n_obl': getattr(r, 'n_obl', 0), 'n_ok': getattr(r, 'n_ok', 0), 'log_tail': r.log[-3000:] if r.status != 'proved' else '', **extra}

def native_replay(job, inputs, scratch):
    """returns (status, text): status in confirmed / not-reproduced / unavailable"""
    # driver name conventions: *_scenario.cpp = a fixed native scenario for the job's obligations (runs without counterexample inputs);
    # *_debug*.cpp = built with assertions enabled (no -DNDEBUG), for obligations that only exist in the assertion-enabled configuration
    if not job.replay or (not inputs and '_scenario' not in job.replay): return 'unavailable', ''
    src = os.path.join(vf.VERIF, job.replay)
    exe = os.path.join(scratch, 'replay_' + re.sub(r'\W', '_', job.replay))
    if not os.path.exists(exe):
        cmd = ['g++', '-std=c++20', '-O1', '-fno-access-control', '-Wno-everything', '-w'] + ([] if '_debug' in job.replay else ['-DNDEBUG']) + ['-DUNODB_DETAIL_WITH_STATS', '-DUNODB_SPINLOCK_LOOP_VALUE=1', '-mavx2',
               '-I' + vf.REPO, '-I' + os.path.join(vf.VERIF, 'spec'), '-I' + os.path.join(vf.VERIF, 'replay'), src, os.path.join(vf.REPO, 'qsbr.cpp'), os.path.join(vf.REPO, 'qsbr_ptr.cpp'),
               os.path.join(vf.REPO, 'art_internal.cpp'), '-lpthread', '-o', exe]
        rc, so, se, dt = vf.sh(cmd, timeout=600)
        if rc != 0: return 'unavailable', 'replay driver does not build: ' + se[-800:]
    argv = [exe, job.id] + ['%s=%s' % (k, v['hex']) for k, v in inputs.items() if 'hex' in v]
    rc, so, se, dt = vf.sh(argv, timeout=120)
    if rc == 1: return 'confirmed', so[-2000:]
    if rc == 0: return 'not-reproduced', so[-2000:]
    return 'unavailable', (so + se)[-800:]

def main():
    ap = argparse.ArgumentParser()
    ap.add_argument('--property'); ap.add_argument('--tier', default=os.environ.get('VERIF_TIER', 'quick'))
    ap.add_argument('--job', action='append'); ap.add_argument('--keep', action='store_true'); ap.add_argument('--list', action='store_true')
    ap.add_argument('--replay'); ap.add_argument('--workers', type=int, default=int(os.environ.get('VERIF_WORKERS', '12')))
    ap.add_argument('--cfg')
    a = ap.parse_args()
    t0 = time.time()
    seed = int(os.environ.get('VERIF_SEED', '0') or 0)
    vf.load_registry()
    if a.list:
        for j in vf.JOBS: print(j.id, j.props, j.tier, j.cfgs)
        return 0
    if a.replay:
        d = json.load(open(a.replay))
        print(json.dumps({k: d[k] for k in d if k not in ('verifier_output',)}, indent=1))
        print(d.get('verifier_output', '')[-6000:])
        a.job = [d['job']]; a.property = d['property']; a.cfg = d.get('cfg')
    pid = a.property
    jobs = [j for j in vf.JOBS if (a.job and j.id in a.job) or (not a.job and pid in j.props and (a.tier == 'thorough' or j.tier == 'quick'))]
    if not jobs:
        print('no jobs for', pid or a.job); return 2
    scratch_root = os.environ.get('VERIF_SCRATCH', '/var/tmp')
    os.makedirs(scratch_root, exist_ok=True)
    scratch = tempfile.mkdtemp(prefix='verif_', dir=scratch_root)
    try:
        tasks = []
        for j in jobs:
            cfgs = [a.cfg] if a.cfg else ((j.thorough_cfgs or j.cfgs) if a.tier == 'thorough' else j.cfgs)
            for c in cfgs:
                for v in (j.variants or [None]): tasks.append((j.id, c, scratch, a.keep, v))
        # extract IR up front (parallel clang), so that workers only translate
        need = sorted(set((j.unit, t[1]) for j in jobs for t in tasks if t[0] == j.id))
        with ProcessPoolExecutor(max_workers=min(a.workers, 16)) as ex:
            futs = {ex.submit(vf.extract_ir, u, c, scratch): (u, c) for u, c in need}
            futs.update({ex.submit(vf.extract_layout, c, scratch): ('layout', c) for c in sorted(set(c for u, c in need))})
            for f in as_completed(futs):
                try: f.result()
                except vf.Undecided as e:
                    print('UNDECIDED extraction %s: %s' % (futs[f], e)); return 2
        results = []
        with ProcessPoolExecutor(max_workers=a.workers) as ex:
            futs = [ex.submit(_run, t) for t in tasks]
            for f in as_completed(futs):
                r = f.result(); results.append(r)
                print('%-9s %-44s obligations=%-5d failed=%-3d canaries=%d  %.1fs %s' % (r['status'].upper(), r['key'], r['n_obl'], len(r['failed']), r['canaries'], r['wall_s'],
                      ('  ' + r['reason'][:300].replace('\n', ' | ')) if r['reason'] else ''), flush=True)
        results.sort(key=lambda r: r['key'])
        kf = known_findings(); listed = {(k['property'], k['key']): k for k in kf.get('findings', [])}
        violations = []; known_lines = []; undecided = [r for r in results if r['status'] == 'undecided']
        byid = {j.id: j for j in vf.JOBS}
        for r in results:
            for p in r['known_hit']:
                m = re.match(r'known-finding\[([^\]]+)\]', p['desc']); key = m.group(1) if m else '?'
                if (pid, key) in listed:
                    known_lines.append('KNOWN-FINDING: property=%s %s' % (pid, listed[(pid, key)]['what']))
                elif any(k['key'] == key for k in kf.get('findings', [])) and pid is not None:
                    pass                        # finding recorded for another property that shares this job: not this property's obligation
                elif pid is None and any(k['key'] == key for k in kf.get('findings', [])):
                    known_lines.append('KNOWN-FINDING: property=%s %s' % ([k for k in kf['findings'] if k['key'] == key][0]['property'], [k for k in kf['findings'] if k['key'] == key][0]['what']))
                else:
                    r['failed'].append(p)      # an unlisted finding is an ordinary violation
                    r['status'] = 'failed'
            for n, p in enumerate(r['failed']):
                tr, inputs = r.get('traces', {}).get(p['id'], ('', {}))
                st, txt = native_replay(byid[r['job']], inputs, scratch)
                rp_dir = os.path.join(vf.VERIF, 'replay', 'out', pid or 'dev'); os.makedirs(rp_dir, exist_ok=True)
                pidname = p['id'] if len(p['id']) < 60 else (vf.hashlib.sha1(p['id'].encode()).hexdigest()[:10] + '_' + p['id'].split('.', 1)[-1][-40:])
                path = os.path.join(rp_dir, re.sub(r'[^A-Za-z0-9_.-]', '_', '%s__%s' % (r['key'], pidname)) + '.json')
                json.dump({'property': pid, 'job': r['job'], 'cfg': r['cfg'], 'variant': r['variant'], 'obligation': p['id'], 'description': p['desc'], 'status': p['status'],
                           'functions_under_contract': byid[r['job']].under_contract, 'inputs': inputs, 'native_replay': st, 'native_output': txt,
                           'checker_cmd': r['cmd'], 'verifier_output': tr[-60000:] if tr else r['log_tail']}, open(path, 'w'), indent=1)
                violations.append((path, st, p, r))
        for l in sorted(set(known_lines)): print(l)
        nrp = [v for v in violations if v[1] == 'not-reproduced']
        for path, st, p, r in violations:
            if st == 'not-reproduced':
                print('UNDECIDED %s: counterexample for "%s" did not reproduce on the real code; model or extraction suspect (%s)' % (r['key'], p['desc'], path))
            else:
                print('VIOLATION property=%s replay=%s  obligation="%s" job=%s%s' % (pid, path, p['desc'][:160], r['key'], '' if st == 'confirmed' else ' no-failing-input-found'))
        real_viol = [v for v in violations if v[1] != 'not-reproduced']
        # ---------------------------------------------------------------------------------- evidence
        if pid and not a.job:
            n_obl = sum(r['n_obl'] for r in results); n_ok = sum(r['n_ok'] for r in results)
            fns = []; trusted = []; bounded = []; ext = set(); stubs = set()
            for r in results:
                j = byid[r['job']]
                for f in j.under_contract:
                    if f not in fns: fns.append(f)
                for t in j.trusted:
                    if t not in trusted: trusted.append(t)
                if j.bounded: bounded.append('%s: %s' % (j.id, j.bounded))
                ext.update(r['info'].get('externals', [])); stubs.update(r['info'].get('stubs', []))
            samples = []
            for r in results[:40]:
                ob = [p for p in r['props'] if vf.classify(p['desc']) == 'obligation']
                for p in ob[-3:]: samples.append('%s: [%s] %s -> %s' % (r['key'], p['id'], p['desc'][:140], p['status']))
            man = json.load(open(os.path.join(vf.VERIF, 'MANIFEST.json')))
            chk = [c for c in man['checks'] if c['property_id'] == pid]
            level = chk[0]['level_claimed']['category'] if chk else 'proof'
            cov = {'obligations': n_obl, 'discharged': n_ok,
                   'checker_cmd': 'clang++-14 -O0 -emit-llvm (per configuration) | tools/ll2c.py | goto-cc | goto-instrument --dfcc (jobs marked dfcc) | ' + (results[0]['cmd'] if results else 'cbmc'),
                   'solver_cache_note': 'solver_s is the back-end time of the run that produced the result; jobs marked solver_result_reused_from_cache had a byte-identical preprocessed verification input and back-end command (sha256) in an earlier run on this machine - extraction, translation and goto-cc were redone now (VERIF_NO_CACHE=1 disables reuse)',
                   'trusted_base': ['clang 14 front end (IR is the verified text; shipped build uses g++ 12)', 'tools/ll2c.py IR->C translation (DESIGN.md 3.2)', 'CBMC 6.11 + MiniSat',
                                    'rt/verif_rt*.h intrinsic models', 'rt/verif_models.h externals: ' + ', '.join(sorted(ext)) if ext else 'no externals reached'] + trusted,
                   'functions_under_contract': fns, 'jobs': [{'job': r['key'], 'status': r['status'], 'obligations': r['n_obl'], 'discharged': r['n_ok'], 'canaries_failed_as_required': r['canaries'],
                                                             'solver_s': round(r['solver_s'], 1), 'solver_result_reused_from_cache': r.get('cached', False), 'functions_in_closure': r['info'].get('n_functions'), 'dfcc': bool(byid[r['job']].dfcc)} for r in results],
                   'callees_replaced_by_contract': sorted(stubs), 'bounded_stand_ins_not_counted_as_proved': bounded,
                   'configurations': sorted(set(r['cfg'] for r in results)), 'solver_s_total': round(sum(r['solver_s'] for r in results), 1),
                   'undecided_jobs': [r['key'] + ': ' + r['reason'][:200] for r in undecided], 'known_findings_reported': sorted(set(known_lines)),
                   'samples': samples[:60],
                   'explanation': 'contract-based deductive verification of the extracted real code; see level_note in MANIFEST.json and DESIGN.md'}
            ev = {'property_id': pid, 'tier': a.tier if a.tier in ('quick', 'thorough') else 'quick', 'seed': seed, 'level': level, 'coverage': cov,
                  'assumptions': ['sequential consistency for atomics (memory orderings dropped by the translation)', 'x86-64 Itanium ABI layout as produced by clang 14',
                                  'models of externals are total and faithful (rt/verif_models.h)'] + trusted,
                  'wall_s': round(time.time() - t0, 1), 'violations': len(real_viol)}
            os.makedirs(os.path.join(vf.VERIF, 'evidence'), exist_ok=True)
            json.dump(ev, open(os.path.join(vf.VERIF, 'evidence', pid + '.json'), 'w'), indent=1)
        print('SUMMARY property=%s tier=%s jobs=%d proved=%d failed=%d undecided=%d obligations=%d discharged=%d wall=%.0fs' % (
              pid, a.tier, len(results), sum(r['status'] == 'proved' for r in results), sum(r['status'] == 'failed' for r in results), len(undecided),
              sum(r['n_obl'] for r in results), sum(r['n_ok'] for r in results), time.time() - t0))
        if real_viol: return 1
        if undecided or nrp:
            for r in undecided: print('UNDECIDED %s: %s' % (r['key'], r['reason'][:1500]))
            return 2
        return 0
    finally:
        if not a.keep: shutil.rmtree(scratch, ignore_errors=True)
        else: print('scratch kept at', scratch)

if __name__ == '__main__':
    sys.exit(main())
