#!/usr/bin/env python3
"""setup_cmd: offline sanity of the tool chain and self-test of the intrinsic models against the hardware."""
import subprocess, sys, os, tempfile, shutil
V = os.path.dirname(os.path.dirname(os.path.abspath(__file__)))
def need(cmd):
    try: subprocess.run(cmd, capture_output=True, check=True)
    except Exception as ex: print('SETUP FAILED: %s: %s' % (' '.join(cmd), ex)); sys.exit(1)
for c in (['cbmc', '--version'], ['goto-cc', '--version'], ['goto-instrument', '--version'], ['clang++-14', '--version'], ['llvm-cxxfilt', '--version'], ['g++', '--version']): need(c)
d = tempfile.mkdtemp(prefix='verif_setup_', dir=os.environ.get('VERIF_SCRATCH', '/var/tmp'))
try:
    st = os.path.join(V, 'tools', 'selftest_rt.c')
    if os.path.exists(st):
        exe = os.path.join(d, 'selftest')
        r = subprocess.run(['gcc', '-O1', '-mavx2', '-I' + os.path.join(V, 'rt'), st, '-o', exe], capture_output=True, text=True)
        if r.returncode != 0: print('SETUP FAILED: selftest build:', r.stderr[-2000:]); sys.exit(1)
        r = subprocess.run([exe], capture_output=True, text=True)
        print(r.stdout.strip())
        if r.returncode != 0: print('SETUP FAILED: intrinsic model self-test'); sys.exit(1)
finally:
    shutil.rmtree(d, ignore_errors=True)
print('setup ok')
