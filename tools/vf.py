#!/usr/bin/env python3
"""Runner library: extraction (clang -O0 IR -> ll2c -> C), goto-cc / goto-instrument --dfcc / cbmc, result parsing,
canaries, known findings, replay files, evidence.  See DESIGN.md sections 2 and 5.

Exit-code discipline (enforced in run_checks.py):
  0  every obligation of the property discharged (known findings aside)
  1  an obligation failed with a verifier counterexample  -> VIOLATION line
  2  extraction break / timeout / out of memory / vacuity (canary passed) / missing obligations: undecided, never a verdict
"""
import os, re, sys, json, time, shutil, subprocess, hashlib, collections, tempfile, resource

VERIF = os.path.dirname(os.path.dirname(os.path.abspath(__file__)))
REPO = os.environ.get('VERIF_REPO', '/repo')
sys.path.insert(0, os.path.join(VERIF, 'tools'))
import ll2c

# ------------------------------------------------------------------------------------------------ configurations
# flags mirror CMakeLists.txt: AVX2 option, STATS option, CMAKE_BUILD_TYPE (NDEBUG), SPINLOCK_LOOP option
def cfg_flags(name):
    simd, stats, dbg, spin = name.split('-')
    fl = []
    fl += {'avx2': ['-mavx2'], 'sse41': ['-msse4.1', '-mno-avx2']}[simd]
    fl += {'stats': ['-DUNODB_DETAIL_WITH_STATS'], 'nostats': []}[stats]
    fl += {'ndebug': ['-DNDEBUG'], 'debug': []}[dbg]
    fl += {'pause': ['-DUNODB_SPINLOCK_LOOP_VALUE=1'], 'empty': ['-DUNODB_SPINLOCK_LOOP_VALUE=2']}[spin]
    return fl
BASE = 'avx2-stats-ndebug-pause'            # the configuration the pinned test suite is built in
DEBUG = 'avx2-stats-debug-pause'
ALL_CFGS = ['%s-%s-%s-%s' % (a, b, c, d) for a in ('avx2', 'sse41') for b in ('stats', 'nostats') for c in ('ndebug', 'debug') for d in ('pause', 'empty')]

CLANG = ['clang++-14', '-std=c++20', '-S', '-emit-llvm', '-O0', '-fno-discard-value-names', '-Xclang', '-disable-O0-optnone',
         '-Wno-everything', '-I' + REPO]

CACHE_DIR = os.environ.get('VERIF_CACHE_DIR', '/var/tmp/verif_cache')
try: CBMC_VERSION = subprocess.run(['cbmc', '--version'], capture_output=True, text=True).stdout.strip()
except Exception: CBMC_VERSION = '?'
def run_split(cb, job):
    """same obligations, several back-end calls: each `*.assertion.N` property alone (formula sliced for it), every instrumented check
    (pointer / bounds / unwinding) together in one call; outputs are concatenated, so parsing and vacuity checks see the full set"""
    from concurrent.futures import ThreadPoolExecutor
    t0 = time.time()
    rc, so, se, dt = sh([x for x in cb if x != '--slice-formula'] + ['--show-properties'], timeout=600, mem_gb=job.mem_gb)
    ids = re.findall(r'^Property ([^\s:]+):', so, flags=re.M)
    if rc != 0 or not ids: return rc if rc else 6, so, 'show-properties failed: ' + se[-2000:], time.time() - t0
    single = [i for i in ids if re.search(r'\.assertion\.\d+$', i)]; rest = [i for i in ids if i not in set(single)]
    groups = [[i] for i in single] + ([rest] if rest else [])
    def one(g):
        cmd = list(cb)
        for i in g: cmd += ['--property', i]
        return sh(cmd, timeout=job.timeout, mem_gb=job.mem_gb)
    with ThreadPoolExecutor(max_workers=job.split) as ex: res = list(ex.map(one, groups))
    bad = [r for r in res if r[0] not in (0, 10)]
    if bad: return bad[0][0], '\n'.join(r[1] for r in res), bad[0][2], time.time() - t0
    return (10 if any(r[0] == 10 for r in res) else 0), '\n'.join(r[1] for r in res), '', time.time() - t0

def heavy_slot(mem_gb, n_slots=int(os.environ.get('VERIF_HEAVY_SLOTS', '3'))):
    """jobs allowed 16 GB or more run at most n_slots at a time: take one of n_slots lock files (flock, released when the handle is closed)"""
    if not mem_gb or mem_gb < 16: return None
    import fcntl
    while True:
        for i in range(n_slots):
            try: f = open('/var/tmp/verif_heavy_%d.lock' % i, 'w')
            except OSError: return None        # no writable lock directory: run without the limit rather than wait for ever
            try: fcntl.flock(f, fcntl.LOCK_EX | fcntl.LOCK_NB); return f
            except BlockingIOError: f.close()
            except OSError: f.close(); return None
        time.sleep(2)
class Undecided(Exception):
    """extraction break, tool failure, timeout: exit 2"""

def sh(cmd, timeout=None, mem_gb=None, cwd=None, stdin=None):
    def lim():
        if mem_gb:
            b = int(mem_gb * (1 << 30)); resource.setrlimit(resource.RLIMIT_AS, (b, b))
    t0 = time.time()
    try:
        p = subprocess.run(cmd, capture_output=True, text=True, timeout=timeout, preexec_fn=lim, cwd=cwd, input=stdin)
        return p.returncode, p.stdout, p.stderr, time.time() - t0
    except subprocess.TimeoutExpired as ex:
        return -9, (ex.stdout or b'').decode('utf8', 'replace') if isinstance(ex.stdout, bytes) else (ex.stdout or ''), 'TIMEOUT after %ss' % timeout, time.time() - t0

# ------------------------------------------------------------------------------------------------ jobs
class Job:
    """One proof job = one harness file discharged against the extraction of one unit in one configuration."""
    def __init__(s, id, props, unit, harness, roots=None, stubs=None, entry='harness', cfgs=(BASE,), thorough_cfgs=None,
                 dfcc=None, unwind=None, flags=(), timeout=600, mem_gb=12, tier='quick', defines=(), floor=1,
                 under_contract=(), trusted=(), bounded=None, replay=None, objbits=None, solver=None, variants=None, cut=(), unwindset=None, unwindset_raw=None, memsafe=True, irfacts=None, split=0):
        s.id = id; s.props = list(props); s.unit = unit; s.harness = harness
        s.roots = collections.OrderedDict(roots or {}); s.stubs = collections.OrderedDict(stubs or {})
        s.entry = entry; s.cfgs = list(cfgs); s.thorough_cfgs = list(thorough_cfgs) if thorough_cfgs else None
        s.dfcc = dfcc            # None | {'enforce': ALIAS, 'replace': [ALIAS...], 'loops': bool}
        s.unwind = unwind; s.flags = list(flags); s.timeout = timeout; s.mem_gb = mem_gb; s.tier = tier
        s.defines = list(defines); s.floor = floor
        s.under_contract = list(under_contract)   # human-readable names of the real functions whose contract this job discharges
        s.trusted = list(trusted); s.bounded = bounded; s.replay = replay; s.objbits = objbits; s.solver = solver
        s.unwindset = dict(unwindset or {})   # {ALIAS: bound}: tighter bound for every loop of that extracted function
        s.unwindset_raw = dict(unwindset_raw or {})   # {'c_function.loopnumber': bound} for harness/spec loops
        s.split = split          # > 0: discharge every user assertion in its own (sliced) back-end call, `split` calls at a time; all other checks in one call
        s.irfacts = irfacts      # supporting static facts read off the IR: [(function regex, assertion text that must be checked in it)]
        s.memsafe = memsafe      # False: functional obligations only (no --pointer-check/--bounds-check instrumentation of every access)
        s.cut = list(cut)        # loops closed by an invariant at the natural-loop head: 'ALIAS/label'
        s.variants = variants    # optional list of (suffix, extra_defines): the same harness discharged once per case split

JOBS = []
def job(*a, **k):
    j = Job(*a, **k); JOBS.append(j); return j

def load_registry():
    import importlib.util
    JOBS.clear()
    d = os.path.join(VERIF, 'proofs')
    for fn in sorted(os.listdir(d)):
        p = os.path.join(d, fn, 'jobs.py')
        if os.path.isfile(p):
            spec = importlib.util.spec_from_file_location('jobs_' + fn, p)
            m = importlib.util.module_from_spec(spec); m.job = job; m.BASE = BASE; m.DEBUG = DEBUG; m.ALL_CFGS = ALL_CFGS
            spec.loader.exec_module(m)
    ids = [j.id for j in JOBS]
    assert len(ids) == len(set(ids)), 'duplicate job ids'
    return JOBS

# ------------------------------------------------------------------------------------------------ extraction
def unit_source(unit):
    if unit.startswith('repo:'): return os.path.join(REPO, unit[5:])
    return os.path.join(VERIF, 'units', unit + '.cpp')

def extract_ir(unit, cfg, scratch):
    """clang -O0 IR of a driver TU against /repo's current working tree; cached per run in scratch"""
    out = os.path.join(scratch, 'ir', '%s.%s.ll' % (unit.replace(':', '_').replace('/', '_'), cfg))
    if os.path.exists(out): return out
    os.makedirs(os.path.dirname(out), exist_ok=True)
    tmp = out + '.tmp%d' % os.getpid()
    # a driver TU may ask for extra front-end flags on a line `// VERIF-UNIT-FLAGS: ...` (only -fno-access-control is used: wrappers that forward to
    # private members; it is NOT applied to the other units, because access checks can take part in SFINAE / overload resolution)
    uf = []
    for l_ in open(unit_source(unit), errors='replace'):
        m_ = re.match(r'//\s*VERIF-UNIT-FLAGS:\s*(.*)$', l_)
        if m_: uf += m_.group(1).split()
    rc, so, se, dt = sh(CLANG + uf + cfg_flags(cfg) + [unit_source(unit), '-o', tmp], timeout=600)
    if rc != 0:
        raise Undecided('clang failed on unit %s [%s]: %s' % (unit, cfg, se[-2000:]))
    os.replace(tmp, out)
    return out

def extract_layout(cfg, scratch):
    """layout_<cfg>/layout.h from the real headers (native probe, same compiler and flags as the IR)"""
    d = os.path.join(scratch, 'layout', cfg); out = os.path.join(d, 'layout.h')
    if os.path.exists(out): return d
    os.makedirs(d, exist_ok=True)
    exe = os.path.join(d, 'probe.%d' % os.getpid())
    rc, so, se, dt = sh(['clang++-14', '-std=c++20', '-fno-access-control', '-Wno-everything', '-I' + REPO, '-I' + os.path.join(VERIF, 'tools')] + cfg_flags(cfg) +
                        [os.path.join(VERIF, 'tools', 'layout_probe.cpp'), '-o', exe], timeout=600)
    if rc != 0: raise Undecided('layout probe does not build [%s]: %s' % (cfg, se[-1500:]))
    rc, so, se, dt = sh([exe], timeout=60)
    if rc != 0: raise Undecided('layout probe failed')
    tmp = out + '.tmp%d' % os.getpid(); open(tmp, 'w').write(so); os.replace(tmp, out); os.unlink(exe)
    return d

_MODCACHE = {}
def load_module(path):
    if path not in _MODCACHE: _MODCACHE[path] = ll2c.load(path)
    return _MODCACHE[path]

# ------------------------------------------------------------------------------------------------ cbmc output
RES = re.compile(r'^\[(?P<id>[^\]]+)\] (?:line (?P<line>\d+) )?(?P<desc>.*): (?P<st>SUCCESS|FAILURE|UNKNOWN|ERROR)$')

def parse_cbmc(text):
    props = []
    fn = None
    for l in text.split('\n'):
        m = RES.match(l.strip())
        if m: props.append({'id': m.group('id'), 'desc': m.group('desc'), 'status': m.group('st')})
    return props

def classify(desc):
    if desc.startswith('canary'): return 'canary'
    if desc.startswith('known-finding'): return 'known'
    return 'obligation'

class JobResult:
    def __init__(s, job, cfg):
        s.job = job; s.cfg = cfg; s.status = 'undecided'; s.reason = ''; s.props = []; s.solver_s = 0.0; s.wall_s = 0.0
        s.failed = []; s.known_hit = []; s.canaries = 0; s.info = {}; s.cmd = ''; s.log = ''; s.variant = ''
    @property
    def key(s): return '%s%s@%s' % (s.job.id, ('/' + s.variant) if s.variant else '', s.cfg)

def run_job(job, cfg, scratch, keep=False, variant=None):
    """returns JobResult; never raises for verdict-type outcomes"""
    r = JobResult(job, cfg); t0 = time.time()
    vsuf, vdefs = variant if variant else ('', [])
    r.variant = vsuf
    try:
        ir = extract_ir(job.unit, cfg, scratch)
        M = load_module(ir)
        if job.irfacts:
            props = []
            for k_, fact in enumerate(job.irfacts):
                if fact[0] == 'closure-free-of':          # ('closure-free-of', root regex, forbidden-callee regex): nothing in the call closure of root matches
                    _, frx, bad = fact[:3]; cut_at = fact[3] if len(fact) > 3 else {}   # cut_at: callees where the closure stops (named, they count as reached)
                    tr_ = ll2c.translate(M, {'R': frx}, cut_at)
                    fl = tr_['info']['functions'] + list(tr_['info'].get('externals', [])) + list(tr_['info'].get('stubs', []))
                    offenders = [f for f in fl if re.search(bad, f)]
                    props.append({'id': 'irfact.%d' % k_, 'desc': 'no function matching /%s/ is reachable from %s (%d functions in its call closure)%s' % (bad, frx[:90], len(fl), (': ' + offenders[0][:80]) if offenders else ''), 'status': 'FAILURE' if offenders or len(fl) < 2 else 'SUCCESS'})
                    continue
                frx, text = fact
                hits = [n for n in M.funcs if re.search(frx, M.dem[n])]
                if len(hits) != 1: raise Undecided('irfact: %r matches %d definitions' % (frx, len(hits)))
                body = M.funcs[hits[0]].body_text; ok = False
                for m_ in re.finditer(r'@__assert_fail\([^@]*(@[-a-zA-Z$._0-9]+)', body):
                    line = M.globals.get(m_.group(1), '')
                    if ('c"%s\\00"' % text) in line: ok = True
                props.append({'id': 'irfact.%d' % k_, 'desc': 'assertion "%s" is checked in %s' % (text, M.dem[hits[0]][:80]), 'status': 'SUCCESS' if ok else 'FAILURE'})
            props.append({'id': 'irfact.canary', 'desc': 'canary: fact scanner reaches the function bodies', 'status': 'FAILURE' if all('@' in M.funcs[n].body_text or True for n in M.funcs) else 'SUCCESS'})
            r.props = props; r.canaries = 1; r.failed = [p for p in props if p['status'] != 'SUCCESS' and not p['desc'].startswith('canary')]
            r.n_obl = len(props) - 1; r.n_ok = r.n_obl - len(r.failed); r.status = 'failed' if r.failed else 'proved'; r.cmd = 'IR text scan (tools/vf.py irfacts)'; r.cb = None
            r.info = {'n_functions': len(job.irfacts), 'externals': [], 'stubs': [], 'loops': []}
            r.wall_s = time.time() - t0
            return r
        try:
            tr = ll2c.translate(M, job.roots, job.stubs)
        except ll2c.ExtractionError as ex:
            raise Undecided('extraction: %s' % ex)
        r.info = tr['info']
        # every loop of the closure is either cut by a registered invariant or completely unwound (needs an explicit bound)
        present = set('%s/%s' % (l['fn'], l['label']) for l in tr['info']['loops'])
        hsrc = open(os.path.join(VERIF, job.harness)).read()
        for c in job.cut:
            if c not in present: raise Undecided('registered cut loop %s does not exist in the extraction (loops: %s)' % (c, ', '.join(sorted(present))[:800]))
            if 'VERIF_LOOP_HEAD_' + c.replace('/', '_') not in hsrc: raise Undecided('harness defines no invariant hook for cut loop %s' % c)
        uncut = sorted(present - set(job.cut))
        if uncut and not job.unwind: raise Undecided('loops neither cut nor given an unwinding bound: %s' % ', '.join(uncut)[:800])
        wd = os.path.join(scratch, 'jobs', re.sub(r'[^A-Za-z0-9_.-]', '_', r.key)); os.makedirs(wd, exist_ok=True)
        open(os.path.join(wd, 'x_types.h'), 'w').write(tr['types']); open(os.path.join(wd, 'x_body.h'), 'w').write(tr['body'])
        gb = os.path.join(wd, 'a.gb')
        defs = ['-DVERIF_CFG_' + x.upper() for x in cfg.split('-')] + ['-D' + d for d in job.defines] + ['-D' + d for d in vdefs]
        inc = ['-I' + extract_layout(cfg, scratch), '-I' + wd, '-I' + os.path.join(VERIF, 'rt'), '-I' + os.path.join(VERIF, 'spec'), '-I' + os.path.dirname(os.path.join(VERIF, job.harness))]
        cmd = ['goto-cc', '--function', job.entry] + defs + inc + [os.path.join(VERIF, job.harness), '-o', gb]
        rc, so, se, dt = sh(cmd, timeout=600, mem_gb=job.mem_gb)
        if rc != 0: raise Undecided('goto-cc failed: %s' % (se + so)[-3000:])
        rc, so, se, dt = (0, '', '', 0) if job.dfcc else sh(['goto-instrument', '--drop-unused-functions', gb, gb], timeout=600, mem_gb=job.mem_gb)
        if rc != 0: raise Undecided('goto-instrument --drop-unused-functions failed: %s' % (se + so)[-2000:])
        cur = gb
        if job.dfcc:
            gb2 = os.path.join(wd, 'b.gb')
            def mangled(alias):
                m = re.search(r'^#define %s (\w+)$' % re.escape(alias), tr['types'], flags=re.M)
                if not m: raise Undecided('dfcc: alias %s not extracted' % alias)
                return m.group(1)
            cmd = ['goto-instrument', '--dfcc', job.entry]
            for a in ([job.dfcc['enforce']] if isinstance(job.dfcc.get('enforce'), str) else job.dfcc.get('enforce', [])):
                cmd += ['--enforce-contract', mangled(a)]
            for a in job.dfcc.get('replace', []): cmd += ['--replace-call-with-contract', mangled(a)]
            if job.dfcc.get('loops'): cmd += ['--apply-loop-contracts']
            cmd += [cur, gb2]
            rc, so, se, dt = sh(cmd, timeout=900, mem_gb=job.mem_gb)
            if rc != 0: raise Undecided('goto-instrument --dfcc failed: %s' % (se + so)[-3000:])
            cur = gb2
        cb = ['cbmc', cur, '--no-standard-checks'] + (['--bounds-check', '--pointer-check', '--div-by-zero-check'] if job.memsafe else []) + ['--no-malloc-may-fail', '--slice-formula']
        if job.unwind: cb += ['--unwind', str(job.unwind), '--unwinding-assertions']
        for a_, n_ in job.unwindset.items():
            m_ = re.search(r'^#define %s (\w+)$' % re.escape(a_), tr['types'], flags=re.M)
            if not m_: raise Undecided('unwindset: alias %s not extracted' % a_)
            cb += ['--unwindset', ','.join('%s.%d:%d' % (m_.group(1), k_, n_) for k_ in range(6))]
        if job.unwindset_raw: cb += ['--unwindset', ','.join('%s:%d' % kv for kv in job.unwindset_raw.items())]
        cb += ['--object-bits', str(job.objbits or 12)]
        if job.solver != 'minisat': cb += ['--sat-solver', job.solver or 'cadical']
        cb += job.flags
        r.cmd = ' '.join(cb).replace(scratch, '$SCRATCH')
        # solver-result cache (optional, outside /verif and /repo): keyed by the complete preprocessed verification input (extracted code + harness +
        # runtime headers + layout) and the exact back-end command; extraction, translation and goto-cc are redone on every run regardless.
        ck = None; r.cached = False
        if not os.environ.get('VERIF_NO_CACHE'):
            rcp, pp, sep, _ = sh(['gcc', '-E', '-P', '-w'] + defs + inc + [os.path.join(VERIF, job.harness)], timeout=300)
            if rcp == 0:
                ck = hashlib.sha256(('\0'.join([pp, r.cmd, repr(job.dfcc), job.entry, CBMC_VERSION] + (['split'] if job.split else []))).encode()).hexdigest()
                cf = os.path.join(CACHE_DIR, ck + '.json')
                cg = os.path.join(VERIF, 'cache', ck + '.json.gz')       # committed copy (tools/cache_commit.py): read-only at run time
                if os.path.exists(cf):
                    try:
                        cd = json.load(open(cf)); rc, so, se, dt = cd['rc'], cd['so'], cd['se'], cd['dt']; r.cached = True
                    except Exception: r.cached = False
                elif os.path.exists(cg):
                    try:
                        import gzip
                        cd = json.load(gzip.open(cg, 'rt')); rc, so, se, dt = cd['rc'], cd['so'], cd['se'], cd['dt']; r.cached = True
                    except Exception: r.cached = False
        if not r.cached:
            slot = heavy_slot(job.mem_gb)       # machine-wide limit on concurrently running memory-hungry back-end calls (also across invocations)
            try: rc, so, se, dt = run_split(cb, job) if job.split else sh(cb, timeout=job.timeout, mem_gb=job.mem_gb)
            finally:
                if slot is not None: slot.close()
            if ck and rc in (0, 10):
                try:
                    os.makedirs(CACHE_DIR, exist_ok=True); tmpf = os.path.join(CACHE_DIR, '%s.%d.tmp' % (ck, os.getpid()))
                    json.dump({'rc': rc, 'so': so, 'se': se[-5000:], 'dt': dt, 'job': r.key}, open(tmpf, 'w')); os.replace(tmpf, os.path.join(CACHE_DIR, ck + '.json'))
                except OSError: pass
        r.solver_s = dt; r.log = so[-200000:] + '\n' + se[-5000:]
        if keep: open(os.path.join(wd, 'cbmc.log'), 'w').write(so + '\n' + se)
        if rc == -9: raise Undecided(('cbmc timeout after %ds' % job.timeout) if dt >= job.timeout - 5 else 'cbmc killed by signal 9 after %ds (out of memory?)' % dt)
        if 'no body for' in so or 'no body for' in se:
            nb = sorted(set(re.findall(r'no body for (?:callee|function) (\S+)', so + se)))
            raise Undecided('un-modelled external(s) reachable: %s' % ', '.join(nb)[:600])
        if rc not in (0, 10):
            raise Undecided('cbmc rc=%d: %s' % (rc, (so[-1500:] + se[-1500:])))
        if re.search(r'ignoring (forall|exists)', so + se): raise Undecided('quantifier ignored by the SAT back end')
        r.props = parse_cbmc(so)
        if not r.props: raise Undecided('no obligations generated')
        obl = [p for p in r.props if classify(p['desc']) == 'obligation']
        can = [p for p in r.props if classify(p['desc']) == 'canary']
        kn = [p for p in r.props if classify(p['desc']) == 'known']
        if len(obl) < job.floor: raise Undecided('only %d obligations, floor is %d (extraction dropped bodies?)' % (len(obl), job.floor))
        if not can: raise Undecided('harness has no vacuity canary')
        passed_can = [p for p in can if p['status'] == 'SUCCESS']
        if passed_can: raise Undecided('vacuous: canary passed (%s)' % passed_can[0]['desc'])
        unw = [p for p in obl if 'unwinding assertion' in p['desc'] and p['status'] != 'SUCCESS']
        other_failed = [p for p in obl if p['status'] != 'SUCCESS' and 'unwinding assertion' not in p['desc']]
        if unw and not other_failed:
            raise Undecided('unwinding bound too small (and nothing else fails): %s' % unw[0]['id'])
        if unw: obl = [p for p in obl if p not in unw]      # a loop running past its structural bound is reported through the obligations it breaks
        r.canaries = len(can)
        hard = [p for p in obl if p['status'] in ('FAILURE', 'ERROR')]
        unknown = [p for p in obl if p['status'] == 'UNKNOWN']
        if unknown and not hard: raise Undecided('%d obligations left UNKNOWN by cbmc (%s ...)' % (len(unknown), unknown[0]['id'][:80]))
        obl = [p for p in obl if p['status'] != 'UNKNOWN']         # UNKNOWN next to real failures = downstream of them, not reported separately
        r.failed = [p for p in obl if p['status'] != 'SUCCESS']
        r.known_hit = [p for p in kn if p['status'] != 'SUCCESS']
        r.n_obl = len(obl); r.n_ok = len(obl) - len(r.failed)
        r.status = 'failed' if r.failed else 'proved'
        r.gb = cur; r.wd = wd; r.cb = cb
    except Undecided as ex:
        r.status = 'undecided'; r.reason = str(ex)
    except Exception as ex:   # tool bug: still never a verdict
        import traceback
        r.status = 'undecided'; r.reason = 'internal error: %s\n%s' % (ex, traceback.format_exc()[-1500:])
    r.wall_s = time.time() - t0
    return r

def trace_for(r, prop, timeout=900):
    """re-run cbmc for one failing property with --trace; returns (text, inputs dict of IN_* assignments)"""
    cb = [x for x in r.cb if x != '--slice-formula'] + ['--trace', '--property', prop['id']]
    rc, so, se, dt = sh(cb, timeout=timeout, mem_gb=r.job.mem_gb)
    inputs = collections.OrderedDict()
    for m in re.finditer(r'^\s*(IN_\w+(?:\[[^\]]*\]|\.\w+)*)=(.*?)(?: \(([01 ]+)\))?$', so, flags=re.M):
        name = re.sub(r'\[(\d+)l?\]', r'[\1]', m.group(1))
        bits = m.group(3)
        if bits: inputs[name] = {'text': m.group(2), 'hex': '%x' % int(bits.replace(' ', ''), 2), 'width': len(bits.replace(' ', ''))}
        elif not m.group(2).lstrip().startswith('{'): inputs[name] = {'text': m.group(2)}
    i = so.find('Counterexample')
    return (so[i:] if i >= 0 else so[-20000:]), inputs
