#!/usr/bin/env python3
"""Copies the solver-result cache (/var/tmp/verif_cache, written by the checks) into /verif/cache as gzip files, so that a fresh restore of the sandbox
(which does not keep /var/tmp) does not have to re-solve verification inputs that are byte-for-byte the ones already solved.  Same idea as a committed
Frama-C/WP or Why3 proof cache: the key is the sha256 of the complete preprocessed verification input (code extracted from /repo on THIS run + harness +
models + layout) and the exact back-end command, so any change of /repo, of a harness or of a flag that reaches a job re-runs the solver for that job.
Extraction, translation, goto-cc and goto-instrument are never cached.  VERIF_NO_CACHE=1 re-solves everything.  Run this before committing evidence."""
import os, sys, gzip, json
src = os.environ.get('VERIF_CACHE_DIR', '/var/tmp/verif_cache'); dst = os.path.join(os.path.dirname(os.path.dirname(os.path.abspath(__file__))), 'cache')
os.makedirs(dst, exist_ok=True); n = 0
for f in os.listdir(src):
    if not f.endswith('.json'): continue
    out = os.path.join(dst, f + '.gz')
    if os.path.exists(out): continue
    try: d = json.load(open(os.path.join(src, f)))
    except Exception: continue
    with gzip.GzipFile(out, 'wb', mtime=0) as g: g.write(json.dumps(d).encode())
    n += 1
print('added', n, 'entries;', len(os.listdir(dst)), 'in', dst)
