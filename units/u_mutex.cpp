// Driver TU: instantiates unodb::mutex_db for both key kinds, including the templated scan members with an opaque visitor.
#include "global.hpp"
#include "art.hpp"
#include "mutex_art.hpp"
extern "C" bool verif_visit(const void* visitor);   // opaque visitor body (ghost log, nondeterministic halt)
namespace verif_driver {
template <class DB, class K>
void use(DB& d, K k1, K k2) {
  auto fn = [](const unodb::visitor<typename DB::iterator>& v) { return verif_visit(&v); };
  d.scan(fn, true); d.scan_from(k1, fn, true); d.scan_range(k1, k2, fn);
  auto r = d.get(k1); (void)DB::key_found(r);
}
template void use(unodb::mutex_db<std::uint64_t, unodb::value_view>&, std::uint64_t, std::uint64_t);
template void use(unodb::mutex_db<unodb::key_view, unodb::value_view>&, unodb::key_view, unodb::key_view);
}
template class unodb::mutex_db<std::uint64_t, unodb::value_view>;
template class unodb::mutex_db<unodb::key_view, unodb::value_view>;
