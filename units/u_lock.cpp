// Driver TU: forces emission of every optimistic_lock member used by the OLC index.  Only repo headers are included.
#include "global.hpp"
#include "optimistic_lock.hpp"
namespace verif_driver {
using L = unodb::optimistic_lock;
bool use_read(L& l) {
  auto rcs = l.try_read_lock();
  if (rcs.must_restart()) return false;
  if (!rcs.check()) return false;
  return rcs.try_read_unlock();
}
bool use_write(L& l, bool obsolete, bool early) {
  auto rcs = l.try_read_lock();
  if (rcs.must_restart()) return false;
  L::write_guard g{std::move(rcs)};
  if (g.must_restart()) return false;
  if (obsolete) g.unlock_and_obsolete(); else if (early) g.unlock();
  return true;
}
bool use_rehydrate(L& l, unodb::version_tag_type t) {
  auto rcs = l.rehydrate_read_lock(t);
  auto v = rcs.get(); (void)v;
  return rcs.check() && rcs.try_read_unlock();
}
void use_assign(L& l) { L::read_critical_section a; a = l.try_read_lock(); (void)a.check(); }
#ifndef NDEBUG
void use_debug(L& l) { l.check_on_dealloc(); (void)l.is_write_locked(); }
#endif
std::uint64_t use_ics(unodb::in_critical_section<std::uint64_t>& x, unodb::in_critical_section<std::uint8_t>& c) { x = 5; ++c; --c; return x.load() + c; }
}
namespace verif_driver {   // wrappers for always_inline members (the wrapper body is the inlined real code)
bool rcs_try_read_unlock(const L::read_critical_section& r) { return r.try_read_unlock(); }
}
