// Driver TU: forces emission of the inline QSBR per-thread entry points.
#include "global.hpp"
#include "qsbr.hpp"
namespace verif_driver { void use(unodb::qsbr_per_thread& t) { t.quiescent(); t.qsbr_pause(); t.qsbr_resume(); } }
