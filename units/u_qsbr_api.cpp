// VERIF-UNIT-FLAGS: -fno-access-control
// Driver TU: forces emission of the inline QSBR per-thread entry points (IR is taken with -fno-access-control; the wrappers only forward).
#include "global.hpp"
#include "qsbr.hpp"
namespace verif_driver {
void use(unodb::qsbr_per_thread& t) { t.quiescent(); t.qsbr_pause(); t.qsbr_resume(); }
void construct(void* at) { new (at) unodb::qsbr_per_thread(); }
void defer(unodb::qsbr_per_thread& t, void* p, std::size_t n) {
#ifdef UNODB_DETAIL_WITH_STATS
#ifdef NDEBUG
  t.on_next_epoch_deallocate(p, n);
#else
  t.on_next_epoch_deallocate(p, n, [](const void*) {});
#endif
#else
#ifdef NDEBUG
  t.on_next_epoch_deallocate(p);
#else
  t.on_next_epoch_deallocate(p, [](const void*) {});
#endif
#endif
}
}
