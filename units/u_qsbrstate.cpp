// VERIF-UNIT-FLAGS: -fno-access-control
// Driver TU: forces emission of every qsbr_epoch / qsbr_state word function (inline constexpr, private statics: the IR is taken with
// -fno-access-control, which changes no semantics).  Only repo headers are included; the wrappers only forward.
#include "global.hpp"
#include "qsbr.hpp"
namespace verif_driver {
using S = unodb::qsbr_state;
using E = unodb::qsbr_epoch;
std::uint8_t epoch_ctor(std::uint8_t v) { return E{v}.get_val(); }
std::uint8_t epoch_advance(std::uint8_t v, unsigned by) { return E{v}.advance(by).get_val(); }
bool epoch_eq(std::uint8_t a, std::uint8_t b) { return E{a} == E{b}; }
std::uint8_t st_get_epoch(std::uint64_t w) { return S::get_epoch(w).get_val(); }
std::uint32_t st_get_count(std::uint64_t w) { return S::get_thread_count(w); }
std::uint32_t st_get_prev(std::uint64_t w) { return S::get_threads_in_previous_epoch(w); }
bool st_single(std::uint64_t w) { return S::single_thread_mode(w); }
std::uint64_t st_make(std::uint8_t e) { return S::make_from_epoch(E{e}); }
std::uint64_t st_inc(std::uint64_t w) { return S::inc_thread_count(w); }
std::uint64_t st_dec(std::uint64_t w) { return S::dec_thread_count(w); }
std::uint64_t st_inc2(std::uint64_t w) { return S::inc_thread_count_and_threads_in_previous_epoch(w); }
std::uint64_t st_dec2(std::uint64_t w) { return S::dec_thread_count_and_threads_in_previous_epoch(w); }
std::uint64_t st_adv(std::uint64_t w) { return S::inc_epoch_reset_previous(w); }
std::uint64_t st_adv_dec(std::uint64_t w) { return S::inc_epoch_dec_thread_count_reset_previous(w); }
std::uint64_t st_maybe(std::uint64_t w, bool a) { return S::dec_thread_count_threads_in_previous_epoch_maybe_advance(w, a); }
}
