// Driver TU: instantiates the unsynchronised index for both key kinds, with scans through an opaque visitor.
#include "global.hpp"
#include "art.hpp"
extern "C" bool verif_visit(const void* visitor);
namespace verif_driver {
template <class DB, class K>
void use(DB& d, K k1, K k2) {
  auto fn = [](const unodb::visitor<typename DB::iterator>& v) { return verif_visit(&v); };
  d.scan(fn, true); d.scan_from(k1, fn, true); d.scan_range(k1, k2, fn);
  auto it = d.test_only_iterator(); it.first(); it.next(); it.prior(); it.last(); it.seek(unodb::detail::basic_art_key<K>{k1}, *new bool, true);
  (void)it.valid(); (void)it.get_key(); (void)it.get_val();
}
template void use(unodb::db<std::uint64_t, unodb::value_view>&, std::uint64_t, std::uint64_t);
template void use(unodb::db<unodb::key_view, unodb::value_view>&, unodb::key_view, unodb::key_view);
}
template class unodb::db<std::uint64_t, unodb::value_view>;
template class unodb::db<unodb::key_view, unodb::value_view>;
