// Driver TU: instantiates the optimistic-lock-coupling index for 64-bit keys, with scans through an opaque visitor.
#include "global.hpp"
#include "olc_art.hpp"
extern "C" bool verif_visit(const void* visitor);
namespace verif_driver {
template <class DB, class K>
void use(DB& d, K k1, K k2) {
  auto fn = [](const unodb::visitor<typename DB::iterator>& v) { return verif_visit(&v); };
  d.scan(fn, true); d.scan_from(k1, fn, true); d.scan_range(k1, k2, fn);
}
template void use(unodb::olc_db<std::uint64_t, unodb::value_view>&, std::uint64_t, std::uint64_t);
}
template class unodb::olc_db<std::uint64_t, unodb::value_view>;
