// Driver TU: forces emission of the key encoder/decoder and the key comparison helpers.  Only repo headers are included.
#include "global.hpp"
#include "art_common.hpp"
#include "art_internal.hpp"
namespace verif_driver {
void use_encoder(unodb::key_encoder& e, unodb::key_decoder& d, std::span<const std::byte> t, std::string_view sv) {
  e.reset();
  e.encode(std::int8_t{1}).encode(std::int16_t{1}).encode(std::int32_t{1}).encode(std::int64_t{1});
  e.encode(std::uint8_t{1}).encode(std::uint16_t{1}).encode(std::uint32_t{1}).encode(std::uint64_t{1});
  e.encode(1.0f).encode(1.0).encode_text(t).encode_text(sv).append_bytes(t);
  (void)e.get_key_view(); (void)e.size_bytes(); (void)e.capacity();
  std::int8_t a; std::int16_t b; std::int32_t c; std::int64_t dd; std::uint8_t ua; std::uint16_t ub; std::uint32_t uc; std::uint64_t ud; float f; double g;
  d.decode(a).decode(b).decode(c).decode(dd).decode(ua).decode(ub).decode(uc).decode(ud).decode(f).decode(g);
}
int use_compare(unodb::key_view a, unodb::key_view b) { return unodb::detail::compare(a, b); }
void use_ctor_dtor() { unodb::key_encoder e; unodb::key_view kv; unodb::key_decoder d{kv}; (void)e; (void)d; }
}
