// Driver TU: instantiates every member of qsbr_ptr<const std::byte> and qsbr_ptr_span<const std::byte>, plus the registry functions of qsbr_ptr.cpp.
#include "global.hpp"
#include "qsbr_ptr.hpp"
#include "qsbr_ptr.cpp"   // found through -I<repo>
template class unodb::qsbr_ptr<const std::byte>;
template class unodb::qsbr_ptr_span<const std::byte>;
namespace verif_driver {
using P = unodb::qsbr_ptr<const std::byte>;
P friend_add(std::ptrdiff_t n, P p) { return n + p; }
}
