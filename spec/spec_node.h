/* Specification of inner nodes, independent of the four representations (written from C01/C02/C10, not from the code):
 * a node is a PARTIAL MAP  key byte -> child word  ("node view"), a 0..7 byte key prefix and a child count.
 * Offsets come from the generated layout.h; POL selects the policy/key instantiation (DB64, OLC64, DBKV, OLCKV).
 * Plain C, shared by CBMC harnesses and native replay drivers. */
#ifndef SPEC_NODE_H
#define SPEC_NODE_H
#include <stdint.h>
#include "layout.h"
#ifndef POL
#error "define POL (DB64 | OLC64 | DBKV | OLCKV)"
#endif
#define NCAT_(p, c, f) LAY_##p##_##c##_##f
#define NLAY(p, c, f) NCAT_(p, c, f)
enum { T_LEAF = 0, T_I4 = 1, T_I16 = 2, T_I48 = 3, T_I256 = 4 };
#define N48_EMPTY 0xFF
static inline unsigned n_size(int cls) { return cls == 1 ? NLAY(POL, I4, SIZE) : cls == 2 ? NLAY(POL, I16, SIZE) : cls == 3 ? NLAY(POL, I48, SIZE) : NLAY(POL, I256, SIZE); }
static inline unsigned n_off_prefix(int cls) { return cls == 1 ? NLAY(POL, I4, PREFIX) : cls == 2 ? NLAY(POL, I16, PREFIX) : cls == 3 ? NLAY(POL, I48, PREFIX) : NLAY(POL, I256, PREFIX); }
static inline unsigned n_off_count(int cls) { return cls == 1 ? NLAY(POL, I4, COUNT) : cls == 2 ? NLAY(POL, I16, COUNT) : cls == 3 ? NLAY(POL, I48, COUNT) : NLAY(POL, I256, COUNT); }
static inline unsigned n_off_children(int cls) { return cls == 1 ? NLAY(POL, I4, CHILDREN) : cls == 2 ? NLAY(POL, I16, CHILDREN) : cls == 3 ? NLAY(POL, I48, CHILDREN) : NLAY(POL, I256, CHILDREN); }
static inline unsigned n_off_keys(int cls) { return cls == 1 ? NLAY(POL, I4, KEYS) : cls == 2 ? NLAY(POL, I16, KEYS) : NLAY(POL, I48, INDEXES); }
static inline unsigned n_capacity(int cls) { return cls == 1 ? 4 : cls == 2 ? 16 : cls == 3 ? 48 : 256; }
static inline unsigned n_minsize(int cls) { return cls == 1 ? 2 : cls == 2 ? 5 : cls == 3 ? 17 : 49; }
#define N_COUNT(o, cls) ((o)[n_off_count(cls)])
#define N_PREFIX(o, cls) (*(const uint64_t *)((o) + n_off_prefix(cls)))
#define N_KEY(o, cls, i) ((o)[n_off_keys(cls) + (i)])                 /* N4/N16: key byte of slot i; N48: slot index of key byte i */
#define N_SLOT(o, cls, j) (*(const uint64_t *)((o) + n_off_children(cls) + 8u * (unsigned)(j)))
#define N_PREFIX_LEN(o, cls) ((unsigned)(N_PREFIX(o, cls) >> 56))
/* number of children as a mathematical integer (N256 stores it modulo 256: a full node has count byte 0) */
static inline unsigned n_count(const uint8_t *o, int cls) { unsigned c = N_COUNT(o, cls); return (cls == 4 && c == 0) ? 256 : c; }
/* ---- a node image loaded into plain arrays (constant-offset reads only): all specification functions work on this copy, so that
 * a harness can hold the pre-state and the post-state side by side and CBMC never sees a symbolic offset into the node object */
struct nview { int cls; uint8_t count; uint64_t prefix; uint8_t keys[256]; uint64_t slots[256]; };
/* keys[]: N4/N16 key byte of slot i (i < capacity); N48 slot index of key byte b.  slots[]: child words by slot number (N256: by key byte) */
static inline void nv_load(struct nview *v, const uint8_t *o, int cls) {
  v->cls = cls; v->count = N_COUNT(o, cls); v->prefix = N_PREFIX(o, cls);
  unsigned nk = cls == 1 ? 4 : cls == 2 ? 16 : cls == 3 ? 256 : 0, ns = n_capacity(cls);
  for (unsigned i = 0; i < nk; i++) v->keys[i] = N_KEY(o, cls, i);
  for (unsigned i = 0; i < ns; i++) v->slots[i] = N_SLOT(o, cls, i);
}
#define NV_PREFIX_LEN(v) ((unsigned)((v)->prefix >> 56))
static inline unsigned nv_count(const struct nview *v) { return (v->cls == 4 && v->count == 0) ? 256 : v->count; }
/* ---- the node view: child word for key byte b, 0 = no child */
static inline uint64_t nv_child(const struct nview *v, uint8_t b) {
  if (v->cls == 1 || v->cls == 2) {
    unsigned cap = n_capacity(v->cls);
    for (unsigned i = 0; i < cap; i++) if (i < v->count && v->keys[i] == b) return v->slots[i];
    return 0;
  }
  if (v->cls == 3) { uint8_t ix = v->keys[b]; return (ix == N48_EMPTY || ix >= 48) ? 0 : v->slots[ix]; }
  return v->slots[b];
}
/* ---- child handles ("child_index" in the code): N4/N16 slot number, N48/N256 the key byte */
static inline _Bool nv_hvalid(const struct nview *v, uint8_t h) {
  if (v->cls == 1 || v->cls == 2) return h < v->count;
  if (v->cls == 3) return v->keys[h] != N48_EMPTY;
  return v->slots[h] != 0;
}
static inline uint8_t nv_hkey(const struct nview *v, uint8_t h) { return (v->cls == 1 || v->cls == 2) ? v->keys[h] : h; }
static inline unsigned nv_hslot_off(const struct nview *v, uint8_t h) {           /* byte offset of the child slot the handle designates */
  unsigned j = (v->cls == 3) ? v->keys[h] : h; return n_off_children(v->cls) + 8u * j;
}
/* ---- representation invariant (local well-formedness).  Small classes: complete.  Big classes: the universally quantified clauses
 * are available pointwise (nv_wf_at: the instance at one key byte) so that harnesses can assume exactly the instances they need. */
static inline _Bool nv_wf_small(const struct nview *v) {                           /* N4 / N16 */
  unsigned cap = n_capacity(v->cls), cnt = v->count;
  if (cnt < n_minsize(v->cls) || cnt > cap || NV_PREFIX_LEN(v) > 7) return 0;
  for (unsigned i = 0; i < cap; i++) {
    if (i < cnt && v->slots[i] == 0) return 0;
    if (i + 1 < cnt && !(v->keys[i] < v->keys[i + 1])) return 0;                   /* strictly ascending => sorted and distinct */
  }
  return 1;
}
static inline _Bool nv_wf_global(const struct nview *v) {
  if (v->cls <= 2) return nv_wf_small(v);
  if (NV_PREFIX_LEN(v) > 7) return 0;
  if (v->cls == 3) return v->count >= 17 && v->count <= 48;
  return v->count >= 49 || v->count == 0;
}
static inline _Bool nv_wf_at(const struct nview *v, uint8_t b) {                   /* N48: a mapped key byte designates a non-null slot */
  if (v->cls == 3) { uint8_t ix = v->keys[b]; return ix == N48_EMPTY || (ix < 48 && v->slots[ix] != 0); }
  return 1;
}
/* N48, complete: slots and key bytes are in bijection (owner/used are ghost arrays describing it) and count == number of used slots */
static inline _Bool nv_wf_48_full(const struct nview *v, const uint8_t owner[48], const _Bool used[48]) {
  unsigned cnt = 0;
  if (NV_PREFIX_LEN(v) > 7) return 0;
  for (unsigned j = 0; j < 48; j++) {
    if ((v->slots[j] != 0) != used[j]) return 0;
    if (used[j]) { cnt++; if (v->keys[owner[j]] != j) return 0; }
  }
  for (unsigned b = 0; b < 256; b++) { uint8_t ix = v->keys[b]; if (ix != N48_EMPTY && !(ix < 48 && used[ix] && owner[ix] == b)) return 0; }
  return cnt == v->count && cnt >= 17 && cnt <= 48;
}
static inline _Bool nv_wf_256_full(const struct nview *v) {
  unsigned cnt = 0;
  if (NV_PREFIX_LEN(v) > 7) return 0;
  for (unsigned b = 0; b < 256; b++) if (v->slots[b] != 0) cnt++;
  return cnt >= 49 && (uint8_t)cnt == v->count;
}
#endif
