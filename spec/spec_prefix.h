/* Specification view of a key prefix word (C01): a sequence of 0..7 bytes; byte 7 of the word is the length, byte i (< length) is the i-th
 * prefix byte.  Bytes at positions >= length are DON'T-CARE (the code leaves stale key bytes there), so no specification may read them. */
#ifndef SPEC_PREFIX_H
#define SPEC_PREFIX_H
#include <stdint.h>
#ifdef __cplusplus
#define _Bool bool
#endif
static inline unsigned kp_len(uint64_t w) { return (unsigned)(w >> 56); }
static inline uint8_t kp_byte(uint64_t w, unsigned i) { return (uint8_t)(w >> (8 * i)); }
static inline _Bool kp_wf(uint64_t w) { return kp_len(w) <= 7; }
#endif
