/* Specification of the key encoding, written from the statements of C11/C12/C15 (not from the code).
 * Plain C, shared by the CBMC harnesses and the native replay drivers. */
#ifndef SPEC_ENC_H
#define SPEC_ENC_H
#include <stdint.h>
#include <string.h>
/* ---- total order on floating point: -inf < negative < -0 < +0 < positive < +inf < NaN, all NaNs equal */
static inline int spec_isnan64(double a) { return a != a; }
static inline int spec_isnan32(float a) { return a != a; }
static inline int spec_sign64(double a) { uint64_t b; memcpy(&b, &a, 8); return (int)(b >> 63); }
static inline int spec_sign32(float a) { uint32_t b; memcpy(&b, &a, 4); return (int)(b >> 31); }
static inline int spec_lt_f64(double a, double b) {
  if (spec_isnan64(a)) return 0;
  if (spec_isnan64(b)) return 1;
  if (a < b) return 1;
  if (a > b) return 0;
  return spec_sign64(a) && !spec_sign64(b);     /* equal as reals: only -0 < +0 remains */
}
static inline int spec_lt_f32(float a, float b) {
  if (spec_isnan32(a)) return 0;
  if (spec_isnan32(b)) return 1;
  if (a < b) return 1;
  if (a > b) return 0;
  return spec_sign32(a) && !spec_sign32(b);
}
#define SPEC_QNAN64 0x7FF8000000000000ULL
#define SPEC_QNAN32 0x7FC00000U
/* ---- integers: the order rank of v inside its type (v - MIN as an unsigned number): monotone by construction */
static inline uint64_t spec_rank_i64(int64_t v) { return (uint64_t)v + 0x8000000000000000ULL; }
static inline uint32_t spec_rank_i32(int32_t v) { return (uint32_t)v + 0x80000000U; }
static inline uint16_t spec_rank_i16(int16_t v) { return (uint16_t)((uint16_t)v + 0x8000U); }
static inline uint8_t  spec_rank_i8(int8_t v)   { return (uint8_t)((uint8_t)v + 0x80U); }
/* byte i (0 = first, most significant) of the n-byte big-endian image of x */
static inline uint8_t spec_be_byte(uint64_t x, unsigned n, unsigned i) { return (uint8_t)(x >> (8 * (n - 1 - i))); }
/* ---- byte strings: sign of the lexicographic comparison, shorter string first when one is a prefix of the other */
static inline int spec_lex_cmp(const uint8_t *a, size_t na, const uint8_t *b, size_t nb, size_t d /* first index where they differ or min length */) {
  /* d is a witness supplied by the caller: a[i]==b[i] for all i<d is the caller's obligation */
  if (d < na && d < nb) return a[d] < b[d] ? -1 : (a[d] > b[d] ? 1 : 0);
  return na < nb ? -1 : (na > nb ? 1 : 0);
}
#endif
