/* Runtime layer 2 (included after the generated types): bit-precise models of the LLVM/x86 intrinsics that occur in the
 * extraction.  Loop-free where the operand is symbolic in proofs (no unwinding bound involved); the vector models use
 * constant-trip loops that CBMC unwinds completely.  tools/selftest_rt.c validates each against the hardware. */
#ifndef VERIF_RT2_H
#define VERIF_RT2_H
static inline uint32_t verif_ctpop32(uint32_t x) { x = x - ((x >> 1) & 0x55555555u); x = (x & 0x33333333u) + ((x >> 2) & 0x33333333u); x = (x + (x >> 4)) & 0x0F0F0F0Fu; return (x * 0x01010101u) >> 24; }
static inline uint64_t verif_ctpop64(uint64_t x) { return (uint64_t)verif_ctpop32((uint32_t)x) + verif_ctpop32((uint32_t)(x >> 32)); }
static inline uint32_t verif_cttz32(uint32_t x) { if (x == 0) return 32; return verif_ctpop32((x & (0u - x)) - 1u); }
static inline uint64_t verif_cttz64(uint64_t x) { if (x == 0) return 64; return verif_ctpop64((x & (0ull - x)) - 1ull); }
static inline uint32_t verif_ctlz32(uint32_t x) { x |= x >> 1; x |= x >> 2; x |= x >> 4; x |= x >> 8; x |= x >> 16; return 32u - verif_ctpop32(x); }
static inline uint64_t verif_ctlz64(uint64_t x) { x |= x >> 1; x |= x >> 2; x |= x >> 4; x |= x >> 8; x |= x >> 16; x |= x >> 32; return 64u - verif_ctpop64(x); }
static inline uint32_t VERIF_llvm_2ecttz_2ei32(uint32_t x, _Bool zp) { if (zp) __CPROVER_assert(x != 0, "cttz(0) is poison"); return verif_cttz32(x); }
static inline uint64_t VERIF_llvm_2ecttz_2ei64(uint64_t x, _Bool zp) { if (zp) __CPROVER_assert(x != 0, "cttz(0) is poison"); return verif_cttz64(x); }
static inline uint32_t VERIF_llvm_2ectlz_2ei32(uint32_t x, _Bool zp) { if (zp) __CPROVER_assert(x != 0, "ctlz(0) is poison"); return verif_ctlz32(x); }
static inline uint64_t VERIF_llvm_2ectlz_2ei64(uint64_t x, _Bool zp) { if (zp) __CPROVER_assert(x != 0, "ctlz(0) is poison"); return verif_ctlz64(x); }
static inline uint32_t VERIF_llvm_2ectpop_2ei32(uint32_t x) { return verif_ctpop32(x); }
static inline uint64_t VERIF_llvm_2ectpop_2ei64(uint64_t x) { return verif_ctpop64(x); }
static inline uint16_t VERIF_llvm_2ebswap_2ei16(uint16_t x) { return (uint16_t)((x >> 8) | (x << 8)); }
static inline uint32_t VERIF_llvm_2ebswap_2ei32(uint32_t x) { return (x >> 24) | ((x >> 8) & 0xFF00u) | ((x << 8) & 0xFF0000u) | (x << 24); }
static inline uint64_t VERIF_llvm_2ebswap_2ei64(uint64_t x) { return ((uint64_t)VERIF_llvm_2ebswap_2ei32((uint32_t)x) << 32) | VERIF_llvm_2ebswap_2ei32((uint32_t)(x >> 32)); }
static inline double VERIF_llvm_2efabs_2ef64(double x) { return __builtin_fabs(x); }
static inline float VERIF_llvm_2efabs_2ef32(float x) { return __builtin_fabsf(x); }
static inline void VERIF_llvm_2eassume(_Bool c) { __CPROVER_assert(c, "UNODB_DETAIL_ASSUME / builtin assume holds"); }
static inline void VERIF_llvm_2etrap(void) { __CPROVER_assert(0, "llvm.trap not reached"); __CPROVER_assume(0); }
static inline void VERIF_llvm_2ex86_2esse2_2epause(void) {}
static inline uint64_t VERIF_llvm_2eexpect_2ei64(uint64_t v, uint64_t e) { return v; }
static inline _Bool VERIF_llvm_2eexpect_2ei1(_Bool v, _Bool e) { return v; }
static inline uint64_t VERIF_llvm_2eumax_2ei64(uint64_t a, uint64_t b) { return a > b ? a : b; }
static inline uint64_t VERIF_llvm_2eumin_2ei64(uint64_t a, uint64_t b) { return a < b ? a : b; }
static inline int32_t verif_typeid_for(const void *ti) { return ti == verif_exc_tinfo ? 1 : 2; }
#define VERIF_llvm_2eeh_2etypeid_2efor(ti) ((uint32_t)verif_typeid_for(ti))
#ifdef VERIF_HAVE_V16xi8
static inline uint32_t VERIF_llvm_2ex86_2esse2_2epmovmskb_2e128(struct V16xi8 a) { uint32_t r = 0; r |= (uint32_t)((a.v[0] >> 7) & 1) << 0; r |= (uint32_t)((a.v[1] >> 7) & 1) << 1; r |= (uint32_t)((a.v[2] >> 7) & 1) << 2; r |= (uint32_t)((a.v[3] >> 7) & 1) << 3; r |= (uint32_t)((a.v[4] >> 7) & 1) << 4; r |= (uint32_t)((a.v[5] >> 7) & 1) << 5; r |= (uint32_t)((a.v[6] >> 7) & 1) << 6; r |= (uint32_t)((a.v[7] >> 7) & 1) << 7; r |= (uint32_t)((a.v[8] >> 7) & 1) << 8; r |= (uint32_t)((a.v[9] >> 7) & 1) << 9; r |= (uint32_t)((a.v[10] >> 7) & 1) << 10; r |= (uint32_t)((a.v[11] >> 7) & 1) << 11; r |= (uint32_t)((a.v[12] >> 7) & 1) << 12; r |= (uint32_t)((a.v[13] >> 7) & 1) << 13; r |= (uint32_t)((a.v[14] >> 7) & 1) << 14; r |= (uint32_t)((a.v[15] >> 7) & 1) << 15; return r; }
static inline struct V16xi8 VERIF_llvm_2eumax_2ev16i8(struct V16xi8 a, struct V16xi8 b) { struct V16xi8 r; r.v[0] = a.v[0] > b.v[0] ? a.v[0] : b.v[0]; r.v[1] = a.v[1] > b.v[1] ? a.v[1] : b.v[1]; r.v[2] = a.v[2] > b.v[2] ? a.v[2] : b.v[2]; r.v[3] = a.v[3] > b.v[3] ? a.v[3] : b.v[3]; r.v[4] = a.v[4] > b.v[4] ? a.v[4] : b.v[4]; r.v[5] = a.v[5] > b.v[5] ? a.v[5] : b.v[5]; r.v[6] = a.v[6] > b.v[6] ? a.v[6] : b.v[6]; r.v[7] = a.v[7] > b.v[7] ? a.v[7] : b.v[7]; r.v[8] = a.v[8] > b.v[8] ? a.v[8] : b.v[8]; r.v[9] = a.v[9] > b.v[9] ? a.v[9] : b.v[9]; r.v[10] = a.v[10] > b.v[10] ? a.v[10] : b.v[10]; r.v[11] = a.v[11] > b.v[11] ? a.v[11] : b.v[11]; r.v[12] = a.v[12] > b.v[12] ? a.v[12] : b.v[12]; r.v[13] = a.v[13] > b.v[13] ? a.v[13] : b.v[13]; r.v[14] = a.v[14] > b.v[14] ? a.v[14] : b.v[14]; r.v[15] = a.v[15] > b.v[15] ? a.v[15] : b.v[15]; return r; }
static inline struct V16xi8 VERIF_llvm_2eumin_2ev16i8(struct V16xi8 a, struct V16xi8 b) { struct V16xi8 r; r.v[0] = a.v[0] < b.v[0] ? a.v[0] : b.v[0]; r.v[1] = a.v[1] < b.v[1] ? a.v[1] : b.v[1]; r.v[2] = a.v[2] < b.v[2] ? a.v[2] : b.v[2]; r.v[3] = a.v[3] < b.v[3] ? a.v[3] : b.v[3]; r.v[4] = a.v[4] < b.v[4] ? a.v[4] : b.v[4]; r.v[5] = a.v[5] < b.v[5] ? a.v[5] : b.v[5]; r.v[6] = a.v[6] < b.v[6] ? a.v[6] : b.v[6]; r.v[7] = a.v[7] < b.v[7] ? a.v[7] : b.v[7]; r.v[8] = a.v[8] < b.v[8] ? a.v[8] : b.v[8]; r.v[9] = a.v[9] < b.v[9] ? a.v[9] : b.v[9]; r.v[10] = a.v[10] < b.v[10] ? a.v[10] : b.v[10]; r.v[11] = a.v[11] < b.v[11] ? a.v[11] : b.v[11]; r.v[12] = a.v[12] < b.v[12] ? a.v[12] : b.v[12]; r.v[13] = a.v[13] < b.v[13] ? a.v[13] : b.v[13]; r.v[14] = a.v[14] < b.v[14] ? a.v[14] : b.v[14]; r.v[15] = a.v[15] < b.v[15] ? a.v[15] : b.v[15]; return r; }
#endif
#if defined(VERIF_HAVE_V8xi32) && defined(VERIF_HAVE_V16xi16)
static inline int16_t verif_sat16(int32_t x) { return (int16_t)(x > 32767 ? 32767 : x < -32768 ? -32768 : x); }
static inline struct V16xi16 VERIF_llvm_2ex86_2eavx2_2epackssdw(struct V8xi32 a, struct V8xi32 b) {
  struct V16xi16 r;
  r.v[0] = (uint16_t)verif_sat16((int32_t)a.v[0]); r.v[4] = (uint16_t)verif_sat16((int32_t)b.v[0]); r.v[1] = (uint16_t)verif_sat16((int32_t)a.v[1]); r.v[5] = (uint16_t)verif_sat16((int32_t)b.v[1]); r.v[2] = (uint16_t)verif_sat16((int32_t)a.v[2]); r.v[6] = (uint16_t)verif_sat16((int32_t)b.v[2]); r.v[3] = (uint16_t)verif_sat16((int32_t)a.v[3]); r.v[7] = (uint16_t)verif_sat16((int32_t)b.v[3]); r.v[8] = (uint16_t)verif_sat16((int32_t)a.v[4]); r.v[12] = (uint16_t)verif_sat16((int32_t)b.v[4]); r.v[9] = (uint16_t)verif_sat16((int32_t)a.v[5]); r.v[13] = (uint16_t)verif_sat16((int32_t)b.v[5]); r.v[10] = (uint16_t)verif_sat16((int32_t)a.v[6]); r.v[14] = (uint16_t)verif_sat16((int32_t)b.v[6]); r.v[11] = (uint16_t)verif_sat16((int32_t)a.v[7]); r.v[15] = (uint16_t)verif_sat16((int32_t)b.v[7]); 
  return r;
}
#endif
#if defined(VERIF_HAVE_V4xi32) && defined(VERIF_HAVE_V8xi16)
static inline int16_t verif_sat16b(int32_t x) { return (int16_t)(x > 32767 ? 32767 : x < -32768 ? -32768 : x); }
static inline struct V8xi16 VERIF_llvm_2ex86_2esse2_2epackssdw_2e128(struct V4xi32 a, struct V4xi32 b) {
  struct V8xi16 r; r.v[0] = (uint16_t)verif_sat16b((int32_t)a.v[0]); r.v[4] = (uint16_t)verif_sat16b((int32_t)b.v[0]); r.v[1] = (uint16_t)verif_sat16b((int32_t)a.v[1]); r.v[5] = (uint16_t)verif_sat16b((int32_t)b.v[1]); r.v[2] = (uint16_t)verif_sat16b((int32_t)a.v[2]); r.v[6] = (uint16_t)verif_sat16b((int32_t)b.v[2]); r.v[3] = (uint16_t)verif_sat16b((int32_t)a.v[3]); r.v[7] = (uint16_t)verif_sat16b((int32_t)b.v[3]); 
  return r;
}
#endif
#ifdef VERIF_HAVE_V32xi8
static inline uint32_t VERIF_llvm_2ex86_2eavx2_2epmovmskb(struct V32xi8 a) { uint32_t r = 0; r |= (uint32_t)((a.v[0] >> 7) & 1) << 0; r |= (uint32_t)((a.v[1] >> 7) & 1) << 1; r |= (uint32_t)((a.v[2] >> 7) & 1) << 2; r |= (uint32_t)((a.v[3] >> 7) & 1) << 3; r |= (uint32_t)((a.v[4] >> 7) & 1) << 4; r |= (uint32_t)((a.v[5] >> 7) & 1) << 5; r |= (uint32_t)((a.v[6] >> 7) & 1) << 6; r |= (uint32_t)((a.v[7] >> 7) & 1) << 7; r |= (uint32_t)((a.v[8] >> 7) & 1) << 8; r |= (uint32_t)((a.v[9] >> 7) & 1) << 9; r |= (uint32_t)((a.v[10] >> 7) & 1) << 10; r |= (uint32_t)((a.v[11] >> 7) & 1) << 11; r |= (uint32_t)((a.v[12] >> 7) & 1) << 12; r |= (uint32_t)((a.v[13] >> 7) & 1) << 13; r |= (uint32_t)((a.v[14] >> 7) & 1) << 14; r |= (uint32_t)((a.v[15] >> 7) & 1) << 15; r |= (uint32_t)((a.v[16] >> 7) & 1) << 16; r |= (uint32_t)((a.v[17] >> 7) & 1) << 17; r |= (uint32_t)((a.v[18] >> 7) & 1) << 18; r |= (uint32_t)((a.v[19] >> 7) & 1) << 19; r |= (uint32_t)((a.v[20] >> 7) & 1) << 20; r |= (uint32_t)((a.v[21] >> 7) & 1) << 21; r |= (uint32_t)((a.v[22] >> 7) & 1) << 22; r |= (uint32_t)((a.v[23] >> 7) & 1) << 23; r |= (uint32_t)((a.v[24] >> 7) & 1) << 24; r |= (uint32_t)((a.v[25] >> 7) & 1) << 25; r |= (uint32_t)((a.v[26] >> 7) & 1) << 26; r |= (uint32_t)((a.v[27] >> 7) & 1) << 27; r |= (uint32_t)((a.v[28] >> 7) & 1) << 28; r |= (uint32_t)((a.v[29] >> 7) & 1) << 29; r |= (uint32_t)((a.v[30] >> 7) & 1) << 30; r |= (uint32_t)((a.v[31] >> 7) & 1) << 31; return r; }
#endif
#ifdef VERIF_HAVE_V4xi64
static inline uint32_t VERIF_llvm_2ex86_2eavx_2eptestz_2e256(struct V4xi64 a, struct V4xi64 b) { uint64_t x = (a.v[0] & b.v[0]) | (a.v[1] & b.v[1]) | (a.v[2] & b.v[2]) | (a.v[3] & b.v[3]); return x == 0; }
#endif
#ifdef VERIF_HAVE_V2xi64
static inline uint32_t VERIF_llvm_2ex86_2esse41_2eptestz(struct V2xi64 a, struct V2xi64 b) { uint64_t x = (a.v[0] & b.v[0]) | (a.v[1] & b.v[1]); return x == 0; }
#endif
#endif
