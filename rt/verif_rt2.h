/* Runtime layer 2 (included after the generated types): bit-precise models of the LLVM/x86 intrinsics that occur in the
 * extraction.  Loop-free where the operand is symbolic in proofs (no unwinding bound involved); the vector models use
 * constant-trip loops that CBMC unwinds completely.  tools/selftest_rt.c validates each against the hardware. */
#ifndef VERIF_RT2_H
#define VERIF_RT2_H
static inline uint32_t verif_ctpop32(uint32_t x) { x = x - ((x >> 1) & 0x55555555u); x = (x & 0x33333333u) + ((x >> 2) & 0x33333333u); x = (x + (x >> 4)) & 0x0F0F0F0Fu; return (x * 0x01010101u) >> 24; }
static inline uint64_t verif_ctpop64(uint64_t x) { return (uint64_t)verif_ctpop32((uint32_t)x) + verif_ctpop32((uint32_t)(x >> 32)); }
static inline uint32_t verif_cttz32(uint32_t x) { if (x == 0) return 32; return verif_ctpop32((x & (0u - x)) - 1u); }
static inline uint64_t verif_cttz64(uint64_t x) { if (x == 0) return 64; return verif_ctpop64((x & (0ull - x)) - 1ull); }
static inline uint32_t verif_ctlz32(uint32_t x) { x |= x >> 1; x |= x >> 2; x |= x >> 4; x |= x >> 8; x |= x >> 16; return 32u - verif_ctpop32(x); }
static inline uint64_t verif_ctlz64(uint64_t x) { x |= x >> 1; x |= x >> 2; x |= x >> 4; x |= x >> 8; x |= x >> 16; x |= x >> 32; return 64u - verif_ctpop64(x); }
static inline uint32_t VERIF_llvm_2ecttz_2ei32(uint32_t x, _Bool zp) { if (zp) __CPROVER_assert(x != 0, "cttz(0) is poison"); return verif_cttz32(x); }
static inline uint64_t VERIF_llvm_2ecttz_2ei64(uint64_t x, _Bool zp) { if (zp) __CPROVER_assert(x != 0, "cttz(0) is poison"); return verif_cttz64(x); }
static inline uint32_t VERIF_llvm_2ectlz_2ei32(uint32_t x, _Bool zp) { if (zp) __CPROVER_assert(x != 0, "ctlz(0) is poison"); return verif_ctlz32(x); }
static inline uint64_t VERIF_llvm_2ectlz_2ei64(uint64_t x, _Bool zp) { if (zp) __CPROVER_assert(x != 0, "ctlz(0) is poison"); return verif_ctlz64(x); }
static inline uint32_t VERIF_llvm_2ectpop_2ei32(uint32_t x) { return verif_ctpop32(x); }
static inline uint64_t VERIF_llvm_2ectpop_2ei64(uint64_t x) { return verif_ctpop64(x); }
static inline uint16_t VERIF_llvm_2ebswap_2ei16(uint16_t x) { return (uint16_t)((x >> 8) | (x << 8)); }
static inline uint32_t VERIF_llvm_2ebswap_2ei32(uint32_t x) { return (x >> 24) | ((x >> 8) & 0xFF00u) | ((x << 8) & 0xFF0000u) | (x << 24); }
static inline uint64_t VERIF_llvm_2ebswap_2ei64(uint64_t x) { return ((uint64_t)VERIF_llvm_2ebswap_2ei32((uint32_t)x) << 32) | VERIF_llvm_2ebswap_2ei32((uint32_t)(x >> 32)); }
static inline double VERIF_llvm_2efabs_2ef64(double x) { return __builtin_fabs(x); }
static inline float VERIF_llvm_2efabs_2ef32(float x) { return __builtin_fabsf(x); }
static inline void VERIF_llvm_2eassume(_Bool c) { __CPROVER_assert(c, "UNODB_DETAIL_ASSUME / builtin assume holds"); }
static inline void VERIF_llvm_2etrap(void) { __CPROVER_assert(0, "llvm.trap not reached"); __CPROVER_assume(0); }
static inline void VERIF_llvm_2ex86_2esse2_2epause(void) {}
static inline uint64_t VERIF_llvm_2eexpect_2ei64(uint64_t v, uint64_t e) { return v; }
static inline _Bool VERIF_llvm_2eexpect_2ei1(_Bool v, _Bool e) { return v; }
static inline uint64_t VERIF_llvm_2eumax_2ei64(uint64_t a, uint64_t b) { return a > b ? a : b; }
static inline uint64_t VERIF_llvm_2eumin_2ei64(uint64_t a, uint64_t b) { return a < b ? a : b; }
static inline int32_t verif_typeid_for(const void *ti) { return ti == verif_exc_tinfo ? 1 : 2; }
#define VERIF_llvm_2eeh_2etypeid_2efor(ti) ((uint32_t)verif_typeid_for(ti))
#ifdef VERIF_HAVE_V16xi8
static inline uint32_t VERIF_llvm_2ex86_2esse2_2epmovmskb_2e128(struct V16xi8 a) { uint32_t r = 0; for (int i = 0; i < 16; i++) r |= (uint32_t)((a.v[i] >> 7) & 1) << i; return r; }
static inline struct V16xi8 VERIF_llvm_2eumax_2ev16i8(struct V16xi8 a, struct V16xi8 b) { struct V16xi8 r; for (int i = 0; i < 16; i++) r.v[i] = a.v[i] > b.v[i] ? a.v[i] : b.v[i]; return r; }
static inline struct V16xi8 VERIF_llvm_2eumin_2ev16i8(struct V16xi8 a, struct V16xi8 b) { struct V16xi8 r; for (int i = 0; i < 16; i++) r.v[i] = a.v[i] < b.v[i] ? a.v[i] : b.v[i]; return r; }
#endif
#if defined(VERIF_HAVE_V8xi32) && defined(VERIF_HAVE_V16xi16)
static inline int16_t verif_sat16(int32_t x) { return (int16_t)(x > 32767 ? 32767 : x < -32768 ? -32768 : x); }
static inline struct V16xi16 VERIF_llvm_2ex86_2eavx2_2epackssdw(struct V8xi32 a, struct V8xi32 b) {
  struct V16xi16 r;
  for (int lane = 0; lane < 2; lane++) for (int i = 0; i < 4; i++) {
    r.v[lane*8+i]   = (uint16_t)verif_sat16((int32_t)a.v[lane*4+i]);
    r.v[lane*8+4+i] = (uint16_t)verif_sat16((int32_t)b.v[lane*4+i]);
  }
  return r;
}
#endif
#if defined(VERIF_HAVE_V4xi32) && defined(VERIF_HAVE_V8xi16)
static inline int16_t verif_sat16b(int32_t x) { return (int16_t)(x > 32767 ? 32767 : x < -32768 ? -32768 : x); }
static inline struct V8xi16 VERIF_llvm_2ex86_2esse2_2epackssdw_2e128(struct V4xi32 a, struct V4xi32 b) {
  struct V8xi16 r;
  for (int i = 0; i < 4; i++) { r.v[i] = (uint16_t)verif_sat16b((int32_t)a.v[i]); r.v[4+i] = (uint16_t)verif_sat16b((int32_t)b.v[i]); }
  return r;
}
#endif
#ifdef VERIF_HAVE_V32xi8
static inline uint32_t VERIF_llvm_2ex86_2eavx2_2epmovmskb(struct V32xi8 a) { uint32_t r = 0; for (int i = 0; i < 32; i++) r |= (uint32_t)((a.v[i] >> 7) & 1) << i; return r; }
#endif
#ifdef VERIF_HAVE_V4xi64
static inline uint32_t VERIF_llvm_2ex86_2eavx_2eptestz_2e256(struct V4xi64 a, struct V4xi64 b) { uint64_t x = 0; for (int i = 0; i < 4; i++) x |= a.v[i] & b.v[i]; return x == 0; }
#endif
#ifdef VERIF_HAVE_V2xi64
static inline uint32_t VERIF_llvm_2ex86_2esse41_2eptestz(struct V2xi64 a, struct V2xi64 b) { uint64_t x = 0; for (int i = 0; i < 2; i++) x |= a.v[i] & b.v[i]; return x == 0; }
#endif
#endif
