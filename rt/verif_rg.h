/* Rely/guarantee instrumentation for ONE optimistic lock (C07), DESIGN.md 4.5.  Included before verif_rt.h takes effect.
 * The translated real lock methods run with every atomic access preceded by an arbitrary burst of other threads' steps
 * constrained only by the rely R; every own store / successful CAS on the lock word is classified and checked against the
 * guarantee G and the invariant I.  Sequential consistency is assumed (memory orders dropped by the translation). */
#ifndef VERIF_RG_H
#define VERIF_RG_H
#include <stdint.h>
uint64_t nondet_u64(void); _Bool nondet_bool(void); int64_t nondet_i64(void);
#define ME 1
#define OTHER 2
uint64_t *rg_word;            /* address of the lock word under proof */
int64_t *rg_rlc;              /* address of the debug read_lock_count (0 in NDEBUG extractions) */
int rg_holder;                /* ghost: 0 none / ME / OTHER */
uint64_t rg_acq, rg_rel;      /* ghost: write acquisitions / releases so far, by anybody */
_Bool rg_obs;                 /* ghost: made obsolete */
uint64_t rg_data;             /* ghost model of one protected datum */
int64_t rg_mc;                /* ghost: read sections currently counted for me in read_lock_count */
/* ghosts about the most recent atomic load of the lock word by me (the linearisation point of try_read_lock / check) */
uint64_t rg_ll_word, rg_ll_acq, rg_ll_rel, rg_ll_data; _Bool rg_ll_obs; int rg_ll_holder; unsigned rg_loads;
static inline _Bool rg_inv(void) {
  uint64_t w = *rg_word;
  if (rg_acq >= (1ULL << 60) || rg_rel > rg_acq) return 0;          /* no version wrap (machine arithmetic, stated assumption) */
  if (rg_rlc && *rg_rlc < rg_mc) return 0;                          /* the shared counter includes my sections */
  if (rg_obs) return w == 1 && rg_holder == 0;
  return w == 2 * (rg_acq + rg_rel) && (rg_acq == rg_rel || rg_acq == rg_rel + 1) && ((rg_holder != 0) == (rg_acq == rg_rel + 1));
}
/* one arbitrary finite burst of steps by other threads: everything the rely allows */
static inline void rg_interfere(void) {
  if (rg_holder == ME) { if (rg_rlc) { int64_t oc = nondet_i64(); __CPROVER_assume(oc >= rg_mc); *rg_rlc = oc; } return; }   /* nobody touches a lock I hold, nor its data (readers may come and go) */
  uint64_t a0 = rg_acq, r0 = rg_rel, d0 = rg_data; _Bool o0 = rg_obs; int h0 = rg_holder;
  *rg_word = nondet_u64(); rg_acq = nondet_u64(); rg_rel = nondet_u64(); rg_data = nondet_u64(); rg_obs = nondet_bool(); rg_holder = nondet_bool() ? OTHER : 0;
  if (rg_rlc) *rg_rlc = nondet_i64();
  __CPROVER_assume(rg_inv());
  __CPROVER_assume(rg_acq >= a0 && rg_rel >= r0);                                   /* counters monotone */
  __CPROVER_assume(!o0 || (rg_obs && rg_acq == a0 && rg_rel == r0 && rg_data == d0)); /* obsolete is final and freezes everything */
  _Bool other_held = (h0 == OTHER) || rg_acq > a0;                                  /* some other thread held the lock during the burst */
  __CPROVER_assume(other_held || (rg_data == d0 && rg_rel == r0 && rg_obs == o0));  /* data / release / obsoletion only by a holder */
}
/* a store to the lock word by ME: classify the transition, update ghosts, check G and I */
static inline void rg_store(uint64_t *p, uint64_t v) {
  if (p != rg_word) { *p = v; return; }
  uint64_t w = *p;
  if (v == 1) { __CPROVER_assert(rg_holder == ME, "G: only the holder makes the lock obsolete"); rg_obs = 1; rg_holder = 0; }
  else if (v == w + 2 && (w & 3) == 0) { __CPROVER_assert(rg_holder == 0 && !rg_obs, "G: only a free, non-obsolete lock is acquired"); __CPROVER_assume(rg_acq + 1 < (1ULL << 60)); /* stated assumption: fewer than 2^60 acquisitions, no version wrap */ rg_acq++; rg_holder = ME; }
  else if (v == w + 2 && (w & 3) == 2) { __CPROVER_assert(rg_holder == ME, "G: only the holder releases"); rg_rel++; rg_holder = 0; }
  else __CPROVER_assert(0, "G: every own transition of the lock word is acquire (+2 from free), release (+2 from locked) or obsolete (:= 1)");
  *p = v;
  __CPROVER_assert(rg_inv(), "I: lock invariant preserved by own step");
}
static inline uint64_t rg_load(const uint64_t *p) {
  rg_interfere();
  if (p == rg_word) { rg_ll_word = *p; rg_ll_acq = rg_acq; rg_ll_rel = rg_rel; rg_ll_data = rg_data; rg_ll_obs = rg_obs; rg_ll_holder = rg_holder; rg_loads++; }
  return *p;
}
static inline void rg_rmw(int64_t *p, int64_t delta) {
  rg_interfere();
  if (p == rg_rlc) { rg_mc += delta; __CPROVER_assert(rg_mc >= 0, "debug accounting: my read-section count never negative"); }
  *p += delta;
}
#define VERIF_ATOMIC_LOAD(p) (sizeof(*(p)) == 8 ? (__typeof__(*(p)))rg_load((const uint64_t *)(p)) : (rg_interfere(), *(p)))
#define VERIF_ATOMIC_STORE(p, v) do { rg_interfere(); rg_store((uint64_t *)(p), (uint64_t)(v)); } while (0)
#define VERIF_CMPXCHG(res, p, c, n) do { rg_interfere(); (res).f0 = *(p); if (*(p) == (c)) { (res).f1 = 1; rg_store((uint64_t *)(p), (uint64_t)(n)); } else (res).f1 = 0; } while (0)
#define VERIF_ATOMICRMW_ADD(res, p, v) do { (res) = *(p); rg_rmw((int64_t *)(p), (int64_t)(v)); (res) = *(p) - (v); } while (0)
#define VERIF_ATOMICRMW_SUB(res, p, v) do { rg_rmw((int64_t *)(p), -(int64_t)(v)); (res) = *(p) + (v); } while (0)
#define VERIF_FENCE() ((void)0)
#endif
