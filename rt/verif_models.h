/* Total models of the C/C++ runtime externals reachable from functions under proof (DESIGN.md section 3.2).
 * Included by a harness AFTER x_body.h.  Everything here is part of the trusted base and is listed as such in evidence.
 * Hooks a harness may define before including: VERIF_ALLOC_MAY_FAIL (0/1), VERIF_ON_ALLOC(p,n), VERIF_ON_FREE(p). */
#ifndef VERIF_MODELS_H
#define VERIF_MODELS_H
_Bool verif_exc_pending; void *verif_exc_obj; void *verif_exc_tinfo;
unsigned verif_alloc_calls, verif_free_calls; int64_t verif_variant;
#ifndef VERIF_ALLOC_MAY_FAIL
#define VERIF_ALLOC_MAY_FAIL 0
#endif
#ifndef VERIF_ON_ALLOC
#define VERIF_ON_ALLOC(p, n) ((void)0)
#endif
#ifndef VERIF_ON_FREE
#define VERIF_ON_FREE(p) ((void)0)
#endif
/* posix_memalign: fresh object of exactly `size` bytes, or ENOMEM (only when the harness enables failures) */
uint32_t X_posix_memalign(uint8_t **out, uint64_t alignment, uint64_t size) {
  __CPROVER_assert(alignment >= 8 && (alignment & (alignment - 1)) == 0, "posix_memalign: alignment is a power of two >= sizeof(void*)");
  verif_alloc_calls++;
  if (VERIF_ALLOC_MAY_FAIL && nondet_bool()) return 12;
  uint8_t *p = malloc(size);
  __CPROVER_assume(p != 0);
  *out = p;
  VERIF_ON_ALLOC(p, size);
  return 0;
}
void X_free(uint8_t *p) { verif_free_calls++; VERIF_ON_FREE(p); free(p); }
/* Itanium C++ exception runtime as a pending flag */
uint8_t *X___cxa_allocate_exception(uint64_t n) { uint8_t *p = malloc(n); __CPROVER_assume(p != 0); return p; }
void X___cxa_free_exception(uint8_t *p) { free(p); }
void X___cxa_throw(uint8_t *obj, uint8_t *tinfo, uint8_t *dtor) { verif_exc_obj = obj; verif_exc_tinfo = tinfo; verif_exc_pending = 1; }
uint8_t *X___cxa_begin_catch(uint8_t *obj) { return obj; }
void X___cxa_end_catch(void) {}
void X___cxa_rethrow(void) { verif_exc_pending = 1; }
#endif
